#!/bin/sh
# Offline setup: nothing to download or compile; verify the tools and parse every spec module.
set -e
cd "$(dirname "$0")"
command -v java >/dev/null
command -v node >/dev/null
test -x /venv/bin/python
test -f /opt/veriftools/tla/tla2tools.jar
mkdir -p evidence replays
fail=0
for f in spec/*.tla; do
  if ! (cd spec && java -cp /opt/veriftools/tla/tla2tools.jar:/opt/veriftools/tla/CommunityModules-deps.jar tla2sany.SANY "$(basename "$f")" >/tmp/sany.$$ 2>&1); then
    echo "SANY failed on $f"; cat /tmp/sany.$$; fail=1
  fi
done
rm -f /tmp/sany.$$
[ $fail = 0 ] && echo "setup ok"
exit $fail
