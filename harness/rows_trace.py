"""Code -> spec for statement reading (C05): random tables, layouts and settings (nothing here comes from TLC) written to a
file, read by the real parse_generic_csv, recorded for spec/Trace_Rows.tla.

The abstraction function (what a cell IS) is written from the statement of C05:
  text cell    blank iff empty after removing surrounding blanks; identity = the text without surrounding blanks
  date cell    a date under the layout's format iff the text without surrounding blanks is written in that format
  amount cell  the number written in it under a decimal convention: optional parentheses (negative), optional currency symbol,
               optional sign, digits with optional WELL-FORMED thousands grouping, optional decimals; anything else is not a
               number.  Texts whose reading is debatable (malformed grouping, exponents, underscores) are never generated.
The file's cells are taken from the harness's OWN reading of the bytes (csv.reader with the dialect the source declares),
not from the generator's table, so what the record calls a row is what the file contains."""
import csv
import datetime
import io
import os
import random
import re
import tempfile

WORDS = ['ALFA STORE', 'bravo cafe', 'ACME, Inc.', 'JOE "THE" DINER', 'Café Zürich №5', 'X;Y|Z', 'PAY  ROLL', "O'NEIL & SONS",
         'TAB\tINSIDE', 'LINE ONE\nLINE TWO', 'TOTAL DUE\n', '#9 STORE', 'a', '=SUM(A1)', '2" X 4" BOARD', '"', 'Ünïcode ✓',
         'SEATTLE WA', 'x' * 60, '100.00', '01/05/2025',
         # line breaks in a row INSIDE a quoted cell, also with nothing (or blanks) between them
         'ACME HARDWARE\n\nSPRINGFIELD', 'Unit 4\n \nRear door']
# (no carriage return inside a cell: tally opens statements with universal newlines, so "\r\n" inside a quoted cell is read as
#  "\n" - a line-ending normalisation the statement does not speak about; excluded rather than judged)
DATE_FORMATS = ['%m/%d/%Y', '%Y-%m-%d', '%d.%m.%Y', '%d %b %y', '%m/%d/%y']
CUR = ['$', '€', '£', '¥']


def _rand_text(rnd):
    r = rnd.random()
    if r < 0.08:
        return rnd.choice(['', '', '   ', '\t'])
    t = rnd.choice(WORDS)
    if rnd.random() < 0.3:
        t = rnd.choice([' ', '  ']) + t + rnd.choice(['', ' ', '   '])
    return t


def _rand_date(rnd, fmt):
    """(text, value or None)"""
    d = datetime.date(rnd.choice([2023, 2024, 2025]), rnd.randrange(1, 13), rnd.randrange(1, 29))
    if rnd.random() < 0.1:
        d = datetime.date(2024, 2, 29)
    r = rnd.random()
    if r < 0.8:
        t = d.strftime(fmt)
        if rnd.random() < 0.2:
            t = ' ' + t + '  '
        return t
    if r < 0.86:        # written in ANOTHER format
        return d.strftime(rnd.choice([f for f in DATE_FORMATS if f != fmt]))
    return rnd.choice(['', '  ', '02/30/2025', '2025-02-30', '31.02.2025', 'hello', '01/05', '13/45/2025', '2025-13-01', 'N/A',
                       '00/00/0000', '1/5', '30 Feb 25'])


def read_date(text, fmt):
    """The statement: 'a date matching the date format'.  Returns (y, m, d) or None."""
    s = text.strip()
    if not s:
        return None
    try:
        d = datetime.datetime.strptime(s, fmt)
    except ValueError:
        return None
    # strptime is lenient about zero padding (1/5/2025): that is still the same date written in that format
    return (d.year, d.month, d.day)


def _group(digits, sep):
    out = []
    while len(digits) > 3:
        out.insert(0, digits[-3:])
        digits = digits[:-3]
    out.insert(0, digits)
    return sep.join(out)


def _rand_amount(rnd, dec):
    """Amount cell text in the decimal convention `dec` ('.' or ','), or something that is not a number."""
    r = rnd.random()
    if r < 0.10:
        return rnd.choice(['', '  ', 'abc', '--5', '12.5.0', '1,2,3.4.5', '5 USD', 'nan', 'inf', '-inf', 'NaN', 'Infinity', 'N/A',
                           '$', '()', '-', '+', '1/2', '0x10', 'ten', '12,5,0'])
    if r < 0.16:
        return rnd.choice(['0', '0.00' if dec == '.' else '0,00', '(0)', '-0', '$0', '+0', '0' + dec + '000'])
    whole = rnd.choice([0, 3, 7, 12, 99, 100, 999, 1000, 1234, 2500, 10000, 123456, 999999, rnd.randrange(0, 1000000)])
    ndec = rnd.choice([0, 0, 2, 2, 2, 1, 3])
    frac = ''.join(rnd.choice('0123456789') for _ in range(ndec))
    tsep = ',' if dec == '.' else rnd.choice(['.', '.', ' '])
    ws = str(whole)
    if whole >= 1000 and rnd.random() < 0.5:
        ws = _group(ws, tsep)
    body = ws + (dec + frac if ndec else '')
    sign = rnd.choice(['', '', '', '-', '+'])
    cur = rnd.choice(CUR) if rnd.random() < 0.3 else ''
    t = rnd.choice([sign + cur + body, cur + sign + body]) if cur else sign + body
    if rnd.random() < 0.12 and not sign:
        t = '(' + cur + body + ')'
    if rnd.random() < 0.15:
        t = ' ' + t + ' '
    return t


_NUM = {
    '.': re.compile(r'^(?P<s>[-+]?)(?P<w>\d{1,3}(?:,\d{3})+|\d+)(?:\.(?P<f>\d+))?$'),
    ',': re.compile(r'^(?P<s>[-+]?)(?P<w>\d{1,3}(?:[. ]\d{3})+|\d+)(?:,(?P<f>\d+))?$'),
}


def read_amount(text, dec):
    """The number written in the cell, in thousandths, or None (not a number) - or 'skip' when the reading is outside what
    the statement settles (more than three decimals, more than 9 digits)."""
    s = text.strip()
    neg = False
    if s.startswith('(') and s.endswith(')'):
        neg = True
        s = s[1:-1].strip()
    s2 = re.sub(r'[$€£¥]', '', s)
    if len(s) - len(s2) > 1:
        return 'skip'
    s = s2.strip()
    m = _NUM[dec].match(s)
    if not m:
        if not re.search(r'\d', s):
            return None                      # no digit at all: not a number
        if re.search(r'[^-+\d., ]', s):
            return None                      # letters, slashes ...: not a number
        if len(re.findall(r'[-+]', s)) > 1 or re.search(r'\d\s*[-+]', s):
            return None                      # two signs / a sign after digits
        thousands = ',' if dec == '.' else '. '
        rest = ''.join(c for c in s if c not in thousands)
        if rest.count(dec) > 1:
            return None                      # two decimal separators
        return 'skip'                        # digits with malformed grouping: debatable, never judged
    w = re.sub(r'[., ]', '', m.group('w'))
    f = m.group('f') or ''
    if len(f) > 3 or len(w) > 7:
        return 'skip'
    v = int(w) * 1000 + int((f + '000')[:3])
    if m.group('s') == '-':
        v = -v
    if neg:
        v = -v
    return v


class Layout:
    def __init__(self, rnd):
        self.fmt = rnd.choice(DATE_FORMATS)
        self.mode = rnd.choice(['desc', 'desc', 'template'])
        self.hasloc = rnd.random() < 0.35
        self.hasextra = self.mode == 'desc' and rnd.random() < 0.35
        self.sign = rnd.choice(['plain', 'plain', 'negate', 'abs'])
        self.negate_setting = self.sign == 'negate' and rnd.random() < 0.4         # negate_amount: true instead of {-amount}
        roles = ['date', 'amt'] + (['desc'] if self.mode == 'desc' else ['desc', 'cap2'])
        if self.hasloc:
            roles.append('loc')
        if self.hasextra:
            roles.append('extra')
        rnd.shuffle(roles)
        for _ in range(rnd.choice([0, 0, 1, 2])):
            roles.insert(rnd.randrange(len(roles) + 1), 'skip')
        self.roles = roles
        self.template = rnd.choice(['{merchant} ({kind})', '{kind}: {merchant}', '{merchant}{kind}', '{merchant} - {kind} - {merchant}'])
        self.names = {'desc': 'merchant', 'cap2': 'kind', 'extra': rnd.choice(['cardholder', 'memo', 'Day'])}

    def format_string(self, rnd):
        toks = []
        for r in self.roles:
            if r == 'date':
                toks.append('{date:%s}' % self.fmt if (self.fmt != '%m/%d/%Y' or rnd.random() < 0.5) else '{date}')
            elif r == 'amt':
                p = '-' if (self.sign == 'negate' and not self.negate_setting) else '+' if self.sign == 'abs' else ''
                toks.append('{%samount}' % p)
            elif r == 'desc':
                toks.append('{description}' if self.mode == 'desc' else '{merchant}')
            elif r == 'cap2':
                toks.append('{kind}')
            elif r == 'loc':
                toks.append('{location}')
            elif r == 'extra':
                toks.append('{%s}' % self.names['extra'])
            else:
                toks.append(rnd.choice(['{_}', '{*}']))
        return rnd.choice([', ', ',', ' , ']).join(toks)

    def min_cols(self):
        return max(i for i, r in enumerate(self.roles) if r != 'skip') + 1


def gen_table(rnd, lay, dec):
    n = rnd.choice([1, 2, 3, 4, 6, 9])
    rows = []
    for _ in range(n):
        r = rnd.random()
        if r < 0.05:
            rows.append([])                                   # an empty line
            continue
        if r < 0.11:
            # a row of the right width whose cells are all empty or blank (spreadsheet padding, a separator row): malformed on its own
            rows.append([rnd.choice(['', '', ' ', '  ']) for _ in lay.roles] + ([''] if rnd.random() < 0.3 else []))
            continue
        cells = []
        for role in lay.roles:
            if role == 'date':
                cells.append(_rand_date(rnd, lay.fmt))
            elif role == 'amt':
                cells.append(_rand_amount(rnd, dec))
            elif role == 'skip':
                cells.append(rnd.choice(['', 'n/a', '12.50', 'x,y']))
            else:
                cells.append(_rand_text(rnd))
        if r < 0.18:
            cells = cells[:rnd.randrange(1, len(cells))] if len(cells) > 1 else cells      # a short row
        elif r < 0.26:
            cells = cells + [rnd.choice(['', 'extra', '9.99'])] * rnd.choice([1, 2])       # a long row
        rows.append(cells)
    return rows


def write_table(rnd, rows, delim, header, lay):
    """Returns (text, reader kwargs) - the file as a bank export would be written, in the dialect the source declares."""
    d = {',': ',', ';': ';', '|': '|', 'tab': '\t'}[delim]
    buf = io.StringIO()
    w = csv.writer(buf, delimiter=d, quoting=rnd.choice([csv.QUOTE_MINIMAL, csv.QUOTE_ALL, csv.QUOTE_NONNUMERIC]),
                   lineterminator=rnd.choice(['\n', '\r\n']))
    if header:
        w.writerow([{'date': 'Date', 'amt': 'Amount', 'desc': rnd.choice(['Description', 'Description\n(as posted)', 'Details\n']), 'cap2': 'Type', 'loc': 'City, State',
                     'extra': 'Card\nMember', 'skip': 'Ref'}[r] for r in lay.roles])
    for r in rows:
        if not r:
            buf.write(w.dialect.lineterminator)
        else:
            w.writerow(r)
    return buf.getvalue(), {'delimiter': d}


class Intern:
    def __init__(self):
        self.ids = {}

    def __call__(self, s):
        return self.ids.setdefault(s, 't%d' % len(self.ids))


def abstract_rows(cells_rows, lay, dec, intern):
    """File rows (lists of cell texts as the harness read them) -> Rows.tla rows, or None when some cell is outside what
    the statement settles."""
    out = []
    need = lay.min_cols()
    for cells in cells_rows:
        if not cells:
            shape = 'emptyline'
        elif len(cells) < need:
            shape = 'short'
        else:
            shape = 'long' if len(cells) > len(lay.roles) else 'ok'
        row = {'shape': shape}
        blankcell = {'id': intern(''), 'blank': True}
        for role in ('date', 'desc', 'cap2', 'amt', 'loc', 'extra'):
            if role in lay.roles and lay.roles.index(role) < len(cells):
                t = cells[lay.roles.index(role)]
            else:
                t = ''
            s = t.strip()
            if role == 'date':
                v = read_date(t, lay.fmt)
                if v is None and s and ' ' not in lay.fmt and len(s.split()) > 1 and read_date(s.split()[0], lay.fmt):
                    return None          # a date followed by other text: the statement does not say (excluded)
                row['date'] = {'id': intern(s), 'val': list(v) if v else [0, 0, 0], 'fmts': ['f'] if v else [], 'blank': not s}
            elif role == 'amt':
                rd = {}
                for conv, name in (('.', 'dot'), (',', 'comma')):
                    a = read_amount(t, conv)
                    if a == 'skip':
                        if (conv == '.') == (dec == 'dot'):
                            return None
                        a = None
                    rd[name] = {'ok': a is not None, 'cents': a if a is not None else 0}
                row['amt'] = {'id': intern(s), 'blank': not s, 'dot': rd['dot'], 'comma': rd['comma']}
            else:
                row[role] = {'id': intern(s), 'blank': not s} if t is not None else blankcell
        if lay.mode == 'template' and row['desc']['blank'] and row['cap2']['blank']:
            return None                  # a description that consists of the template's own characters only: excluded
        out.append(row)
    return out


def record_one(rnd, rid, tmpdir):
    from tally.config_loader import resolve_source_format
    from tally.parsers import parse_generic_csv
    lay = Layout(rnd)
    dec = rnd.choice(['dot', 'dot', 'comma'])
    delim = rnd.choice([',', ',', ';', '|', 'tab'])
    if dec == 'comma' and delim == ',':
        delim = ';'
    header = rnd.random() < 0.5
    table = gen_table(rnd, lay, '.' if dec == 'dot' else ',')
    text, rk = write_table(rnd, table, delim, header, lay)
    path = os.path.join(tmpdir, 'f%d.csv' % rnd.randrange(4))
    with open(path, 'w', newline='', encoding='utf-8') as f:
        f.write(text)
    # the harness's own reading of the file's cells
    with open(path, 'r', newline='', encoding='utf-8') as f:
        file_rows = list(csv.reader(f, **rk))
    intern = Intern()
    rows = abstract_rows(file_rows, lay, dec, intern)
    if rows is None:
        return None
    fmt_str = lay.format_string(rnd)
    src = {'name': rnd.choice(['Card', 'My Bank']), 'file': path, 'format': fmt_str, 'has_header': header}
    if lay.mode == 'template':
        src['columns'] = {'description': lay.template}
    if delim != ',':
        src['delimiter'] = {'tab': rnd.choice(['tab', '\t'])}.get(delim, delim)
    if lay.negate_setting:
        src['negate_amount'] = True
    spec = resolve_source_format(dict(src))['_format_spec']
    raised = ''
    try:
        txns = parse_generic_csv(path, spec, [], source_name=src['name'], decimal_separator='.' if dec == 'dot' else ',')
    except (TypeError, KeyError, AttributeError, IndexError, ZeroDivisionError, ValueError, AssertionError, UnicodeError) as ex:
        # reading is TOTAL on these files: whatever one row does, the reader returns (a malformed row is skipped on its own)
        txns, raised = [], '%s: %s' % (type(ex).__name__, ex)
    tmap = []
    if lay.mode == 'template':
        seen = set()
        for r in rows:
            key = (r['desc']['id'], r['cap2']['id'])
            if key in seen:
                continue
            seen.add(key)
            inv = {v: k for k, v in intern.ids.items()}
            filled = lay.template.format(merchant=inv[key[0]], kind=inv[key[1]])
            tmap.append([key[0], key[1], intern(filled)])
    obs = []
    bad_source = False
    for t in txns:
        a = t['amount'] * 1000
        if a != a or abs(a) == float('inf') or abs(a - round(a)) > 1e-6:
            cents = 2000000001 if a != a or abs(a) == float('inf') else int(a)      # not a number the table contains
        else:
            cents = int(round(a))
        fld = t['field'] or {}
        if lay.mode == 'desc':
            extra = intern(fld.get(lay.names['extra'].lower(), '\0missing')) if lay.hasextra else '-'
            if not lay.hasextra and fld:
                extra = intern('\0unexpected-field')
        else:
            extra = '-'
            if fld != {'merchant': fld.get('merchant'), 'kind': fld.get('kind')}:
                extra = intern('\0unexpected-field')
        obs.append({'date': [t['date'].year, t['date'].month, t['date'].day], 'desc': intern(t['raw_description']), 'cents': cents,
                    'credit': bool(t['is_credit']), 'loc': intern(t['location']) if t['location'] is not None else '-', 'extra': extra})
        if t['source'] != src['name']:
            bad_source = True
    cfg = {'fmt': 'f', 'sign': lay.sign, 'mode': lay.mode, 'hasloc': lay.hasloc, 'hasextra': lay.hasextra, 'dec': dec}
    return {'id': rid, 'rows': rows, 'cfg': cfg, 'header': header, 'obs': obs, 'tmap': tmap, 'badsource': bad_source, 'raised': bool(raised),
            '_raised': raised, '_text': text, '_source': {k: v for k, v in src.items() if k != 'file'}, '_dec': dec, '_n': len(obs),
            '_mixed': 0 < len(obs) < len(rows) - (1 if header else 0)}


def record_batch(seed, n):
    rnd = random.Random(seed)
    tmpdir = tempfile.mkdtemp(prefix='rowtrace_', dir='/dev/shm' if os.path.isdir('/dev/shm') else None)
    recs, skipped = [], 0
    try:
        for k in range(n):
            r = record_one(rnd, 'rows:%d:%d' % (seed, k), tmpdir)
            if r is None:
                skipped += 1
            else:
                recs.append(r)
    finally:
        import shutil
        shutil.rmtree(tmpdir, ignore_errors=True)
    return recs, skipped
