"""Concretisation of abstract Engine.tla rule files / transactions into real .rules text, CSV rows and transaction dicts.

The meaning of every snippet on the concrete transaction is fixed by construction: atom A1 is true iff the token
ALFA was put into the description, A2 iff the amount is 150 (vs 50), AE iff field.kind is ACH (wire = false,
key missing = evaluation error), the dynamic tag resolves through field.proj."""
import datetime

A1_FORMS = ['contains("ALFA")', 'regex("AL.A")', '"alfa" in description', 'anyof("ZZZZ", "alfa")',
            'normalized("AL-FA")', 'contains(description, "Alfa")', 'regex("\\\\bALFA\\\\b")']
A2_FORMS = ['amount > 100', 'amount >= 100.5', 'abs(amount) > 100', '(amount * 2 > 200)', '100 < amount',
            '(amount > 100 and amount < 1000)', '1000 > amount > 100', '0 < 100 < amount']
# the same atom with the other polarity: true of small amounts (0, 50, -20), false of 150
A2_LOW_FORMS = ['amount < 100', 'amount <= 99.5', '100 > amount', 'not amount >= 100', '(amount < 100 and amount <= 120)',
                # chained comparisons: every link counts (150 passes the first link and fails the second)
                '-1000 < amount < 100', '-1000 <= amount <= 99.5', '1000 > amount > -1000 < 100 > amount']
A2_LOW_CSV = ['[amount<100]', '[amount<=99.5]', '[amount<100]', '[amount<100]', '[amount<100][amount<=120]',
              '[amount<100]', '[amount<=99.5]', '[amount<100]']
LOW_AMOUNTS = [0.0, 0.0, 50.0, -20.0]
# the same atom read off another primitive of the language: the transaction's date is chosen so that the date part says what
# the amount says (every primitive - amount, weekday, day, year ... - is a property of the transaction being classified)
A2_DATE_FORMS = {'weekday': ['weekday >= 5', 'weekday > 4', '5 <= weekday'], 'day': ['day > 20', 'day >= 21', '20 < day'],
                 'year': ['year == 2024', 'year < 2025', '2025 > year']}
AE_FORMS = ['field.kind == "ach"', 'contains(field.kind, "AC")', 'field.kind.lower() == "ach"',
            '"ACH" in field.kind', 'startswith(field.kind, "ach")']
# the captured column may be called anything the format parser accepts - including the names of the date parts, which are
# primitives of the language but NOT built-in members of `field`
FIELD_NAMES = ['kind', 'kind', 'day', 'month', 'year', 'weekday']
DYN_FORMS = ['{field.proj}', '{ field.proj }', '{extract(field.proj, "(P\\\\w+)")}', '{trim(field.proj)}',
             # case-sensitive pieces inside the expression text (\\S is not \\s, "X" is not "x"): the text is an expression, not a tag
             '{extract(field.proj, "(P\\\\S+)")}', '{regex_replace(field.proj, "\\\\W", "")}', '{split(field.proj + "Zq", "Z", 0)}',
             # through a let: binding of the SAME rule (the tag belongs to its rule's bindings, not to the last rule's)
             # (not wrapped in a function: a failed binding is None, and trim(None) is the text "None" in this language)
             '{tagsrc}', '{ tagsrc }',
             # braces INSIDE the expression (a counted repetition): the tag is still one {expression}
             '{extract(field.proj, "(P\\\\w{2})")}', '{extract(field.proj, "([A-Za-z]{1,2}\\\\d{1})")}']
DYN_LET = 'let: tagsrc = field.proj'
CATS = {'C1': 'Food', 'C2': 'Bills & Utilities'}
SUBS = {'S1': 'Sub One', 'S2': 'Sub Two'}
MERCH = {'M1': 'Merch One', 'M2': 'Merch-Two'}
TAGS = {'ta': ['ta', 'Ta', ' TA '], 'tb': ['tb', 'TB', 'tB']}


class Variant:
    """Surface choices for one concretisation (0 = canonical)."""

    def __init__(self, rnd=None, canonical=False):
        if canonical or rnd is None:
            self.a1 = self.a2 = self.ae = self.dyn = self.tag = 0
            self.paren = False
            self.upper_names = False
            self.crlf = False
            self.noise = False
            self.neg_amount = False
            self.low = None
            self.fname = 'kind'
            self.interleave = False
            self.xform = False
            self.dupname = False
            self.a2src = None
        else:
            # the file carries two field transforms (the first cannot be evaluated and is skipped on its own; the second
            # strips a wallet prefix every description then carries) and atom A1 is written so that it NEEDS the stripping
            self.xform = rnd.random() < 0.3
            self.interleave = rnd.random() < 0.6
            self.fname = rnd.choice(FIELD_NAMES)
            self.a1 = rnd.randrange(len(A1_FORMS))
            self.a2 = rnd.randrange(len(A2_FORMS))
            self.ae = rnd.randrange(len(AE_FORMS))
            self.dyn = rnd.randrange(len(DYN_FORMS))
            self.tag = rnd.randrange(3)
            self.paren = rnd.random() < 0.5
            self.upper_names = rnd.random() < 0.3
            self.crlf = rnd.random() < 0.2
            self.noise = rnd.random() < 0.5
            self.neg_amount = self.a2 == 2 and rnd.random() < 0.5
            # A2 as "small amount": (form index, amount of the transactions where A2 holds)
            self.low = (rnd.randrange(len(A2_LOW_FORMS)), rnd.choice(LOW_AMOUNTS)) if not self.neg_amount and rnd.random() < 0.4 else None
            # every rule block of the file carries the SAME [Name] (legitimate: several patterns of one merchant); a rule
            # is identified by its position in the file, not by its name
            # (derived from the other choices instead of drawn, so that the stream of the other choices is what it was)
            self.dupname = (self.a1 * 7 + self.a2 * 5 + self.ae * 3 + self.dyn * 11 + self.tag) % 4 == 0
            self.a2src = None if (self.low or self.neg_amount) else {0: 'weekday', 1: 'day', 2: 'year'}.get(
                (self.a1 * 3 + self.a2 * 5 + self.ae * 7 + self.dyn + self.tag * 2) % 7)

    def describe(self):
        return dict(self.__dict__)


def atom(a, v):
    if a == 'A1':
        return 'startswith("ALFA")' if v.xform else A1_FORMS[v.a1]
    if a == 'A2':
        if getattr(v, 'a2src', None):
            return A2_DATE_FORMS[v.a2src][v.a2 % 3]
        return A2_LOW_FORMS[v.low[0]] if v.low else A2_FORMS[v.a2]
    if a == 'AE':
        return AE_FORMS[v.ae].replace('field.kind', 'field.' + v.fname)
    if a == 'A3':
        return 'month == 12'
    raise ValueError(a)


def cond(c, v, top=True):
    k = c['k']
    if k == 'atom':
        s = atom(c['a'], v)
    elif k == 'var':
        s = c['n'].upper() if v.upper_names else c['n']
    elif k == 'not':
        s = 'not ' + cond(c['x'], v, False)
        if not top:
            s = '(' + s + ')'
    else:
        s = '%s %s %s' % (cond(c['l'], v, False), k, cond(c['r'], v, False))
        if not top or v.paren:
            s = '(' + s + ')'
    return s


def rule_name(r, v=None):
    if v is not None and getattr(v, 'dupname', False):
        return 'Shop'
    return 'R%d' % r['id']


def expected_merchant(r, v=None):
    return MERCH[r['m']] if r['m'] else rule_name(r, v)


def shape_expr(r, v=None):
    """C09 universe: an expression with exactly the rule's (pattern count, constraint kinds, literal length) whose
    truth is that of its atom: the padding conjuncts are true of every transaction the concretiser builds."""
    prio, npat, nkinds, long_ = r['shape']
    tok = {'A1': 'ALFA', 'A2': 'BETA'}[r['cond']['a']]
    pats = ['contains("%s")' % (tok + ' STORE' if long_ else tok)] + ['contains("STORE")'] * (npat - 1)
    cons = ['amount > -5000', 'month >= 1'][:nkinds]
    if v is not None and v.interleave and len(pats) >= 2 and cons:
        # a constraint written BETWEEN two pattern functions counts like one written after them
        parts = [pats[0], cons[0]] + pats[1:] + cons[1:]
    else:
        parts = pats + cons
    return ' and '.join(parts)


def rule_text(r, v, priority=None):
    lines = ['[%s]' % rule_name(r, v)]
    props = []
    for l in r['lets']:
        # names are case-insensitive: a binding may be WRITTEN in any letter case, whatever case its uses are written in
        lc = (getattr(v, 'a1', 0) + getattr(v, 'ae', 0) + getattr(v, 'tag', 0)) % 3
        props.append('let: %s = %s' % (l['n'] if lc == 0 else l['n'].upper() if lc == 1 else l['n'].title(), cond(l['c'], v)))
    if 'dyn' in r['tags'] and 'tagsrc' in DYN_FORMS[v.dyn]:
        props.append(DYN_LET)
    if 'shape' in r:
        props.append('match: ' + shape_expr(r, v))
        if r['shape'][0] != 50 or v.noise:
            priority = r['shape'][0]
    else:
        props.append('match: ' + cond(r['cond'], v))
    rest = []
    if r['cat']:
        rest.append('category: ' + CATS[r['cat']])
    if r['sub']:
        rest.append('subcategory: ' + SUBS[r['sub']])
    if r['m']:
        rest.append('merchant: ' + MERCH[r['m']])
    if r['tags']:
        ts = []
        for t in sorted(r['tags']):
            ts.append(DYN_FORMS[v.dyn] if t == 'dyn' else TAGS[t][v.tag])
        rest.append('tags: ' + ', '.join(ts))
    if priority is not None:
        rest.append('priority: %d' % priority)
    return lines + props + rest


def file_text(f, v, transform=False):
    out = []
    if v.noise:
        out += ['# generated rules', '']
    for g in f['globals']:
        name = g['n'].upper() if v.upper_names else g['n']
        out.append('%s = %s' % (name, cond(g['c'], v)))
    if transform or v.xform:
        out.append('field.memo = trim(field.nosuchcolumn)')
        out.append('field.payee = extract(field.description, "([A-Z]+)")')      # (a transaction may have no `field` to store it in)
        out.append('field.description = regex_replace(field.description, "^APLPAY\\\\s+", "")')
    for r in f['rules']:
        out.append('')
        if v.noise:
            out.append('# rule %s' % r['id'])
        out += rule_text(r, v)
    text = '\n'.join(out) + '\n'
    if v.crlf:
        text = text.replace('\n', '\r\n')
    return text


def txn(t, v, prefix=False, extra_token=''):
    tv = t['v']
    if 'AE' not in tv:      # C09 universe: two pattern atoms
        desc = ('ALFA' if tv['A1'] == 'T' else 'GAMA') + ' STORE ' + ('BETA' if tv['A2'] == 'T' else 'DELT') + ' STORE 12'
        return {'description': desc, 'amount': 42.0, 'date': datetime.date(2025, 3, 14), 'field': None,
                'source': 'Card', 'location': None}
    desc = ('ALFA' if tv['A1'] == 'T' else 'GAMMA') + ' STORE 12' + extra_token
    if prefix or v.xform:
        desc = 'APLPAY ' + desc
    amount = 150.0 if tv['A2'] == 'T' else 50.0
    if v.low:
        amount = v.low[1] if tv['A2'] == 'T' else 150.0
    if v.neg_amount:
        amount = -amount
    field = {}
    if tv['AE'] == 'T':
        field[v.fname] = 'ACH'
    elif tv['AE'] == 'F':
        field[v.fname] = 'wire'
    if t['dyn'] == 'val':
        field['proj'] = 'Px1'
    elif t['dyn'] == 'empty':
        field['proj'] = '' if v.tag % 2 == 0 else '   '
    month = 12 if tv.get('A3') == 'T' else 3
    date = datetime.date(2025, month, 14)
    src = getattr(v, 'a2src', None)
    if src == 'weekday':
        date = next(datetime.date(2025, month, d) for d in range(8, 15) if (datetime.date(2025, month, d).weekday() >= 5) == (tv['A2'] == 'T'))
    elif src == 'day':
        date = datetime.date(2025, month, 25 if tv['A2'] == 'T' else 5)
    elif src == 'year':
        date = datetime.date(2024 if tv['A2'] == 'T' else 2025, month, 14)
    return {'description': desc, 'amount': amount, 'date': date,
            'field': field if field else None, 'source': 'Card', 'location': None}


# ---- legacy CSV ------------------------------------------------------------------------------------------------
def csv_expressible(f):
    if f['globals']:
        return False
    for r in f['rules']:
        c = r['cond']
        ok = (c['k'] == 'atom' and c['a'] in ('A1', 'A2')) or \
             (c['k'] == 'and' and c['l'] == {'k': 'atom', 'a': 'A1'} and c['r'] == {'k': 'atom', 'a': 'A2'})
        if not ok or r['lets'] or r['m'] or 'dyn' in r['tags']:
            return False
    return True


def csv_text(f, v):
    lines = ['Pattern,Merchant,Category,Subcategory,Tags']
    if v.noise:
        lines.append('# legacy rules')
    for r in f['rules']:
        c = r['cond']
        if c['k'] == 'atom' and c['a'] == 'A1':
            pat = ['ALFA', 'AL.A', '(ALFA|ALFB)', '\\bALFA\\b', 'alfa', '(?:AL)FA'][v.a1 % 6]
        elif c['k'] == 'atom':
            pat = 'STORE' + (A2_LOW_CSV[v.low[0]] if v.low else '[amount>100]')
        else:
            pat = 'ALFA' + (A2_LOW_CSV[v.low[0]] if v.low else '[amount>100]')
        tags = '|'.join(TAGS[t][v.tag].strip() for t in sorted(r['tags']))
        lines.append('%s,%s,%s,%s,%s' % (pat, rule_name(r, v), CATS.get(r['cat'], ''), SUBS.get(r['sub'], ''), tags))
    return '\n'.join(lines) + '\n'
