"""C16 – explain and discover describe the same classification that up applies (spec modules Pipeline, MC_Pipeline)."""
import json
import os
import random
import shutil
import tempfile

import cli
import core
import par
import rows_conc as RC
import simtrace
import tlc
from props import c11
from props.engine_common import plain

# the same abstract rule set as C11, written the way that stresses the re-implementations: a tag-only rule FIRST, a global
# variable, a condition that does not start with a function, a let binding and a field directive; rule 4 depends on the
# blanks INSIDE a description (one probe description is a padded export with two blanks in it)
RULES16 = '''# rules for explain / discover agreement
# (variables that need a date, a source or a captured column cannot be evaluated for everything a command classifies - a
#  description typed on the command line has none of them; each variable stands on its own)
recent = date >= "2024-06-01" and year > 2000
viaach = field.kind == "ACH" and source == "Card"
big = amount > 1000

[Refunds]
match: not amount >= 0
tags: refund

[Wallet]
match: startswith("APLPAY")
category: Shopping
subcategory: Grocery

[Alfa]
match: contains("ALFA")
category: Food
subcategory: Grocery
tags: ta
field: note = "alfa"

[Alfa Big]
let: over = big
match: contains("ALFA") and over and amount > 0
category: Big

[Payroll]
match: "PAYROLL" in description and regex("PAYROLL\\s+(ACME|\\sEXTRA)")
category: Income
subcategory: Salary
tags: income

%(matched)s

[Split]
match: contains("SPLIT") and amount > 1000
category: Shopping
subcategory: Wholesale

[Split]
match: contains("SPLIT")
category: Food
subcategory: Grocery
'''
# the supplemental query of rule 5, spelt three ways: in the match expression itself, through a let: binding, through a
# top-level variable (a command that decides by itself which supplemental sources "are needed" must see all three)
MATCHED = ['[Matched]\nmatch: any(r.amount == txn.amount for r in orders)\ntags: matched\n',
           '[Matched]\nlet: hits = [r for r in orders if r.amount == txn.amount]\nmatch: len(hits) > 0\ntags: matched\n',
           '[Matched]\nmatch: len(order_hits) > 0\ntags: matched\n']
MATCHED_GLOBAL = 'order_hits = [r for r in orders if r.amount == txn.amount]\n'
RULE_EXPR = {7: 'contains("SPLIT") and amount > 1000', 8: 'contains("SPLIT")', 6: 'startswith("APLPAY")', 1: 'contains("ALFA")', 2: 'contains("ALFA") and over and amount > 0', 4: '"PAYROLL" in description and regex("PAYROLL\\s+(ACME|\\sEXTRA)")'}
PROBES = [('nv1', 1500.0), ('nv1', -1500.0), ('nv1', 5.0), ('nv2', -800.0), ('nv3', -2.0), ('nv4', -7.0), ('nv3', 12.5), ('nvp', 5.0), ('nvq', 9.0)]


def budget_case(item):
    b, rep, probes, seed = item
    rnd = random.Random(seed)
    d = tempfile.mkdtemp(prefix='c16_')
    diffs = []
    try:
        old = c11.RULES_TEXT
        mi = random.Random(seed * 31 + 7).randrange(3)
        c11.RULES_TEXT = (RULES16 % {'matched': MATCHED[mi]}).replace('big = amount > 1000\n', 'big = amount > 1000\n' + (MATCHED_GLOBAL if mi == 2 else ''))
        try:
            c11.materialise_budget(d, b, rnd)
        finally:
            c11.RULES_TEXT = old
        up = cli.run_tally(['up', '--format', 'json', '-v', '-q'], cwd=d)
        js = cli.parse_json_out(up['out'])
        etx, _ = c11.expected(b, rep)
        if not etx:
            return b, diffs, 0
        if up['rc'] != 0 or js is None:
            return b, [('up-fails', 'rc=%s %s' % (up['rc'], up['err'][-200:]))], 0
        up_by_name = {m['name']: m for m in js['merchants']}
        n = 0
        # 1. explain <merchant>
        for name, m in up_by_name.items():
            r = cli.run_tally(['explain', name, '--format', 'json'], cwd=d)
            n += 1
            try:
                ej = json.loads(r['out'][r['out'].index('{'):])
            except ValueError:
                diffs.append(('explain-merchant-output', 'explain %r: rc=%s, no JSON: %s' % (name, r['rc'], (r['out'] + r['err'])[:200])))
                continue
            got = (ej.get('category'), ej.get('subcategory'), sorted(ej.get('tags', [])))
            want = (m['category'], m['subcategory'], sorted(m.get('tags', [])))
            if got != want:
                diffs.append(('explain-merchant', 'explain %r says %s, up says %s' % (name, got, want)))
        # 2. explain "<raw description>" --amount a   (descriptions that are in no statement)
        for (pid, amount), spec in zip(PROBES, probes):
            desc = RC.TEXTS[pid][1]
            r = cli.run_tally(['explain', desc, '--amount', str(amount), '--format', 'json'], cwd=d)
            n += 1
            try:
                ej = json.loads(r['out'][r['out'].index('{'):])
            except ValueError:
                diffs.append(('explain-description-output', 'explain %r --amount %s: rc=%s, no JSON: %s' % (desc, amount, r['rc'], (r['out'] + r['err'])[:200])))
                continue
            want_cat = spec['cat']
            want_sub = spec['sub'] if want_cat != 'Unknown' else 'Unknown'
            want_merchant = c11.RULE_NAMES[spec['rule']] if spec['rule'] else None
            got = (ej.get('category'), ej.get('subcategory'), ej.get('merchant') if want_merchant else None)
            if got != (want_cat, want_sub, want_merchant):
                feats = []
                if spec['rule'] == 0 and ej.get('category') not in ('Unknown',):
                    feats.append('tag-only-rule-wins' if not ej.get('category') else 'wrong-rule')
                if b['mode'] == 'most_specific':
                    feats.append('most_specific')
                diffs.append(('explain-description', 'explain %r --amount %s says %s; up assigns %s to such a transaction' % (
                    desc, amount, got, (want_cat, want_sub, want_merchant)), feats))
            elif want_merchant and b['rules'] == 'rules':
                mr = (ej.get('matched_rule') or {}).get('pattern')
                if mr != RULE_EXPR.get(spec['rule']):
                    diffs.append(('explain-description-rule', 'explain %r reports rule %r, the deciding rule is %r' % (desc, mr, RULE_EXPR.get(spec['rule']))))
        # 3. discover
        r = cli.run_tally(['discover', '--format', 'json', '--limit', '0'], cwd=d)
        n += 1
        unknown = {}
        for t in etx:
            if t['category'] == 'Unknown':
                u = unknown.setdefault(t['description'], [0, 0.0])
                u[0] += 1
                u[1] += abs(t['amount'])
        if not unknown:
            if 'No unknown transactions' not in r['out']:
                diffs.append(('discover-list', 'up leaves nothing Unknown but discover prints: %s' % r['out'][:200]))
        else:
            try:
                items = json.loads(r['out'][r['out'].index('['):])
                got = {i['raw_description']: [i['count'], round(i['total_spend'], 2)] for i in items}
            except ValueError:
                got = None
                diffs.append(('discover-output', 'discover: rc=%s, no JSON: %s' % (r['rc'], (r['out'] + r['err'])[:200])))
            want = {k: [v[0], round(v[1], 2)] for k, v in unknown.items()}
            # ... and with what `tally up` itself reports as Unknown (per raw description: how many transactions)
            up_unknown = {}
            for m in js['merchants']:
                if m['category'] == 'Unknown':
                    for desc_, cnt in (m.get('raw_descriptions') or {}).items():
                        up_unknown[desc_] = up_unknown.get(desc_, 0) + cnt
            if got is not None and {k_: v_[0] for k_, v_ in got.items()} != up_unknown:
                diffs.append(('discover-vs-up', 'discover counts %s, `tally up` files as Unknown %s' % ({k_: v_[0] for k_, v_ in got.items()}, up_unknown)))
            if got is not None and got != want:
                extra = sorted(set(got) - set(want))
                diffs.append(('discover-list', 'discover lists %s; up leaves Unknown %s' % (got, want),
                              ['supplemental-rows-listed'] if extra and b['supp'] and set(extra) <= {'Widget', 'Gadget'} and all(got.get(k) == want[k] for k in want) else []))
        return b, diffs, n
    finally:
        shutil.rmtree(d, ignore_errors=True)


def run(ck):
    quick = ck.tier == 'quick'
    ck.assumptions += ['the budgets of the Pipeline universe with a rules file written to stress the re-implementations (tag-only rule first, '
                       'global variable, let, field, `not ...` and `"x" in description` conditions, supplemental query)',
                       'explain "<description>" is exercised with descriptions that occur in no statement (so that explain must classify them itself)']
    ck.expect_model_ok('MC_Pipeline', tlc.run('MC_Pipeline', 'MC_Pipeline.cfg'))
    tmp = tempfile.mkdtemp(prefix='c16sim_')
    try:
        num = 25 if quick else 400
        sim = tlc.run('MC_Pipeline', 'MC_Pipeline_sim.cfg', simulate='file=%s/tr,num=%d' % (tmp, num), depth=9, workers=1, seed=ck.seed + 16)
        if sim.error or sim.violated:
            raise core.Machinery('MC_Pipeline simulation failed: %s %s' % (sim.error, sim.violated))
        items = []
        seen = set()
        for f, (labels, states) in simtrace.behaviours(tmp):
            for st in states:
                b = plain(st['b'])
                k = json.dumps(b, sort_keys=True)
                if k in seen:
                    continue
                seen.add(k)
                items.append((b, plain(st['rep']), plain(st['probes']), ck.seed + len(items)))
    finally:
        shutil.rmtree(tmp, ignore_errors=True)
    for b, diffs, n in par.pmap(budget_case, items):
        ck.case(n=max(n, 1))
        ck.trace(max(n, 1))
        ck.case(json.dumps(b, sort_keys=True), nontrivial=b['rules'] != 'none', n=0)
        for dd in diffs:
            clause, detail = dd[0], dd[1]
            feats = dd[2] if len(dd) > 2 else []
            ck.violation({'site': clause.split('-')[0], 'clause': clause, 'rules': b['rules'], 'mode': b['mode'], 'xform': b.get('xform', False), 'features': feats},
                         {'budget': b, 'detail': detail}, 'budget %s: %s' % (json.dumps({k: b[k] for k in ('rules', 'mode', 'supp', 'xform')}), detail))
    ck.sample({'budget': items[0][0], 'probe': PROBES[0], 'spec': items[0][2][0]})
    ck.extra['rule'] = ('every distinct budget on TLC -simulate walks over MC_Pipeline: `tally up --format json -v`, `tally explain <merchant>` for '
                        'every merchant, `tally explain "<description>" --amount a` for 8 descriptions that are in no statement (compared with '
                        'Pipeline!Explain), `tally discover --format json --limit 0` (compared with the Unknown part of Pipeline!Report). '
                        'non-trivial = budget with rules')
    ck.exhaustive = False


def replay(ck, path):
    print(json.dumps(json.load(open(path))['case'], indent=1)[:3000])
