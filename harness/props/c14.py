"""C14 – migrating merchant_categories.csv to merchants.rules preserves classification (spec modules Regex, Legacy, MC_Legacy)."""
import csv
import datetime
import io
import json
import os
import random
import re
import shutil
import tempfile

import cli
import core
import exprabs as X
import legacydata as LD
import par
import tlc
from props.engine_common import plain
from props.totals_common import run_trace_spec


def csv_text(rules):
    """rules: list of dicts(pattern, mods_text, id, cat, sub, tags)."""
    buf = io.StringIO()
    w = csv.writer(buf, lineterminator='\n')
    w.writerow(['Pattern', 'Merchant', 'Category', 'Subcategory', 'Tags'])
    lines = [buf.getvalue()]
    lines.append('# migrated soon\n')
    for r in rules:
        b = io.StringIO()
        csv.writer(b, lineterminator='\n').writerow([r['pattern'] + r['mods_text'], r['merchant'], r['cat'], r['sub'], '|'.join(r['tags'])])
        lines.append(b.getvalue())
        lines.append('\n' if r.get('blank_after') else '')
    return ''.join(lines)


def concrete_rules(rules):
    out = []
    for r in rules:
        out.append({'pattern': LD.PATTERNS[r['pi'] - 1], 'mods_text': LD.MODS[r['mi'] - 1][0], 'merchant': 'Rule %d' % r['id'],
                    'cat': LD.CATS[r['cat']], 'sub': LD.SUBS[r['sub']], 'tags': [LD.TAGS[t] for t in sorted(r['tags'])],
                    'relative': any(m[0] == 'rel' for m in LD.MODS[r['mi'] - 1][1])})
    return out


def classify_csv_side(path, txns):
    from tally.merchant_utils import get_all_rules, normalize_merchant
    rules = get_all_rules(path)
    out = []
    for t in txns:
        m, c, s, info = normalize_merchant(t['description'], rules, amount=t['amount'], txn_date=t['date'])
        out.append([m if c != 'Unknown' else None, c, s, sorted((info or {}).get('tags', []))])
    return out


def classify_rules_side(path, txns):
    from tally.merchant_utils import load_merchant_rules
    from tally.merchant_engine import csv_to_merchants_content, parse_merchants, load_csv_as_engine, MerchantParseError
    content = csv_to_merchants_content(load_merchant_rules(path))
    try:
        eng = parse_merchants(content)
    except MerchantParseError as e:
        return 'UNLOADABLE: %s' % e, content, None
    out = []
    for t in txns:
        r = eng.match(dict(t))
        out.append([r.merchant if r.matched else None, r.category if r.matched else 'Unknown', r.subcategory if r.matched else 'Unknown', sorted(r.tags)])
    eng2 = load_csv_as_engine(path)
    out2 = []
    for t in txns:
        try:
            r = eng2.match(dict(t))
            out2.append([r.merchant if r.matched else None, r.category if r.matched else 'Unknown', r.subcategory if r.matched else 'Unknown', sorted(r.tags)])
        except Exception as e:
            out2.append('EXC:' + repr(e))
    return out, content, out2


def expected(res, rules):
    exp = []
    for c in res:
        tags = sorted(LD.TAGS[t].lower() for t in c['tags'])
        if c['win'] == 0:
            exp.append([None, 'Unknown', 'Unknown', tags])
        else:
            r = rules[c['win'] - 1]
            exp.append([r['merchant'], r['cat'], r['sub'], tags])
    return exp


def features(rules):
    f = set()
    for r in rules:
        p = r['pattern']
        if '\\b' in p:
            f.add('word-boundary')
        if re.search(r'\\[1-9]', p):
            f.add('backreference')
        if '"' in p:
            f.add('double-quote')
        if '\\\\' in p:
            f.add('escaped-backslash')
        if r.get('relative') or 'last' in r['mods_text'].lower() and 'days' in r['mods_text'].lower():
            f.add('relative-date')
        if '[amount=' in r['mods_text'].replace(' ', ''):
            f.add('amount-equals')
        if not r['cat'] and not r['tags']:
            f.add('no-category-no-tags')
    return sorted(f)


def order_worker(item):
    """Longer rule files (3-5 rules) whose merchants repeat non-contiguously and whose patterns overlap: the CSV loop and the
    migrated file must still agree on every transaction (rule ORDER is part of the meaning of a first-match file)."""
    seed, count = item
    rnd = random.Random(seed)
    txns = LD.txns() + [{'description': d_, 'amount': 75.0, 'date': datetime.date(2025, 1, 15)}
                        for d_ in ('ALFA ALFA STORE', 'ZULU ZULU INST XFER', 'alfa store', 'BETA BETA', 'STORE ALFA')]
    # several SPELLINGS of one merchant: neighbouring rows that agree in everything but the pattern.  Each row is a rule of its
    # own - its groups, back-references, anchors and inline flags are its own
    SPELL = ['(ALFA|BETA) STORE', '^(\\w+) \\1 STORE', '^(\\w+) \\1 INST', 'STORE$', '(?i)alfa store', '(?P<n>ALFA) ALFA', '(?P<n>BETA) BETA',
             'ALFA|ZULU', '^ALFA', 'BETA\\.STORE$', '(ZULU) \\1', 'ST(OR)E A']
    tmpdir = tempfile.mkdtemp(prefix='c14o_', dir='/dev/shm' if os.path.isdir('/dev/shm') else None)
    path = os.path.join(tmpdir, 'merchant_categories.csv')
    fails, n = [], 0
    try:
        for _ in range(count):
            rules = []
            for i in range(rnd.randint(3, 5)):
                rules.append({'pattern': LD.PATTERNS[rnd.choice(LD.CORE_PATTERNS + [1, 5, 6])], 'mods_text': LD.MODS[rnd.choice(LD.CORE_MODS)][0],
                              'merchant': rnd.choice(['Shop A', 'Shop B']), 'cat': 'Cat %d' % i, 'sub': rnd.choice(['', 'Sub %d' % i]),
                              'tags': rnd.choice([[], ['t%d' % i]]), 'relative': False})
            if rnd.random() < 0.5:
                k0 = rnd.randrange(len(rules))
                base = dict(rules[k0], mods_text=rnd.choice(['', '', '[amount>50]']))
                block = [dict(base, pattern=p_) for p_ in rnd.sample(SPELL, rnd.choice([2, 3]))]
                rules[k0:k0 + 1] = block
            text = csv_text(rules)
            with open(path, 'w', newline='') as f:
                f.write(text)
            n += 1
            a = classify_csv_side(path, txns)
            b, content, b2 = classify_rules_side(path, txns)
            if isinstance(b, str):
                fails.append(({'site': 'migration', 'clause': 'unloadable', 'features': ['multi-rule']}, {'csv_text': text, 'error': b}, b))
                continue
            for t, x, y, z in zip(txns, a, b, b2):
                if x != y or x != z:
                    fails.append(({'site': 'migration', 'clause': 'classification-changes', 'features': ['multi-rule', 'repeated-merchant']},
                                  {'csv_text': text, 'migrated': content, 'txn': dict(t, date=str(t['date'])), 'csv': x, 'migrated_file': y, 'csv_as_engine': z},
                                  'after migration %s (amount %s) is classified %s (file) / %s (engine), the CSV rules gave %s' % (t['description'], t['amount'], y, z, x)))
                    break
    finally:
        shutil.rmtree(tmpdir, ignore_errors=True)
    return n, fails[:20]


def replay_states(states, seed):
    txns = LD.txns()
    n, nontriv, fails = 0, 0, []
    sample = None
    tmpdir = tempfile.mkdtemp(prefix='c14_', dir='/dev/shm' if os.path.isdir('/dev/shm') else None)
    path = os.path.join(tmpdir, 'merchant_categories.csv')
    try:
        for st in states:
            rules_abs = plain(st['rules'])
            if not rules_abs:
                continue
            rules = concrete_rules(rules_abs)
            res = plain(st['res'])
            has_rel = any(r['relative'] for r in rules)
            text = csv_text(rules)
            with open(path, 'w', newline='') as f:
                f.write(text)
            n += 1
            exp = expected(res, rules)
            try:
                a = classify_csv_side(path, txns)
                b, content, b2 = classify_rules_side(path, txns)
            except Exception as e:
                fails.append(({'site': 'migration', 'clause': 'exception', 'exc': type(e).__name__}, {'csv_text': text, 'error': repr(e)}, repr(e)))
                continue
            feats = features(rules)
            if isinstance(b, str):
                fails.append(({'site': 'csv_to_merchants_content', 'clause': 'generated-file-unloadable', 'features': feats},
                              {'csv_text': text, 'generated': content, 'error': b}, 'the generated merchants.rules does not load: %s' % b))
                continue
            if not has_rel and a != exp:
                k = next(i for i in range(len(txns)) if a[i] != exp[i])
                fails.append(({'site': 'normalize_merchant(csv)', 'clause': 'csv-side-differs-from-spec', 'features': feats},
                              {'csv_text': text, 'txn': dict(txns[k], date=str(txns[k]['date'])), 'expected': exp[k], 'observed': a[k]},
                              'CSV rules classify %s as %s, Legacy!CsvClassify gives %s' % (txns[k]['description'], a[k], exp[k])))
                continue
            a_norel = None
            if has_rel:
                # what the CSV rules give when the [date:lastNdays] modifier is ignored: tells "only the relative date was dropped"
                # apart from any other change
                stripped = [dict(r, mods_text=re.sub(r'\[date:last\d+days\]', '', r['mods_text'], flags=re.I)) for r in rules]
                with open(path, 'w', newline='') as f:
                    f.write(csv_text(stripped))
                a_norel = classify_csv_side(path, txns)
            for side, got in (('parse_merchants(csv_to_merchants_content)', b), ('load_csv_as_engine', b2)):
                diff = [i for i in range(len(txns)) if got[i] != a[i]]
                if diff and a_norel is not None and got == a_norel:
                    k = diff[0]
                    fails.append(({'site': 'csv_to_merchants_content', 'clause': 'relative-date-modifier-dropped'},
                                  {'csv_text': text, 'generated': content, 'txn': dict(txns[k], date=str(txns[k]['date'])), 'csv_result': a[k], 'rules_result': got[k]},
                                  '[date:lastNdays] has no counterpart in the generated rule: %s is classified %s after migration, %s before' % (
                                      txns[k]['description'], got[k], a[k])))
                    break
                if diff:
                    k = diff[0]
                    fails.append(({'site': side, 'clause': 'classification-changes', 'features': feats},
                                  {'csv_text': text, 'generated': content, 'txn': dict(txns[k], date=str(txns[k]['date'])), 'csv_result': a[k],
                                   'rules_result': got[k], 'n_txns_differing': len(diff)},
                                  'after migration %s %s (amount %s, %s) is classified %s, the CSV rules gave %s' % (
                                      side, txns[k]['description'], txns[k]['amount'], txns[k]['date'], got[k], a[k])))
            if any(x[1] != 'Unknown' for x in a) and any(x[1] == 'Unknown' for x in a):
                nontriv += 1
            if sample is None and len(rules) == 2:
                sample = {'csv_text': text, 'generated_rules': content, 'txn': dict(txns[0], date=str(txns[0]['date'])), 'csv_result': a[0], 'rules_result': b[0]}
    finally:
        shutil.rmtree(tmpdir, ignore_errors=True)
    return n, nontriv, fails[:40], sample


# ---------------------------------------------------------------------------------- code -> spec ----------------
RX_PIECES = ['ALFA', 'STORE', 'BETA', 'Q', 'X', ' ', '\\s', '\\s+', '\\s*', '\\d', '\\d+', '\\w+', '.', '.*', '\\.', '\\b', '(?!X)', '(?! STORE)',
             '"', "'", '#', '-', '12', '9', 'x?', 'A+', '\\-', '\\#', '\\"',
             # the complements: an escape is case-sensitive (\\D is not \\d) although letters match case-insensitively
             '\\D', '\\D+', '\\W+', '\\S+', '\\S', '\\B', '\\W']
WILD_PATTERNS = ['[A-Z]+ STORE', 'ALFA|BETA', '(ALFA)\\s+\\1', 'AL(?=FA)', '(?:ALFA|BETA)\\.?STORE', 'ST[AO]RE', '\\bALFA\\b.*\\d{2}', '^\\w{4}\\s',
                 'STORE\\s#?\\d+', 'A{2}', '(?i)alfa', 'ALFA\\\\', 'Q"', "O\\'K", '\\"Q\\"', 'ALFA\\tSTORE', '\\x41LFA', 'ALFA [0-9]+', 'ALFA$|ZULU',
                 '(?<!X)ALFA', '\\S+', '[^A]LFA', '\\D+', 'ALFA\\Z', '\\AALFA', 'É', 'ß', 'STRASSE', 'alfa']


def regex_records(rnd, n):
    """Python's re on fragment patterns: validates Regex.tla itself (the trusted base of the spec-side matching)."""
    recs = []
    texts = LD.DESCS + ['', 'ALFA\nSTORE', 'a1 b22 c333', 'STORE 5', '  ALFA', 'ALFAALFA', 'x-y#z', 'Q"Q']
    for k in range(n):
        pat = ''.join(rnd.choice(RX_PIECES) for _ in range(rnd.randint(1, 4)))
        if rnd.random() < 0.3:
            pat = '(' + pat + ')' + rnd.choice(['', ' STORE', '\\d'])
        if rnd.random() < 0.15:
            pat = '^' + pat
        if rnd.random() < 0.15:
            pat = pat + '$'
        els = X.regex_elements(pat)
        if els is None:
            continue
        try:
            rx = re.compile(pat, re.IGNORECASE)
        except re.error:
            continue
        t = rnd.choice(texts)
        m = rx.search(t)
        search = [-1, -1, -1, -1]
        extract = []
        if m:
            gs, ge = (m.start(1), m.end(1)) if rx.groups >= 1 else (-1, -1)
            search = [m.start(), m.end(), gs, ge]
            if rx.groups >= 1 and m.group(1) is not None:
                extract = X.codes(m.group(1))
        try:
            sub = X.codes(rx.sub('#', t))
            subok = '\\' not in '#'
        except re.error:
            sub, subok = [], False
        recs.append({'id': 'rx%d' % k, 'kind': 'regex', 'pat': els, 'text': X.codes(t),
                     'obs': {'search': search, 'extract': extract, 'sub': sub, 'subok': subok}, '_pat': pat, '_text': t})
    return recs


def bit_worker(item):
    """Arbitrary re-valid patterns (outside the fragment): per rule and transaction the match bit on the CSV side and on the
    converted side must be equal (the combination logic on top of the bits is C01 / Legacy!CsvClassify)."""
    seed, n = item
    from tally.merchant_utils import load_merchant_rules
    from tally.merchant_engine import csv_to_merchants_content, parse_merchants, MerchantParseError
    from tally.modifier_parser import check_all_conditions
    rnd = random.Random(seed)
    txns = LD.txns()
    # amounts exactly one cent away from an [amount=N] threshold: whether "within a cent" includes them is decided by binary
    # floating point (10.01 - 10 < 0.01, 100.01 - 100 > 0.01) - the rational model has no opinion there, but whatever the CSV
    # rule says, the migrated rule must say the same
    EXACT = [5.0, 9.99, 10.0, 12.5, 15.0, 50.0, 200.0, 1500.0, 20.0, 99.0]
    for n_ in EXACT:
        for a_ in (round(n_ - 0.01, 2), n_, round(n_ + 0.01, 2)):
            txns.append({'description': LD.DESCS[0], 'amount': a_, 'date': datetime.date(2025, 1, 15)})
    fails = []
    done = 0
    d = tempfile.mkdtemp(prefix='c14b_', dir='/dev/shm' if os.path.isdir('/dev/shm') else None)
    path = os.path.join(d, 'm.csv')
    try:
        for k in range(n):
            if rnd.random() < 0.4:
                pat = rnd.choice(WILD_PATTERNS)
            else:
                pat = ''.join(rnd.choice(RX_PIECES) for _ in range(rnd.randint(1, 4)))
            try:
                re.compile(pat, re.IGNORECASE)
            except re.error:
                continue
            mods = rnd.choice(LD.MODS)[0]
            if k % 4 == 0:
                mods = '[amount=%s]' % rnd.choice(['5', '9.99', '10', '10.00', '12.5', '15', '50.00', '200', '1500', '20', '99']) + rnd.choice(['', '', '[month=1]'])
                pat = rnd.choice(['ALFA', 'ALFA STORE', 'A.FA'])
            rule = {'pattern': pat, 'mods_text': mods, 'merchant': rnd.choice(['M One', 'Joe\'s', 'A&B', 'X]Y', 'Name, Inc']), 'cat': 'Food', 'sub': rnd.choice(['', 'Sub']),
                    'tags': rnd.choice([[], ['t1'], ['T1', 'two words']]), 'relative': 'last' in mods}
            text = csv_text([rule])
            with open(path, 'w', newline='') as f:
                f.write(text)
            loaded = load_merchant_rules(path)
            if not loaded:
                continue
            done += 1
            pattern, merchant, category, subcategory, parsed, tags = loaded[0]
            csv_bits = []
            for t in txns:
                try:
                    hit = bool(re.search(pattern, t['description'].upper(), re.IGNORECASE))
                    if hit and (parsed.amount_conditions or parsed.date_conditions):
                        hit = check_all_conditions(parsed, t['amount'], t['date'])
                except re.error:
                    hit = False
                csv_bits.append(hit)
            content = csv_to_merchants_content(loaded)
            feats = features([rule])
            try:
                eng = parse_merchants(content)
            except MerchantParseError as e:
                fails.append(({'site': 'csv_to_merchants_content', 'clause': 'generated-file-unloadable', 'features': feats},
                              {'csv_text': text, 'generated': content, 'error': str(e)}, 'the generated merchants.rules does not load: %s' % e))
                continue
            if rule['relative']:
                # compare with the CSV rule WITHOUT its relative-date modifier (the known, unconvertible part)
                p2 = __import__('tally.modifier_parser', fromlist=['x']).parse_pattern_with_modifiers(re.sub(r'\[date:last\d+days\]', '', (pat + mods).strip(), flags=re.I))
                csv_bits = []
                for t in txns:
                    try:
                        hit = bool(re.search(p2.regex_pattern, t['description'].upper(), re.IGNORECASE))
                        if hit and (p2.amount_conditions or p2.date_conditions):
                            hit = check_all_conditions(p2, t['amount'], t['date'])
                    except re.error:
                        hit = False
                    csv_bits.append(hit)
            for t, cb in zip(txns, csv_bits):
                r = eng.match(dict(t))
                rb = bool(r.all_matching_rules)
                if rb != cb:
                    fails.append(({'site': 'parse_merchants(csv_to_merchants_content)', 'clause': 'match-bit-changes', 'features': feats},
                                  {'csv_text': text, 'generated': content, 'txn': dict(t, date=str(t['date'])), 'csv_matches': cb, 'rules_matches': rb},
                                  'pattern %r%s: CSV rule %s %r, migrated rule %s' % (pat, mods, 'matches' if cb else 'does not match', t['description'],
                                                                                      'matches' if rb else 'does not match')))
                    break
                if rb and (sorted(r.tags) != sorted(x.lower() for x in tags) or r.merchant != merchant.strip()):
                    fails.append(({'site': 'parse_merchants(csv_to_merchants_content)', 'clause': 'merchant-or-tags-change', 'features': feats},
                                  {'csv_text': text, 'generated': content, 'tags': sorted(r.tags), 'csv_tags': tags, 'merchant': r.merchant},
                                  'migrated rule gives merchant %r tags %s, CSV had %r %s' % (r.merchant, sorted(r.tags), merchant, tags)))
                    break
    finally:
        shutil.rmtree(d, ignore_errors=True)
    return done, fails[:30]


def cli_case(item):
    """The real migration: tally up on the CSV budget, tally up --migrate, tally up again - same classification each time."""
    rules, = item
    d = tempfile.mkdtemp(prefix='c14cli_')
    try:
        rows = ['Date,Description,Amount'] + ['%s,"%s",%s' % (t['date'].strftime('%m/%d/%Y'), t['description'].replace('"', '""'), t['amount']) for t in LD.txns()]
        cli.materialise(d, {'config/settings.yaml': 'year: 2025\ndata_sources:\n  - name: Card\n    file: data/card.csv\n    format: "{date:%m/%d/%Y},{description},{amount}"\n',
                            'config/merchant_categories.csv': csv_text(rules), 'data/card.csv': '\n'.join(rows) + '\n'})
        before = cli.up_classification(d)
        before_n = cli.up_counts(d)
        mig = cli.run_tally(['up', '--migrate', '-q', '--format', 'json'], cwd=d)
        after = cli.up_classification(d)
        after_n = cli.up_counts(d)
        if isinstance(before, dict) and isinstance(after, dict) and after == before and after_n != before_n:
            # the same descriptions under the same merchants, but not the same transactions: compare per merchant (count, total)
            before, after = {'(per merchant)': before_n}, {'(per merchant)': after_n}
        return rules, before, after, mig['rc'], os.path.exists(os.path.join(d, 'config', 'merchants.rules'))
    finally:
        shutil.rmtree(d, ignore_errors=True)


def run(ck):
    quick = ck.tier == 'quick'
    ck.assumptions += ['spec-side pattern meaning only for the fragment of Regex.tla (validated here against Python re); patterns outside it are '
                       'judged by equality of the per-rule match bit before and after conversion',
                       '[date:lastNdays] depends on the day the check runs: such rules are only required to produce a loadable file',
                       'CSV rows the loader itself skips (empty pattern) and empty merchant names are outside the statement']
    ck.expect_model_violation('MC_Legacy/neg', tlc.run('MC_Legacy', 'MC_Legacy_neg.cfg'), 'Neg_ExactEqualityIsFine')
    tmp = tempfile.mkdtemp(prefix='c14_')
    try:
        for cfg in (['MC_Legacy.cfg', 'MC_Legacy2.cfg'] if quick else ['MC_Legacy.cfg', 'MC_Legacy2full.cfg']):
            dump = os.path.join(tmp, 'l.dump')
            res = tlc.run('MC_Legacy', cfg, dump=dump, timeout=6000)
            ck.expect_model_ok('MC_Legacy/' + cfg, res)
            for n, nontriv, fails, smp in par.map_dump(dump, replay_states, extra=(ck.seed,), shards=64):
                ck.case(n=n)
                ck.trace(n)
                for _ in range(nontriv):
                    ck.case(('file', len(ck.nontrivial)), nontrivial=True, n=0)
                for sig, case, what in fails:
                    ck.violation(sig, case, what)
                if smp:
                    ck.sample(smp, cap=2)
            os.unlink(dump)
    finally:
        shutil.rmtree(tmp, ignore_errors=True)
    # Regex.tla against Python's re (trusted base of the spec side)
    rnd = random.Random(ck.seed)
    recs = regex_records(rnd, 3000 if quick else 40000)
    tam = json.loads(json.dumps(next(r for r in recs if r['obs']['search'][0] >= 0)))
    tam['id'] = 'TAMPER'
    tam['obs']['search'][1] += 1
    rej = run_trace_spec(ck, 'Trace_Expr/regex', [{k: v for k, v in r.items() if not k.startswith('_')} for r in recs + [tam]],
                         module='Trace_Expr', cfg='Trace_Expr.cfg', timeout=3000)
    if 'TAMPER' not in rej:
        raise core.Machinery('Trace_Expr accepted a tampered regex record')
    rej.pop('TAMPER')
    if rej:
        by = {r['id']: r for r in recs}
        some = [(by[i]['_pat'], by[i]['_text'], sorted(c), by[i]['obs']['search']) for i, c in list(rej.items())[:5]]
        raise core.Machinery('Regex.tla disagrees with Python re on fragment patterns (model error, not a verdict): %s' % some)
    ck.extra['regex_fragment_records_validated'] = len(recs)
    ck.trace(len(recs))
    # arbitrary patterns: match bits before / after conversion
    for done, fails in par.pmap(bit_worker, [(ck.seed * 31 + k, 150 if quick else 2500) for k in range(16)]):
        ck.case(n=done)
        ck.trace(done)
        for sig, case, what in fails:
            ck.violation(sig, case, what)
    # longer files with repeated merchants and overlapping patterns
    for done, fails in par.pmap(order_worker, [(ck.seed * 17 + k, 40 if quick else 600) for k in range(16)]):
        ck.case(n=done)
        ck.trace(done)
        for sig, case, what in fails:
            ck.violation(sig, case, what)
    # the command line
    rnd2 = random.Random(ck.seed + 5)
    cases = []
    for _ in range(8 if quick else 60):
        rs = []
        for i in range(rnd2.randint(1, 3)):
            rs.append({'pattern': rnd2.choice(LD.PATTERNS), 'mods_text': rnd2.choice(LD.MODS[:10])[0], 'merchant': 'Rule %d' % (i + 1),
                       'cat': rnd2.choice(['Food', 'Bills']), 'sub': rnd2.choice(['', 'Sub']), 'tags': rnd2.choice([[], ['tagged']]), 'relative': False})
        cases.append((rs,))
    # the split-by-modifier idiom: rows that share pattern, merchant, category and subcategory and differ ONLY in their
    # modifier (and tags) - each row is a rule of its own, before and after the migration
    for k in range(6 if quick else 40):
        pat = rnd2.choice(LD.PATTERNS[:6])
        m1, m2 = rnd2.sample(LD.MODS[1:10], 2)
        shared = {'pattern': pat, 'merchant': 'Same Shop', 'cat': 'Food', 'sub': rnd2.choice(['', 'Sub']), 'relative': False}
        rs = [dict(shared, mods_text=m1[0], tags=['large'] if k % 2 else []), dict(shared, mods_text=m2[0], tags=[]),
              dict(shared, mods_text='', tags=['rest'] if k % 3 == 0 else [])]
        cases.append((rs[:2 + k % 2],))
    for rules, before, after, rc, created in par.pmap(cli_case, cases):
        ck.case(n=1)
        ck.trace(1)
        if isinstance(before, str):
            raise core.Machinery('CSV budget does not run: %s' % before)
        if isinstance(after, str) or rc != 0 or not created:
            ck.violation({'site': 'tally up --migrate', 'clause': 'migration-fails', 'features': features(rules)},
                         {'csv_text': csv_text(rules), 'after': after, 'rc': rc}, '`tally up --migrate` failed or the migrated budget does not run: %s' % (after,))
        elif after != before:
            k = next(x for x in before if after.get(x) != before[x])
            ck.violation({'site': 'tally up --migrate', 'clause': 'classification-changes', 'features': features(rules)},
                         {'csv_text': csv_text(rules), 'description': k, 'before': before[k], 'after': after.get(k)},
                         'after `tally up --migrate`, %r is classified %s instead of %s' % (k, after.get(k), before[k]))
    ck.extra['rule'] = ('every CSV rule file of one rule (20 fragment patterns x 14 modifier lists x 3 profiles) and two rules (core sets) against 80 '
                        'transactions (amounts on every modifier boundary, dates on range ends) through the legacy loop, the converted .rules '
                        'file and load_csv_as_engine; random rules with arbitrary regular expressions compared by match bit; the real `tally up '
                        '--migrate`. non-trivial = a file that categorises some but not all transactions')
    ck.exhaustive = True


def replay(ck, path):
    case = json.load(open(path))['case']
    print(json.dumps(case, indent=1)[:4000])
