"""C01 – first matching categorizing rule decides merchant, category and subcategory (spec module Engine)."""
import core
import tlc
from props import engine_common, engine_tracecheck


def run(ck):
    quick = ck.tier == 'quick'
    ck.assumptions += ['atom truth is fixed by construction of the concrete transaction (token present / amount 150 vs 50 / '
                       'field.kind ACH, wire, missing); the spec adds boolean structure, variables, lets, selection and tags',
                       'Unknown merchant name: only its being a function of the (transformed) description is checked']
    ck.expect_model_violation('MC_Engine/neg', tlc.run('MC_Engine', 'MC_Engine_neg.cfg'), 'Neg_TagOnlyNeverMatches')
    cfgs = [('rich2', 'MC_Engine_rich_fm.cfg')]
    if not quick:
        cfgs.append(('plain3', 'MC_Engine_plain.cfg'))
    engine_common.run_universe(ck, cfgs, 'judge_c01')
    ck.extra['rule'] = ('every rule file of <= 2 rules over 19 (condition, let) shapes x 7 category/tag profiles x 3 global-variable '
                        'settings (quick) and <= 3 rules over 4 plain conditions (thorough), each against all 36 transactions of the '
                        'universe, through parse_merchants().match, get_all_rules()+normalize_merchant, and the legacy CSV loop when '
                        'expressible; canonical plus one random surface variant. non-trivial = at least two rules match')
    # code -> spec: random files over the full concrete grammar, recorded from the real code, validated by Trace_Engine
    engine_tracecheck.run(ck, 'c01', 1600 if quick else 16000)
    ck.exhaustive = True
