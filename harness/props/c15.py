"""C15 – an interrupted or failing migration never loses rules or strands the budget (spec module BudgetFS)."""
import json
import os
import shutil
import tempfile

import cli
import core
import par
import tlc
from props.totals_common import run_trace_spec

R_CSV = '''Pattern,Merchant,Category,Subcategory,Tags
# my legacy rules
ALFA,Alfa,Food,Grocery,a
BRAVO\\s+CAFE,Bravo Cafe,Food,Coffee,
'''
U_RULES = '''# hand-written rules the settings file does not reference
[Alfa U]
match: contains("ALFA")
category: HandFood

[Uonly]
match: contains("UONLY")
category: Hand
'''
B_BAK = '''Pattern,Merchant,Category,Subcategory
OLDRULE,Old,Old,Old
'''
SETTINGS_PLAIN = '''year: 2025
data_sources:
  - name: Card
    file: data/card.csv
    format: "{date:%m/%d/%Y},{description},{amount}"
'''
SETTINGS_COMMENT = SETTINGS_PLAIN + '''# to use the new format uncomment:
# merchants_file: config/merchants.rules
'''
SETTINGS_REF = SETTINGS_PLAIN + 'merchants_file: config/merchants.rules\n'
DATA = '''Date,Description,Amount
01/05/2025,ALFA STORE,12.50
01/06/2025,BRAVO  CAFE,3.00
02/07/2025,UONLY MART,20.00
02/08/2025,ZULU THING,5.00
'''
SETTINGS = {'plain': SETTINGS_PLAIN, 'comment': SETTINGS_COMMENT, 'ref': SETTINGS_REF}


def tree(settings='plain', csv=True, rules=None, bak=None, layout='old', data=True, output=False, tallydir=False):
    cfg = 'config' if layout == 'old' else 'tally/config'
    base = '' if layout == 'old' else 'tally/'
    t = {}
    if settings != 'absent':
        t[cfg + '/settings.yaml'] = SETTINGS[settings]
    else:
        t[cfg + '/'] = None
    if csv:
        t[cfg + '/merchant_categories.csv'] = R_CSV
    if rules == 'U':
        t[cfg + '/merchants.rules'] = U_RULES
    if bak == 'B':
        t[cfg + '/merchant_categories.csv.bak'] = B_BAK
    if data:
        t[base + 'data/card.csv'] = DATA
    if output:
        t[base + 'output/old_report.html'] = '<html>old</html>'
    if tallydir:
        t['tally/notes.txt'] = 'my notes'
    return t


COMMANDS = {
    'upmigrate': ['up', '--migrate', '-q', '--format', 'json'],
    'init': ['init'],
    'layout': ['update', '-y'],
}


def budgets(cmd):
    out = []
    if cmd == 'upmigrate':
        for s in ('plain', 'comment'):
            for r in (None, 'U'):
                for b in (None, 'B'):
                    out.append(dict(settings=s, rules=r, bak=b))
    elif cmd == 'init':
        for s in ('plain', 'comment', 'absent'):
            for b in (None, 'B'):
                out.append(dict(settings=s, rules=None, bak=b))
    else:
        for outp in (False, True):
            for td in (False, True):
                out.append(dict(settings='plain', output=outp, tallydir=td))
    return out


# ---------------------------------------------------------------------------------------- abstraction ----------
def abstract(snap, migrated_text):
    """Directory snapshot -> BudgetFS record (content classes)."""
    def get(*names):
        for n in names:
            if n in snap and snap[n] is not None:
                return snap[n].decode('utf8', 'replace')
        return None
    cfgdir = 'config' if any(k.startswith('config/') or k == 'config/' for k in snap) else 'tally/config'
    csv = get(cfgdir + '/merchant_categories.csv')
    bak = get(cfgdir + '/merchant_categories.csv.bak')
    rules = get(cfgdir + '/merchants.rules')
    settings = get(cfgdir + '/settings.yaml')
    others = [v.decode('utf8', 'replace') for k, v in snap.items()
              if v is not None and k.startswith(cfgdir + '/merchant_categories.csv.bak') and k != cfgdir + '/merchant_categories.csv.bak']
    rec = {}
    rec['csv'] = 'absent' if csv is None else ('R' if csv == R_CSV else 'other')
    rec['bak'] = 'absent' if bak is None else ('R' if bak == R_CSV else 'B' if bak == B_BAK else 'other')
    rec['bak1'] = 'R' if R_CSV in others else 'absent'
    if rules is None:
        rec['rules'] = 'absent'
    elif rules == U_RULES:
        rec['rules'] = 'U'
    elif rules == '':
        rec['rules'] = 'empty'
    elif migrated_text is not None and rules == migrated_text:
        rec['rules'] = 'M'
    elif migrated_text is not None and migrated_text.startswith(rules):
        rec['rules'] = 'Mpart'
    else:
        rec['rules'] = 'other'
    if settings is None:
        rec['settings'] = 'absent'
    else:
        key = None
        for line in settings.splitlines():
            if line.startswith('merchants_file:'):
                key = line.split(':', 1)[1].strip()
        if key == 'config/merchants.rules':
            rec['settings'] = 'ref'
        elif key is not None:
            rec['settings'] = 'torn'
        elif '# Merchant rules file (migrated from CSV)' in settings:
            rec['settings'] = 'half'
        elif 'merchants_file:' in settings:
            rec['settings'] = 'comment'
        else:
            rec['settings'] = 'plain'
    rb = get(cfgdir + '/merchants.rules.bak')
    rec['rulesbak'] = 'U' if rb == U_RULES else 'absent'
    rec['cfg'] = 'old' if cfgdir == 'config' else 'new'
    rec['data'] = 'old' if 'data/card.csv' in snap else ('new' if 'tally/data/card.csv' in snap else 'none')
    rec['marker'] = '1' if (cfgdir + '/.tally-schema') in snap else 'absent'
    rec['tallydir'] = 'present' if any(k.startswith('tally/') for k in snap) else 'absent'
    return rec


def content_lost(snap0, snap):
    """Byte-level NoContentLost: every initial user file's bytes still exist in some file; settings may only grow."""
    lost = []
    blobs = [v for v in snap.values() if v is not None]
    for path, b in snap0.items():
        if b is None:
            continue
        if path.endswith('settings.yaml'):
            if not any(x.startswith(b) for x in blobs):
                lost.append(path)
        elif b not in blobs:
            lost.append(path)
    return lost


# ---------------------------------------------------------------------------------------- scenarios ----------
def _reference_tables():
    tabs = {}
    for name, t in (('R', tree()), ('U', tree(settings='ref', csv=False, rules='U')), ('Empty', tree(csv=False))):
        d = tempfile.mkdtemp(prefix='c15ref_')
        try:
            cli.materialise(d, t)
            tabs[name] = cli.up_classification(d)
        finally:
            shutil.rmtree(d, ignore_errors=True)
    return tabs


def eff_class(obs, tabs):
    if isinstance(obs, str):
        return 'Fail'
    for name, tab in tabs.items():
        if obs == tab:
            return name
    return 'P'


def _clean_run(item):
    cmd, b = item
    d = tempfile.mkdtemp(prefix='c15c_')
    try:
        cli.materialise(d, tree(**b))
        r = cli.run_tally(COMMANDS[cmd], cwd=d, root=d)
        snap = cli.snapshot(d)
        mig = None
        for k, v in snap.items():
            if k.endswith('merchants.rules') and v is not None and b.get('rules') is None:
                mig = v.decode('utf8', 'replace')
        return cmd, b, r['rc'], [e for e in r['effects'] if 'kind' in e], mig
    finally:
        shutil.rmtree(d, ignore_errors=True)


def _scenario(sc, tabs):
    """One injected crash / fault: run, observe, classify, rerun, observe."""
    cmd, b, mode, k, torn, mig, desc = sc
    d = tempfile.mkdtemp(prefix='c15s [x] *(1)_' if k % 3 == 1 else 'c15s_')
    try:
        t0 = tree(**b)
        cli.materialise(d, t0)
        snap0 = cli.snapshot(d)
        eff0 = eff_class(cli.up_classification(d), tabs)
        kw = {'crash_at': k, 'torn': torn} if mode == 'crash' else ({'fault_at': k} if mode == 'fault' else {})
        r = cli.run_tally(COMMANDS[cmd], cwd=d, root=d, **kw)
        snap1 = cli.snapshot(d)
        obs1 = cli.up_classification(d)
        eff1 = eff_class(obs1, tabs)
        lost1 = content_lost(snap0, snap1)
        r2 = cli.run_tally(COMMANDS[cmd], cwd=d, root=d)
        snap2 = cli.snapshot(d)
        obs2 = cli.up_classification(d)
        eff2 = eff_class(obs2, tabs)
        lost2 = content_lost(snap0, snap2)
        return {
            'cmd': cmd, 'budget': b, 'mode': mode, 'k': k, 'torn': torn, 'effect': desc,
            'rc': r['rc'], 'effects_done': [e for e in r['effects'] if 'kind' in e][-3:],
            'fs0': abstract(snap0, mig), 'fs1': abstract(snap1, mig), 'fs2': abstract(snap2, mig),
            'eff0': eff0, 'eff1': eff1, 'eff2': eff2, 'lost1': lost1, 'lost2': lost2,
            'obs1': obs1 if isinstance(obs1, str) else None, 'rerun_rc': r2['rc'],
            'files1': sorted(k_ for k_ in snap1), 'files2': sorted(k_ for k_ in snap2),
        }
    finally:
        shutil.rmtree(d, ignore_errors=True)


def judge(ck, s):
    """Decide one scenario directly on the observations (the trace spec re-decides on the abstraction)."""
    bad = []
    if s['lost1']:
        bad.append(('NoContentLost', 'after the interruption: ' + ','.join(s['lost1'])))
    elif s['lost2']:
        bad.append(('NoContentLost', 'after re-running: ' + ','.join(s['lost2'])))
    if s['eff0'] in ('R', 'U'):
        on_disk = s['fs1']['csv'] == 'R' or s['fs1']['bak'] == 'R' or s['fs1']['bak1'] == 'R' or s['fs1']['rules'] in ('M', 'U')
        if s['eff1'] in ('Empty', 'P') and on_disk:
            bad.append(('NeverEmptyWhileRulesExist', 'tally up classifies as %s while the rules are on disk' % s['eff1']))
        # "at no point": the state the re-run leaves behind counts as well (a re-run that adopts a cut-off file and retires the CSV)
        on_disk2 = s['fs2']['csv'] == 'R' or s['fs2']['bak'] == 'R' or s['fs2']['bak1'] == 'R' or s['fs2']['rules'] in ('M', 'U')
        if s['mode'] != 'clean' and s['eff2'] in ('Empty', 'P') and on_disk2 and not (s['eff1'] in ('Empty', 'P') and on_disk):
            bad.append(('NeverEmptyWhileRulesExist', 'after re-running the command tally up classifies as %s while the rules are on disk' % s['eff2']))
        if s['mode'] == 'clean' and s['eff1'] != s['eff0']:
            bad.append(('DoneSame', 'the command completed and classification changed %s -> %s' % (s['eff0'], s['eff1'])))
        elif s['eff1'] != s['eff0'] and s['eff2'] != s['eff0']:
            bad.append(('Unrecoverable', 'classification %s -> %s, after re-running the command %s (%s)' % (
                s['eff0'], s['eff1'], s['eff2'], s.get('obs1') or '')))
    return bad


def signature(s, clause):
    eff = s['effect']
    return {'cmd': s['cmd'], 'clause': clause, 'mode': s['mode'],
            'at': '%s %s' % (eff.get('kind'), os.path.basename(eff.get('path', ''))),
            'torn': s['torn'] is not None and s['torn'] < 1,
            'settings': s['budget'].get('settings'), 'had_rules': s['budget'].get('rules') is not None,
            'had_bak': s['budget'].get('bak') is not None}


def run(ck):
    quick = ck.tier == 'quick'
    ck.level = 'model_checking'
    ck.assumptions += ['crash = process killed right after a file-system effect (or in the middle of one write call); '
                       'the kernel is assumed to have applied completed effects in order (no fsync modelling)',
                       'a single I/O fault per run; double faults only in the thorough tier of the model',
                       'user rules content R / hand-written U / old backup B / settings variants are fixed concrete files']
    # 1. the design: intended protocol satisfies the invariants under every crash / fault / rerun; the pinned step
    #    order is refuted (negative configurations, non-vacuity)
    for cmd in ('upmigrate', 'init', 'layout'):
        ck.expect_model_ok('MC_BudgetFS/intended/' + cmd, tlc.run('MC_BudgetFS', 'MC_BudgetFS_intended_%s.cfg' % cmd))
        neg = tlc.run('MC_BudgetFS', 'MC_BudgetFS_pinned_%s.cfg' % cmd)
        ck.expect_model_violation('MC_BudgetFS/pinned/' + cmd, neg)
    # 2. the real code: learn each command's effect sequence, then interrupt it everywhere
    tabs = _reference_tables()
    for name, tab in tabs.items():
        if isinstance(tab, str):
            raise core.Machinery('reference budget %s does not run: %s' % (name, tab))
    cleans = par.pmap(_clean_run, [(cmd, b) for cmd in COMMANDS for b in budgets(cmd)])
    scenarios = []
    for cmd, b, rc, effects, mig in cleans:
        if rc != 0:
            raise core.Machinery('clean run of %s on %s exits %s' % (cmd, b, rc))
        scenarios.append((cmd, b, 'clean', 0, None, mig, {'kind': 'none', 'path': ''}))
        torns = [None, 0.0, 0.5] if quick else [None, 0.0, 0.1, 0.25, 0.5, 0.75, 0.9]
        if cmd == 'init':
            # C15 is about the steps of the MIGRATION: `tally init` goes on to set up views / .gitignore afterwards, and those
            # later writes are init's own (its last migration step is the move of the legacy CSV to its backup)
            last = max([e['k'] for e in effects if 'merchant_categories.csv' in e.get('path', '') or
                        'merchant_categories.csv' in str(e.get('dst', ''))] or [-1])
            effects = [e for e in effects if e['k'] <= last]
        for e in effects:
            scenarios.append((cmd, b, 'fault', e['k'], None, mig, e))
            for tn in (torns if e['kind'] in ('close', 'flush', 'copy') and (e.get('n') or e['kind'] == 'copy') else [None]):
                scenarios.append((cmd, b, 'crash', e['k'], tn, mig, e))
    results = par.pmap(_scenario, scenarios, extra=(tabs,))
    recs = []
    direct = {}
    for i, s in enumerate(results):
        ck.case(n=1)
        ck.trace(1)
        ck.case((s['cmd'], json.dumps(s['budget'], sort_keys=True), s['mode'], s['k'], s['torn']),
                nontrivial=s['fs1'] != s['fs0'], n=0)
        s['id'] = 's%d' % i
        for clause, what in judge(ck, s):
            ck.violation(signature(s, clause), {k: v for k, v in s.items() if k not in ('files2',)},
                         '%s interrupted by %s at effect %d (%s %s)%s: %s' % (
                             ' '.join(COMMANDS[s['cmd']][:2]), s['mode'], s['k'], s['effect'].get('kind'),
                             s['effect'].get('path'), ' torn=%s' % s['torn'] if s['torn'] is not None else '', what))
        recs.append({'id': s['id'], 'cmd': s['cmd'], 'mode': s['mode'], 'fs0': s['fs0'], 'fs1': s['fs1'], 'fs2': s['fs2'],
                     'eff0': s['eff0'], 'eff1': s['eff1'], 'eff2': s['eff2']})
        direct[s['id']] = {c for c, _ in judge(ck, s)}
    # 3. code -> spec: TLC evaluates the BudgetFS invariants on the abstracted scenarios
    tam = json.loads(json.dumps(recs[0]))
    tam['id'] = 'TAMPER'
    tam['fs1'] = dict(tam['fs1'], csv='absent', bak='absent', bak1='absent', rules='absent')
    rej = run_trace_spec(ck, 'Trace_BudgetFS', recs + [tam], module='Trace_BudgetFS', cfg='Trace_BudgetFS.cfg')
    if 'TAMPER' not in rej:
        raise core.Machinery('Trace_BudgetFS accepted a scenario whose rules vanished')
    rej.pop('TAMPER')
    conf = 0
    byid = {s['id']: s for s in results}
    for rid, clauses in rej.items():
        prop = {c for c in clauses if not c.startswith('CONF')}
        conf += len(clauses) - len(prop)
        s = byid[rid]
        for c in sorted(prop):
            base = c.split('@')[0]
            if base not in direct[rid]:
                ck.violation(signature(s, base), {k: v for k, v in s.items() if k != 'files2'},
                             'Trace_BudgetFS: invariant %s is false on the abstracted scenario %s/%s k=%s' % (c, s['cmd'], s['mode'], s['k']))
    for rid, cl in direct.items():
        tl = {c.split('@')[0] for c in rej.get(rid, set())}
        missing = {c for c in cl if c not in tl}
        if missing and all(v != 'other' for v in byid[rid]['fs1'].values()):
            ck.extra.setdefault('direct_only', []).append([rid, sorted(missing)])
    ck.extra['model_effective_disagreements'] = conf
    ck.sample({k: results[len(results) // 3][k] for k in ('cmd', 'budget', 'mode', 'k', 'effect', 'fs0', 'fs1', 'eff0', 'eff1', 'eff2')})
    ck.extra['scenarios'] = len(results)
    ck.extra['commands'] = {c: ' '.join(a) for c, a in COMMANDS.items()}
    ck.extra['rule'] = ('every effect of the clean run of each command on each initial budget class is interrupted: OSError at the '
                        'effect, kill after the effect, kill in the middle of each write at several cut points; then tally up, the '
                        'same command again, tally up again. non-trivial = the interruption left the tree different from the start')
    ck.exhaustive = True
    return results, recs


def replay(ck, path):
    case = json.load(open(path))['case']
    tabs = _reference_tables()
    mig = None
    for cmd, b, rc, effects, m in [_clean_run((case['cmd'], case['budget']))]:
        mig = m
    s = _scenario((case['cmd'], case['budget'], case['mode'], case['k'], case['torn'], mig, case['effect']), tabs)
    print(json.dumps(s, indent=1, default=str))
    for clause, what in judge(ck, s):
        ck.violation(signature(s, clause), s, what)
