"""C05 – every well-formed statement row becomes exactly one transaction, faithfully (spec modules Rows, MC_Rows)."""
import csv
import datetime
import json
import os
import random
import shutil
import tempfile

import core
import par
import rows_conc as RC
import tlc
from props.engine_common import plain


def expected_txns(out, layout, source):
    exp = []
    for t in out:
        d = t['date']
        if layout == 'L3':
            desc = '%s (%s)' % (RC.TEXTS[t['desc'][0]][1], RC.TEXTS[t['desc'][1]][1])
            field = {'type': RC.TEXTS[t['desc'][1]][1], 'merchant': RC.TEXTS[t['desc'][0]][1]}
        else:
            desc = RC.TEXTS[t['desc'][0]][1]
            field = {'cardholder': RC.TEXTS[t['extra']][1]} if layout == 'L4' else None
        exp.append({'date': '%04d-%02d-%02d' % tuple(d), 'raw_description': desc, 'amount': t['cents'] / 100.0,
                    'source': source, 'field': field, 'is_credit': t['credit'],
                    'location': RC.TEXTS[t['loc']][1] if t['loc'] != '-' else None})
    return exp


def observe(path, layout, sign, dec, delimiter, header, source):
    from tally.format_parser import parse_format_string
    from tally.parsers import parse_generic_csv
    # the source as settings.yaml describes it, resolved by the real config_loader.resolve_source_format (a tab-separated
    # source has two spellings there: the keyword tab and the tab character itself)
    from tally.config_loader import resolve_source_format
    src = {'name': source, 'file': path, 'format': RC.format_string(layout, sign), 'has_header': header}
    if RC.LAYOUTS[layout]['template']:
        src['columns'] = {'description': RC.LAYOUTS[layout]['template']}
    if delimiter != ',':
        src['delimiter'] = RC.regex_for(layout, open_ended=(len(sign) + int(header) + len(source)) % 2 == 1) if delimiter == 'regex' else \
            ('\t' if delimiter == 'tab' and (len(layout) + len(sign) + int(header)) % 2 else delimiter)
    spec = resolve_source_format(src)['_format_spec']
    txns = parse_generic_csv(path, spec, [], source_name=source, decimal_separator='.' if dec == 'dot' else ',')
    out = []
    for t in txns:
        out.append({'date': t['date'].strftime('%Y-%m-%d'), 'raw_description': t['raw_description'], 'amount': t['amount'],
                    'source': t['source'], 'field': t['field'], 'is_credit': t['is_credit'], 'location': t['location']})
    return out


def compare(exp, obs):
    if len(exp) != len(obs):
        return 'count: expected %d transactions, got %d' % (len(exp), len(obs))
    for i, (e, o) in enumerate(zip(exp, obs)):
        for k in ('date', 'raw_description', 'source', 'field', 'is_credit'):
            if e[k] != o[k]:
                return 'row %d %s: expected %r, got %r' % (i, k, e[k], o[k])
        if not (o['amount'] == o['amount'] and abs(o['amount'] - e['amount']) <= 1e-9 * max(1, abs(e['amount']))):
            return 'row %d amount: expected %r, got %r' % (i, e['amount'], o['amount'])
        if e['location'] is not None and o['location'] != e['location']:
            return 'row %d location: expected %r, got %r' % (i, e['location'], o['location'])
    return None


def replay_states(states, seed):
    rnd = random.Random(seed)
    n, nontriv, fails = 0, 0, []
    sample = None
    tmpdir = tempfile.mkdtemp(prefix='c05_', dir='/dev/shm' if os.path.isdir('/dev/shm') else None)
    path = os.path.join(tmpdir, 't.csv')
    try:
        for st in states:
            table = plain(st['table'])
            if not table:
                continue
            layout, sign, dec, header = st['layout'], st['sign'], st['dec'], st['header']
            out = plain(st['out'])
            source = rnd.choice(['Card', 'My Bank'])
            exp = expected_txns(out, layout, source)
            variants = []
            for _ in range(2):
                delim = rnd.choice([',', ',', ';', 'tab', 'regex'])
                if dec == 'comma' and delim == ',' and False:
                    continue
                if not RC.representable(table, layout, dec, delim):
                    delim = ','
                variants.append((delim, rnd.choice([csv.QUOTE_MINIMAL, csv.QUOTE_ALL, csv.QUOTE_NONNUMERIC]), rnd.choice(['\n', '\r\n'])))
            for delim, quoting, eol in variants:
                text = RC.render(table, layout, dec, delim, header, quoting, eol)
                with open(path, 'w', newline='', encoding='utf-8') as f:
                    f.write(text)
                n += 1
                try:
                    obs = observe(path, layout, sign, dec, delim, header, source)
                except Exception as e:
                    fails.append(({'site': 'parse_generic_csv', 'clause': 'exception', 'exc': type(e).__name__},
                                  {'file_text': text, 'layout': layout, 'sign': sign, 'dec': dec, 'delimiter': delim, 'header': header, 'error': repr(e)},
                                  'parse_generic_csv raised %r' % e))
                    continue
                diff = compare(exp, obs)
                if diff:
                    cells = sorted({r['amt'] for r in table if RC.AMOUNTS[r['amt']][1 if dec == 'dot' else 3] is None})
                    nonfinite = [c for c in cells if c in ('nan', 'inf', 'ninf')]
                    bad_amt = [o['amount'] for o in obs if o['amount'] != o['amount'] or abs(o['amount']) == float('inf')]
                    sig = {'site': 'parse_generic_csv', 'clause': 'non-finite-amount' if bad_amt else diff.split(':')[0].split()[-1],
                           'delimiter': 'regex' if delim == 'regex' else 'csv'}
                    if bad_amt:
                        sig['cells'] = nonfinite
                    fails.append((sig, {'file_text': text, 'layout': layout, 'format': RC.format_string(layout, sign), 'sign': sign, 'dec': dec,
                                        'delimiter': delim, 'header': header, 'expected': exp, 'observed': obs},
                                  'parse_generic_csv (%s, %s, decimal %s, delimiter %s, header %s): %s' % (layout, sign, dec, delim, header, diff)))
                elif len(exp) >= 1 and len(exp) < len(table):
                    nontriv += 1
                if sample is None and len(table) >= 2 and exp:
                    sample = {'file_text': text, 'format': RC.format_string(layout, sign), 'decimal': dec, 'delimiter': delim, 'spec': exp}
    finally:
        shutil.rmtree(tmpdir, ignore_errors=True)
    return n, nontriv, fails[:40], sample


def _rt_worker(seed, n):
    import rows_trace as RT
    return RT.record_batch(seed, n)


def trace_rows(ck, nfiles):
    """code -> spec: random tables / layouts / settings read by the real code, validated by Trace_Rows."""
    import copy
    from props.totals_common import run_trace_spec
    nw = 16
    outs = par.pmap(_rt_worker, [ck.seed * 7919 + 31 * s + 5 for s in range(nw)], extra=(max(1, nfiles // nw),))
    by_id, skipped = {}, 0
    for rs, sk in outs:
        skipped += sk
        for r in rs:
            by_id[r['id']] = r
    recs = [{k: v for k, v in r.items() if not k.startswith('_')} for r in by_id.values()]
    base = next((r for r in recs if len(r['obs']) >= 1), None)
    if base is None:
        raise core.Machinery('rows trace recorder: no file produced a transaction')
    tam = copy.deepcopy(base)
    tam['id'] = 'TAMPER'
    tam['obs'][0]['cents'] += 1000
    shards = [recs[k::4] for k in range(4)]
    shards[0] = shards[0] + [tam]
    rej = {}
    for part in par.pmap(_rt_validate, [(k, sh) for k, sh in enumerate(shards)]):
        name, res_rej, tl = part
        ck.add_tlc(name, tl)
        rej.update(res_rej)
    if 'TAMPER' not in rej and base['id'] not in rej:
        raise core.Machinery('Trace_Rows accepted a tampered record: the binding is vacuous')
    rej.pop('TAMPER', None)
    ck.trace(len(recs))
    ck.case(n=len(recs))
    mixed = sum(1 for r in by_id.values() if r['_mixed'])
    ck.case(('trace_rows_mixed', mixed), nontrivial=mixed > 0, n=0)
    ck.extra['trace_rows'] = {'files': len(recs), 'outside_statement_skipped': skipped, 'transactions': sum(r['_n'] for r in by_id.values()),
                              'files_mixing_read_and_skipped_rows': mixed, 'rejected': len(rej)}
    for rid, clauses in sorted(rej.items()):
        if any(c.startswith('MODEL') for c in clauses):
            raise core.Machinery('Trace_Rows model inconsistency on %s: %s' % (rid, sorted(clauses)))
        r = by_id[rid]
        ck.violation({'site': 'parse_generic_csv', 'clause': sorted(clauses), 'via': 'trace_rows', 'delimiter': r['_source'].get('delimiter', ',')},
                     {'file_text': r['_text'], 'source': r['_source'], 'decimal': r['_dec'], 'rows_as_read_by_harness': r['rows'],
                      'observed': r['obs'], 'cfg': r['cfg'], 'header': r['header'], 'tmap': r['tmap']},
                     'recorded parse_generic_csv result is not Rows!Parse of the file (%s%s): source %s, decimal %s' % (
                         sorted(clauses), ' - ' + r['_raised'] if r.get('_raised') else '', r['_source'], r['_dec']))


def _lt_worker(seed, n):
    import legacy_trace as LT
    return LT.record_batch(seed, n)


def legacy_conformance(ck, nfiles):
    """Specification growth beyond C05's statement (which is about format-string sources): the bank-specific readers parse_amex /
    parse_boa against LegacyParsers.tla, code -> spec.  CONFORMANCE INFORMATION ONLY - never a verdict about C05: deviations are
    counted in the evidence, and a tree without these deprecated readers skips the family."""
    import copy
    from props.totals_common import run_trace_sharded
    try:
        from tally import parsers as P
        if not (hasattr(P, 'parse_amex') and hasattr(P, 'parse_boa')):
            ck.extra['legacy_parsers'] = {'skipped': 'parse_amex / parse_boa are not in this tree'}
            return
        ck.expect_model_ok('MC_LegacyParsers', tlc.run('MC_LegacyParsers', 'MC_LegacyParsers.cfg'))
        ck.expect_model_violation('MC_LegacyParsers/neg', tlc.run('MC_LegacyParsers', 'MC_LegacyParsers_neg.cfg'), 'Neg_EveryRow')
        nw = 16
        try:
            outs = par.pmap(_lt_worker, [ck.seed * 6151 + 13 * s + 1 for s in range(nw)], extra=(max(1, nfiles // nw),))
        except Exception as ex:                      # the real readers raised on a generated file: a note, not a verdict
            ck.extra['legacy_parsers'] = {'recorder_stopped': '%s: %s' % (type(ex).__name__, str(ex)[:200])}
            return
        recs, tot = [], {}
        for rs, st in outs:
            recs += [{k: v for k, v in r.items() if not k.startswith('_')} for r in rs]
            for k, v in st.items():
                tot[k] = tot.get(k, 0) + v
        base = next((r for r in recs if r['obs']), None)
        if base is None:
            raise core.Machinery('legacy parser recorder: no file produced a transaction')
        tam = copy.deepcopy(base)
        tam['id'] = 'TAMPER'
        tam['obs'][0]['m'] = -tam['obs'][0]['m']
        rej = run_trace_sharded(ck, 'Trace_LegacyParsers', recs + [tam], 'Trace_LegacyParsers', 'Trace_LegacyParsers.cfg', shards=4)
        if 'TAMPER' not in rej:
            raise core.Machinery('Trace_LegacyParsers accepted a record with the sign of an amount flipped: the binding is vacuous')
        rej.pop('TAMPER')
        if any(c.startswith('MODEL') for cl in rej.values() for c in cl):
            raise core.Machinery('Trace_LegacyParsers model inconsistency: %s' % sorted(rej.items())[:2])
        ck.extra['legacy_parsers'] = dict(tot, deviations=len(rej), deviating_clauses=sorted({c for cl in rej.values() for c in cl}),
                                          first=sorted(rej)[:3])
    except core.Machinery:
        raise


def _rt_validate(item):
    k, recs = item
    from props.totals_common import run_trace_spec

    class _Ck:            # collect the TLC result without touching the real context in a worker
        def __init__(self):
            self.res = None

        def add_tlc(self, name, res):
            if res.error:
                raise core.Machinery('TLC run %s failed: %s' % (name, res.error))
            self.res = res
    c = _Ck()
    rej = run_trace_spec(c, 'Trace_Rows/%d' % k, recs, module='Trace_Rows', cfg='Trace_Rows.cfg')
    c.res.stdout = ''
    return 'Trace_Rows/%d' % k, rej, c.res


def run(ck):
    quick = ck.tier == 'quick'
    ck.assumptions += ['cells come from a vocabulary whose reading under each decimal convention follows from the statement; debatable '
                       'numerals (1e3, 1_0, malformed digit grouping) and dates with trailing text are not in it',
                       'location is compared only when the layout has a location column and the cell is filled',
                       'the regex delimiter is exercised with a pipe-separated rendering (no quoting there)']
    ck.expect_model_violation('MC_Rows/neg', tlc.run('MC_Rows', 'MC_Rows_neg.cfg'), 'Neg_EveryRowCounts')
    tmp = tempfile.mkdtemp(prefix='c05_')
    try:
        outs = []
        for name, cfg, sample in (('rows2', 'MC_Rows.cfg', (1, 3) if quick else None),
                                  ('rows3', 'MC_Rows_deep3.cfg', (1, 2)) if quick else ('rows4', 'MC_Rows_deep.cfg', (1, 2))):
            dump = os.path.join(tmp, name + '.dump')
            res = tlc.run('MC_Rows', cfg, dump=dump, timeout=3000)
            ck.expect_model_ok('MC_Rows/' + name, res)
            outs += par.map_dump(dump, replay_states, extra=(ck.seed,), sample=sample, seed=ck.seed, shards=192)
            os.unlink(dump)
    finally:
        shutil.rmtree(tmp, ignore_errors=True)
    for n, nontriv, fails, sample in outs:
        ck.case(n=n)
        ck.trace(n)
        for _ in range(nontriv):
            ck.case(('mixed', len(ck.nontrivial)), nontrivial=True, n=0)
        for sig, case, what in fails:
            ck.violation(sig, case, what)
        if sample:
            ck.sample(sample, cap=3)
    trace_rows(ck, 24000 if quick else 240000)
    legacy_conformance(ck, 8000 if quick else 80000)
    ck.extra['rule'] = ('tables of <= 2 rows (every vocabulary cell substituted into a good row; short / long / empty-line rows) and <= 3 (quick) / 4 rows '
                        '(13 row kinds), x 4 layouts (simple, skip+ISO+location, captures+template, extra field) x 3 sign modes x 2 decimal '
                        'conventions x header yes/no, each rendered twice with random delimiter (comma, semicolon, tab, regex), quoting policy '
                        'and line ending. non-trivial = a table mixing accepted and skipped rows, read correctly')
    ck.exhaustive = True


def replay(ck, path):
    case = json.load(open(path))['case']
    d = tempfile.mkdtemp()
    try:
        p = os.path.join(d, 't.csv')
        with open(p, 'w', newline='', encoding='utf-8') as f:
            f.write(case['file_text'])
        obs = observe(p, case['layout'], case['sign'], case['dec'], case['delimiter'], case['header'], case['expected'][0]['source'] if case['expected'] else 'Card')
        print(json.dumps(obs, indent=1), '\nexpected', json.dumps(case['expected'], indent=1), '\n', compare(case['expected'], obs))
    finally:
        shutil.rmtree(d)
