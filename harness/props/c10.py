"""C10 – a merchant appears in a view exactly when the view's filter is true of it (spec modules Views, MC_Views)."""
import datetime
import itertools
import json
import os
import random
import shutil
import tempfile

import cli
import core
import exprabs as X
import par
import tlc
import viewsdata as V
from props.engine_common import plain

ALL_ATOMS = V.ATOMS + V.ERR_ATOMS


def transactions():
    txns = []
    for m in V.MERCHANTS:
        for pi, (d, a) in enumerate(m['pays']):
            txns.append({'date': datetime.datetime(d.year, d.month, d.day), 'description': m['name'], 'raw_description': m['name'].upper(),
                         'amount': a, 'merchant': m['name'], 'category': m['cat'], 'subcategory': m['sub'], 'source': 'Card',
                         'tags': list(m['paytags'][pi]) if 'paytags' in m else list(m['tags'])})
    return txns


def filter_src(src):
    kind, i, j = src
    a = ALL_ATOMS[i - 1]
    if kind == 'a':
        return a
    if kind == 'n':
        return 'not (%s)' % a
    return '(%s) %s (%s)' % (a, kind, ALL_ATOMS[j - 1])


def views_text(gi, views, rnd=None):
    lines = []
    for n, e in V.GLOBALS[gi - 1]:
        lines.append('%s = %s' % (n, e))
    if lines:
        lines.append('')
    for k, v in enumerate(views, 1):
        lines.append('[View %d]' % k)
        if rnd and rnd.random() < 0.3:
            lines.append('description: the view number %d' % k)
        for n, e in V.LOCALS[v['li'] - 1]:
            lines.append('%s = %s' % (n, e))
        lines.append('filter: ' + filter_src(v['f']['src']))
        lines.append('')
    return '\n'.join(lines)


def observe(text, stats):
    from tally.analyzer import classify_by_sections, compute_section_totals
    from tally.section_engine import parse_sections
    cfg = parse_sections(text)
    res = classify_by_sections(stats['by_merchant'], cfg, stats['num_months'])
    out = {}
    for name, members in res.items():
        tot = compute_section_totals(members)
        out[name] = {'members': sorted(m for m, _ in members), 'total': tot['total'], 'count': tot['count']}
    return out


def replay_states(states, seed):
    from tally.analyzer import analyze_transactions
    rnd = random.Random(seed)
    stats = analyze_transactions(transactions())
    names = [m['name'] for m in V.MERCHANTS]
    totals = {m['name']: sum(a for _, a in m['pays']) for m in V.MERCHANTS}
    # income merchants are normalised to positive amounts by analyze_transactions; they are excluded from views anyway
    n, nontriv, fails, skipped = 0, 0, [], 0
    sample = None
    for st in states:
        views = plain(st['views'])
        if not views:
            continue
        gi = st['gi']
        mem = plain(st['mem'])
        text = views_text(gi, views, rnd)
        n += 1
        try:
            obs = observe(text, stats)
        except Exception as e:
            fails.append(({'site': 'classify_by_sections', 'clause': 'exception', 'exc': type(e).__name__},
                          {'views_text': text, 'error': repr(e)}, 'classify_by_sections raised %r on an accepted views file' % e))
            continue
        for k, row in enumerate(mem, 1):
            vname = 'View %d' % k
            got = obs.get(vname)
            if got is None:
                fails.append(({'site': 'classify_by_sections', 'clause': 'view-missing'}, {'views_text': text}, 'view %s missing from the result' % vname))
                continue
            exp_t = {names[j] for j, x in enumerate(row) if x == 'T'}
            exp_o = {names[j] for j, x in enumerate(row) if x == 'O'}
            skipped += len(exp_o)
            gm = set(got['members'])
            wrong = {m for m in (gm ^ exp_t) if m not in exp_o}
            if wrong:
                src = filter_src(views[k - 1]['f']['src'])
                feat = 'by-day' if 'by("day")' in src else ('cv' if 'cv' in src else 'other')
                fails.append(({'site': 'classify_by_sections', 'clause': 'membership', 'feature': feat},
                              {'views_text': text, 'view': vname, 'filter': src, 'expected_members': sorted(exp_t), 'observed_members': sorted(gm),
                               'not_judged': sorted(exp_o)},
                              'view %r (filter %s): members %s, the filter is true exactly of %s' % (vname, src, sorted(gm), sorted(exp_t))))
            elif not exp_o:
                want = sum(totals[m] for m in gm)
                if abs(got['total'] - want) > 1e-6 or got['count'] != len(gm):
                    fails.append(({'site': 'compute_section_totals', 'clause': 'total'},
                                  {'views_text': text, 'view': vname, 'total': got['total'], 'sum_of_members': want},
                                  'view %r total %s is not the sum of its members totals %s' % (vname, got['total'], want)))
            if exp_t and len(exp_t) < len(names):
                nontriv += 1
        if sample is None and len(views) == 2:
            sample = {'views_text': text, 'spec_membership': mem, 'observed': obs}
    return n, nontriv, fails[:40], sample, skipped


def _vt_worker(seed, n, p_fail=0.0):
    import views_trace as VT
    return VT.record_batch(seed, n, p_fail)


def trace_views(ck, nfiles, p_fail=0.0):
    """code -> spec: random merchants and views files through the real code, validated by Trace_Views."""
    import copy
    from props.totals_common import run_trace_sharded
    outs = par.pmap(_vt_worker, [ck.seed * 6007 + 13 * s + 2 for s in range(16)], extra=(max(1, nfiles // 16), p_fail))
    by_id, skipped = {}, 0
    for rs, sk in outs:
        skipped += sk
        for r in rs:
            by_id[r['id']] = r
    recs = [{k: v for k, v in r.items() if not k.startswith('_')} for r in by_id.values()]
    base = next((r for r in recs if r['obs'][0]['members']), None)
    if base is None:
        raise core.Machinery('views trace recorder: no view lists any merchant')
    tam = copy.deepcopy(base)
    tam['id'] = 'TAMPER'
    tam['obs'][0]['members'] = tam['obs'][0]['members'][1:]          # a listed merchant dropped from the logged listing
    rej, outs = run_trace_sharded(ck, 'Trace_Views', recs + [tam], 'Trace_Views', 'Trace_Views.cfg', shards=8, keep_stdout=True)
    if 'TAMPER' not in rej and base['id'] not in rej:
        # (dropping a merchant the spec has no opinion on would be accepted: then the tamper proves nothing - require an opinion)
        raise core.Machinery('Trace_Views accepted a tampered record: the binding is vacuous')
    rej.pop('TAMPER', None)
    judged = sum(v[-1][1] for v in (tlc.extract_tagged(o, 'JUDGED') for o in outs) if v)
    ck.trace(len(recs))
    ck.case(n=len(recs))
    ck.case(('trace_views_judged', judged), nontrivial=judged > 0, n=0)
    ck.extra['trace_views'] = {'files': len(recs), 'unrepresentable_skipped': skipped, 'view_merchant_pairs_judged': judged, 'rejected': len(rej)}
    for rid, clauses in sorted(rej.items()):
        r = by_id[rid]
        ck.violation({'site': 'classify_by_sections', 'clause': sorted(clauses), 'via': 'trace_views'},
                     {'views_text': r['_text'], 'merchants': r['_merchants'], 'observed_members': r['_members'], 'record': {k: v for k, v in r.items() if not k.startswith('_')}},
                     'recorded view listing disagrees with Views!MemberOf (%s): views file %r lists %s' % (sorted(clauses), r['_text'], r['_members']))


def independence_case(item):
    """Metamorphic on the real code: every order and every sub-file of a 3-view file gives each view the same members."""
    from tally.analyzer import analyze_transactions
    seed, = item
    rnd = random.Random(seed)
    stats = analyze_transactions(transactions())
    gi = rnd.randrange(len(V.GLOBALS)) + 1
    vs = []
    for _ in range(3):
        i = rnd.randrange(len(ALL_ATOMS)) + 1
        vs.append({'f': {'src': [rnd.choice(['a', 'n']), i, 0]}, 'li': rnd.randrange(len(V.LOCALS)) + 1})
    fails = []
    n = 0

    def members(order):
        text = views_text(gi, [vs[k] for k in order])
        obs = observe(text, stats)
        return {order[p]: obs['View %d' % (p + 1)]['members'] for p in range(len(order))}, text
    try:
        base, base_text = members([0, 1, 2])
        for r in (1, 2, 3):
            for order in itertools.permutations(range(3), r):
                got, text = members(list(order))
                n += 1
                for k, mem in got.items():
                    if mem != base[k]:
                        fails.append(({'site': 'classify_by_sections', 'clause': 'views-not-independent'},
                                      {'base_file': base_text, 'other_file': text, 'view_filter': filter_src(vs[k]['f']['src'])},
                                      'view with filter %r has members %s in one file and %s in another' % (filter_src(vs[k]['f']['src']), base[k], mem)))
    except Exception as e:
        fails.append(({'site': 'classify_by_sections', 'clause': 'exception', 'exc': type(e).__name__}, {'error': repr(e)}, repr(e)))
    return n, fails[:5]


def run(ck):
    quick = ck.tier == 'quick'
    ck.assumptions += ['`payments` is the list of the merchant\'s payments (expr_parser docs); the reference table calls it a count - filters '
                       'that compare payments or sum(by(...)) with a number are therefore outside the universe',
                       'stddev() (sample vs population undocumented), by("week") and comparisons whose cv equals the threshold exactly are '
                       'not judged (counted as skipped)',
                       'a fixed set of 9 merchants (constant, lumpy, single-payment, negative-total, same-day, year-boundary, excluded tags)']
    ck.expect_model_violation('MC_Views/neg', tlc.run('MC_Views', 'MC_Views_neg.cfg'), 'Neg_EveryoneEverywhere')
    tmp = tempfile.mkdtemp(prefix='c10_')
    skipped = 0
    try:
        for cfg, sample in (('MC_Views.cfg', None), ('MC_Views2.cfg', (1, 2) if quick else None)):
            dump = os.path.join(tmp, 'v.dump')
            res = tlc.run('MC_Views', cfg, dump=dump, timeout=3000)
            ck.expect_model_ok('MC_Views/' + cfg, res)
            for n, nontriv, fails, smp, sk in par.map_dump(dump, replay_states, extra=(ck.seed,), sample=sample, seed=ck.seed, shards=64):
                ck.case(n=n)
                ck.trace(n)
                skipped += sk
                for _ in range(nontriv):
                    ck.case(('view', len(ck.nontrivial)), nontrivial=True, n=0)
                for sig, case, what in fails:
                    ck.violation(sig, case, what)
                if smp:
                    ck.sample(smp, cap=2)
            os.unlink(dump)
    finally:
        shutil.rmtree(tmp, ignore_errors=True)
    ck.extra['memberships_not_judged'] = skipped
    for n, fails in par.pmap(independence_case, [(ck.seed * 1000 + k,) for k in range(60 if quick else 1500)]):
        ck.case(n=n)
        ck.trace(n)
        for sig, case, what in fails:
            ck.violation(sig, case, what)
    trace_views(ck, 4800 if quick else 48000)
    ck.extra['rule'] = ('every views file with one view whose filter is one of %d atomic tests (incl. %d that cannot be evaluated), its negation, '
                        'or its conjunction / disjunction with one of %d core tests, x 4 global and 4 view-local variable settings; two-view '
                        'files over the core; all against 9 merchants through analyze_transactions + classify_by_sections + '
                        'compute_section_totals; plus random 3-view files in every order and sub-selection. non-trivial = a view with some '
                        'but not all merchants' % (len(ALL_ATOMS), len(V.ERR_ATOMS), len(V.CORE)))
    ck.exhaustive = True


def replay(ck, path):
    from tally.analyzer import analyze_transactions
    case = json.load(open(path))['case']
    print(case['views_text'])
    print(json.dumps(observe(case['views_text'], analyze_transactions(transactions())), indent=1))
    print('expected', case.get('expected_members'))
