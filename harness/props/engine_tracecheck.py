"""Code -> spec binding of the rule engine, shared by C01, C02, C08, C09: random rule files over the full concrete grammar
(harness/engine_trace.py) recorded from the real code and validated by spec/Trace_Engine.tla."""
import copy
import datetime
import json

import core
import engine_trace as ET
import par
from props.totals_common import run_trace_spec, run_trace_sharded


def _worker(seed, nfiles, focus):
    if focus in ('c01', 'c02') and seed % 4 == 0:
        return ET.record_csv_batch(seed, nfiles * 2)          # the legacy CSV loop: per-rule truth decided by the harness (re + modifiers)
    return ET.record_batch(seed, nfiles, focus)


def _public(r):
    return {k: v for k, v in r.items() if not k.startswith('_')}


def _tamper(r):
    """A record the spec must reject: the logged result moved to something the per-rule observations do not give."""
    t = copy.deepcopy(_public(r))
    t['id'] = 'TAMPER'
    t['obs']['tags'] = sorted(set(t['obs']['tags']) ^ {'zz-not-a-tag'})
    return t


def run(ck, focus, nfiles, label=None):
    label = label or ('Trace_Engine/' + focus)
    nw = 16
    per = max(1, nfiles // nw)
    outs = par.pmap(_worker, [ck.seed * 100003 + 17 * s + 3 for s in range(nw)], extra=(per, focus))
    recs, by_id, names = [], {}, {}
    tot = {}
    for rs, stats, nm in outs:
        for r in rs:
            by_id[r['id']] = r
            recs.append(_public(r))
        for k, v in stats.items():
            tot[k] = tot.get(k, 0) + v
        for name, desc, xf in nm:
            if name == '!raised':
                ck.violation({'site': 'trace_engine', 'clause': 'raised', 'what': desc.split(':')[0], 'focus': focus}, {'rules_text': xf, 'error': desc},
                             'classification raised %s on a generated rules file (match / normalize_merchant must return for every transaction)' % desc)
                continue
            if not xf:
                names.setdefault(desc, set()).add(name)
    # the Unknown merchant name depends only on the description (C01): pairs (description id, name id), judged by the spec
    descs = sorted(names)[:400]
    allnames = sorted({n for d in descs for n in names[d]})
    pairs = [[di + 1, allnames.index(n) + 1] for di, d in enumerate(descs) for n in sorted(names[d])]
    if focus == 'c01' and pairs:
        recs.append({'kind': 'names', 'id': 'names', 'pairs': pairs})
    if not recs:
        raise core.Machinery('engine trace recorder produced nothing')
    first = next(r for r in recs if r['kind'] == 'match')
    rej = run_trace_sharded(ck, label, recs + [_tamper(first)], 'Trace_Engine', 'Trace_Engine.cfg', shards=4 if len(recs) < 100000 else 12)
    if 'TAMPER' not in rej and first['id'] not in rej:
        raise core.Machinery('Trace_Engine accepted a tampered record: the binding is vacuous')
    rej.pop('TAMPER', None)
    ck.trace(len(recs))
    ck.case(n=len(recs))
    for key in ('multi_match', 'ties', 'tagonly_match', 'failing_rule'):
        ck.case(('trace_engine', focus, key, tot.get(key, 0)), nontrivial=tot.get(key, 0) > 0, n=0)
    ck.extra.setdefault('trace_engine', {})[focus] = dict(tot, records=len(recs), rejected=len(rej),
                                                          unknown_name_pairs=len(pairs))
    if not tot.get('multi_match') or not tot.get('tagonly_match'):
        raise core.Machinery('engine trace recorder: no record with two matching categorising rules / a matching tag-only rule')
    for rid, clauses in sorted(rej.items()):
        model = [c for c in clauses if c.startswith('MODEL')]
        if model:
            raise core.Machinery('Trace_Engine model inconsistency on %s: %s' % (rid, sorted(clauses)))
        if rid == 'names':
            bad = {d: sorted(names[d]) for d in descs if len(names[d]) > 1}
            ck.violation({'site': 'normalize_merchant', 'clause': 'unknown-name', 'via': 'trace_engine'},
                         {'names': dict(list(bad.items())[:5])},
                         'the Unknown merchant name is not a function of the description: %s' % list(bad.items())[:2])
            continue
        r = by_id[rid]
        ck.violation({'site': 'trace_engine', 'path': r['path'], 'mode': r['mode'], 'clause': sorted(clauses), 'focus': focus},
                     {'rules_text': r['_text'], 'txn': r['_txn'], 'mode': r['mode'], 'path': r['path'],
                      'per_rule_observation': r['rules'], 'observed': r['obs'], 'order': r['_order'], 'record': _public(r)},
                     'recorded %s result (%s, %s) is not Engine.tla\'s combination of the per-rule observations: %s; observed %s'
                     % (r['path'], r['mode'], focus, sorted(clauses),
                        {k: r['obs'][k] for k in ('cat', 'sub', 'mer', 'tags', 'win')}))
    if ck.samples is not None and recs:
        s = by_id[first['id']]
        ck.sample({'trace_engine_record': {'rules_text': s['_text'], 'txn': s['_txn'], 'observed': s['obs']}}, cap=4)


def replay_case(ck, case):
    """Re-run one stored record against the current tree: the whole-file observation is taken again from the real code (the
    per-rule observations are taken again too) and the record is validated by Trace_Engine."""
    from tally.merchant_engine import parse_merchants
    from tally.merchant_utils import apply_transforms
    rec = case['record']
    text = case['rules_text']
    t = dict(case['txn'])
    t['date'] = None if t['date'] in (None, 'None') else datetime.date.fromisoformat(t['date'])
    eng = parse_merchants(text, case['mode'])
    tt = ET._copy(t)
    apply_transforms(tt, eng.transforms)
    r = eng.match(tt)
    idx = {id(x): i for i, x in enumerate(eng.rules)}
    obs = {'matched': bool(r.matched), 'cat': r.category, 'sub': r.subcategory, 'mer': r.merchant if r.matched else '',
           'tags': sorted(r.tags), 'xf': ET._xf(r.extra_fields), 'matching': [idx[id(x)] + 1 for x in r.all_matching_rules],
           'win': idx[id(r.matched_rule)] + 1 if r.matched_rule is not None else 0,
           'subwin': idx[id(r.subcategory_rule)] + 1 if r.subcategory_rule is not None else 0}
    rec = dict(rec, obs=obs, path='engine', hasidx=True, id='replay')
    rej = run_trace_spec(ck, 'Trace_Engine/replay', [rec], module='Trace_Engine', cfg='Trace_Engine.cfg')
    print('replay: observed now', obs)
    if rej:
        ck.violation({'site': 'trace_engine', 'clause': sorted(rej['replay']), 'replay': True}, case,
                     'replayed record still rejected: %s' % sorted(rej['replay']))
    else:
        print('replay: record accepted by Trace_Engine on the current tree (per-rule observations as stored)')
