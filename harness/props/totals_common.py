"""Shared pieces for C06 / C13 (spec module Totals)."""
import datetime
import json
import os
import random
import subprocess
import tempfile

import core
import tlc

BUCKETS = ['income', 'investment', 'transfer_in', 'transfer_out', 'spending', 'credits']
STAT_KEY = {'income': 'income_total', 'investment': 'investment_total', 'transfer_in': 'transfers_in',
            'transfer_out': 'transfers_out', 'spending': 'spending_total', 'credits': 'credits_total'}


def decode(codes):
    return ''.join(chr(c) for c in codes)


def encode(s):
    return [ord(c) for c in s]


def run_trace_spec(ck, name, records, module='Trace_Totals', cfg='Trace_Totals.cfg', timeout=1800):
    """Validate ndjson records with a Trace_* spec.  Returns dict id -> set(clauses) of rejected records."""
    import tlaval
    fd, path = tempfile.mkstemp(prefix='trace_', suffix='.ndjson')
    with os.fdopen(fd, 'w') as f:
        for r in records:
            f.write(json.dumps(r) + '\n')
    try:
        res = tlc.run(module, cfg, workers=1, env={'TRACE_FILE': path}, timeout=timeout)
    finally:
        os.unlink(path)
    ck.add_tlc(name, res)
    rj = tlc.extract_tagged(res.stdout, 'REJECTED')
    cs = tlc.extract_tagged(res.stdout, 'CONSUMED')
    rejected = rj[-1][1] if rj else None
    consumed = cs[-1] if cs else None
    if rejected is None or consumed is None:
        raise core.Machinery('trace spec %s produced no verdict:\n%s' % (name, res.stdout[-3000:]))
    if consumed[1] != consumed[2] or consumed[2] != len(records):
        raise core.Machinery('trace spec %s consumed %s of %d records' % (name, consumed, len(records)))
    out = {}
    for rid, clauses in rejected:
        out[rid] = set(clauses)
    return out


class _Collect:
    """Stands in for the check context inside a worker process: keeps the TLC result."""

    def __init__(self):
        self.res = None

    def add_tlc(self, name, res):
        if res.error:
            raise core.Machinery('TLC run %s failed: %s' % (name, res.error))
        self.res = res


def _shard_worker(item):
    name, recs, module, cfg = item
    c = _Collect()
    rej = run_trace_spec(c, name, recs, module=module, cfg=cfg)
    out = c.res.stdout
    c.res.stdout = ''
    return name, rej, c.res, out


def run_trace_sharded(ck, name, records, module, cfg, shards=4, keep_stdout=False):
    """run_trace_spec over `shards` JVMs in parallel; returns the merged dict id -> set(clauses) (and the stdouts if asked)."""
    import par
    parts = [records[k::shards] for k in range(shards)]
    parts = [p for p in parts if p]
    rej, outs = {}, []
    for nm, r, res, out in par.pmap(_shard_worker, [('%s/%d' % (name, k), p, module, cfg) for k, p in enumerate(parts)]):
        ck.add_tlc(nm, res)
        rej.update(r)
        outs.append(out)
    return (rej, outs) if keep_stdout else rej
