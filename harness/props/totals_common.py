"""Shared pieces for C06 / C13 (spec module Totals)."""
import datetime
import json
import os
import random
import subprocess
import tempfile

import core
import tlc

BUCKETS = ['income', 'investment', 'transfer_in', 'transfer_out', 'spending', 'credits']
STAT_KEY = {'income': 'income_total', 'investment': 'investment_total', 'transfer_in': 'transfers_in',
            'transfer_out': 'transfers_out', 'spending': 'spending_total', 'credits': 'credits_total'}


def decode(codes):
    return ''.join(chr(c) for c in codes)


def encode(s):
    return [ord(c) for c in s]


def run_trace_spec(ck, name, records, module='Trace_Totals', cfg='Trace_Totals.cfg', timeout=1800):
    """Validate ndjson records with a Trace_* spec.  Returns dict id -> set(clauses) of rejected records."""
    import tlaval
    fd, path = tempfile.mkstemp(prefix='trace_', suffix='.ndjson')
    with os.fdopen(fd, 'w') as f:
        for r in records:
            f.write(json.dumps(r) + '\n')
    try:
        res = tlc.run(module, cfg, workers=1, env={'TRACE_FILE': path}, timeout=timeout)
    finally:
        os.unlink(path)
    ck.add_tlc(name, res)
    rj = tlc.extract_tagged(res.stdout, 'REJECTED')
    cs = tlc.extract_tagged(res.stdout, 'CONSUMED')
    rejected = rj[-1][1] if rj else None
    consumed = cs[-1] if cs else None
    if rejected is None or consumed is None:
        raise core.Machinery('trace spec %s produced no verdict:\n%s' % (name, res.stdout[-3000:]))
    if consumed[1] != consumed[2] or consumed[2] != len(records):
        raise core.Machinery('trace spec %s consumed %s of %d records' % (name, consumed, len(records)))
    out = {}
    for rid, clauses in rejected:
        out[rid] = set(clauses)
    return out
