"""C12 – HTML, JSON, Markdown and text outputs all render and carry the same data (spec module Report)."""
import contextlib
import datetime
import html.parser
import io
import json
import os
import random
import re
import shutil
import tempfile

import core
import par
import tlc
from props.engine_common import plain

ATOM_TEXT = {'txt': 'ALFA', 'quote': '"', 'backslash': '\\', 'endscript': '</script>', 'css_ph': '/* CSS_PLACEHOLDER */',
             'data_ph': '/* DATA_PLACEHOLDER */', 'js_ph': '/* JS_PLACEHOLDER */', 'nonascii': 'Zürich ✓ 東京'}
# the "plain text" atom is whatever a bank writes into a description: also text that looks like markup to an HTML tokenizer or
# like syntax to a JavaScript / JSON reader.  It has no meaning of its own in a report - it must come back as it went in
TXT_FORMS = ['ALFA', 'ACH DEBIT <!-- REF 8841 --> ACME', '<script>x', ']]> <![CDATA[', '&amp; &lt;b&gt; &#39;', "';alert(1)//", '<!--<script>',
             '--> <!--', '${amount} `tick`', '\\u0041 \\n \\!', '<\\/ </ <\\!--', '\u2028line\u2029sep', '{{ merchant }} {% x %}', '<!doctype html><body>',
             # text that is NOT in Unicode normal form C (a combining mark as exports of some systems write it, compatibility characters):
             # the same characters come back, not their canonical equivalents
             'Cafe\u0301 Zu\u0308rich \u212b \u2126 \ufb01n', 'e\u0301\u0323 \u1e69 \uf900']
_KNOWN_PH = {'/* CSS_PLACEHOLDER */', '/* DATA_PLACEHOLDER */', '/* JS_PLACEHOLDER */'}


def harvest_placeholders():
    """The placeholder tokens the assembly actually knows: every /* NAME */ token of the HTML template and of report.py."""
    import glob as _glob
    src = core.repo_src()
    toks = set()
    for f in [os.path.join(src, 'tally', 'report.py')] + _glob.glob(os.path.join(src, 'tally', '*.html')):
        try:
            toks.update(re.findall(r'/\*\s*[A-Z][A-Z0-9_]*\s*\*/', open(f, encoding='utf-8').read()))
        except OSError:
            pass
    return sorted(toks - _KNOWN_PH)


NAME_TEXT = {'w1': 'Alfa', 'w2': 'Beta', 'space': ' ', 'underscore': '_', 'squote': "'", 'dquote': '"', 'd2': '2'}
VIEWS = '[Everything]\nfilter: true\n\n[Big Ones]\ndescription: totals over ten\nfilter: total > 10\n'


class _Scripts(html.parser.HTMLParser):
    def __init__(self):
        super().__init__(convert_charrefs=True)
        self.in_script = False
        self.scripts = []
        self.srcs = []            # script elements that load a file: their src attributes, in document order
        self.cur = None

    def handle_starttag(self, tag, attrs):
        if tag == 'script':
            self.in_script = True
            self.cur = []
            src = dict(attrs).get('src')
            if src:
                self.srcs.append(src)

    def handle_endtag(self, tag):
        if tag == 'script' and self.in_script:
            self.in_script = False
            self.scripts.append(''.join(self.cur))
            self.cur = None

    def handle_data(self, data):
        if self.in_script:
            self.cur.append(data)


def decode_html(text):
    p = _Scripts()
    p.feed(text)
    p.close()
    for s in p.scripts:
        st = s.strip()
        if st.startswith('window.spendingData ='):
            body = st[len('window.spendingData ='):].strip()
            if body.endswith(';'):
                body = body[:-1]
            return json.loads(body)
    raise ValueError('no data script element found (%d script elements)' % len(p.scripts))


def decode_page(path):
    """The report data as a BROWSER gets it from the page: an inline script that assigns window.spendingData, or a script element
    whose src names a local file that does (the split assembly).  A data file nothing on the page refers to is not part of the report."""
    text = open(path, encoding='utf-8').read()
    try:
        return decode_html(text)
    except ValueError:
        pass
    p = _Scripts()
    p.feed(text)
    p.close()
    for src in p.srcs:
        if '://' in src or src.startswith('//'):
            continue
        f = os.path.join(os.path.dirname(path), src)
        if not os.path.isfile(f):
            raise ValueError('the page loads %r, which does not exist next to it' % src)
        js = open(f, encoding='utf-8').read().strip()
        if js.startswith('window.spendingData ='):
            return json.loads(js[len('window.spendingData ='):].rstrip().rstrip(';'))
    raise ValueError('no script of the page (inline or loaded from %s) assigns window.spendingData' % (p.srcs,))


# the end tag of a script element is recognised case-insensitively and with blanks before '>' (statements are often upper case)
END_TAGS = ['</script>', '</SCRIPT>', '</ScRiPt>', '</script >', '</SCRIPT\t>']


def build_txns(data_atoms, names, rnd, variant):
    end = END_TAGS[variant % len(END_TAGS)]
    extra = harvest_placeholders()
    xph = ' '.join(extra) if extra else 'XPH'         # no further placeholder in this template: the atom is plain text
    uni_ranges = [(0xa1, 0xff), (0x100, 0x17f), (0x370, 0x3ff), (0x400, 0x45f), (0x2000, 0x206f), (0xff10, 0xff5a), (0x300, 0x36f), (0x1e00, 0x1eff),
                  (0xfb00, 0xfb06), (0x2100, 0x214f), (0x5d0, 0x5ea), (0x4e00, 0x4e20), (0x1f600, 0x1f64f), (0x20, 0x7e)]
    uni = ''.join(chr(rnd.randint(*rnd.choice(uni_ranges))) for _ in range(rnd.choice([3, 6, 12]))).strip() or ATOM_TEXT['nonascii']
    desc = ' '.join(end if a == 'endscript' else xph if a == 'x_ph' else (uni if variant % 2 else ATOM_TEXT[a]) if a == 'nonascii' else TXT_FORMS[(variant * 7 + len(data_atoms) * 5 + len(names[0]) * 3 + len(names[1])) % len(TXT_FORMS)] if a == 'txt' else ATOM_TEXT[a]
                    for a in data_atoms) or 'PLAIN'
    n1 = ''.join(NAME_TEXT[a] for a in names[0])
    n2 = ''.join(NAME_TEXT[a] for a in names[1])
    d = datetime.datetime
    # figures that are EXACTLY zero are figures too: no refunds at all while a transfer goes out (credits 0, a merchant with a
    # negative total), or refunds only (spending 0)
    zero_credits = variant in (4, 9)
    zero_spending = variant == 10
    sg = -1.0 if zero_spending else 1.0
    txns = [
        dict(date=d(2025, 1, 5), raw_description=desc + ' one', description=n1, amount=sg * 40.25, merchant=n1, category='Food', subcategory='Grocery',
             source='Card', location='WA', tags=['weekly', desc[:12].strip().lower() or 't'], extra_fields={'note': desc}),
        dict(date=d(2025, 2, 6), raw_description=desc + ' two', description=n1, amount=(-12.5 if zero_spending else 12.5 if zero_credits else (-10.0 if variant % 2 else 12.5)), merchant=n1, category='Food',
             subcategory='Grocery', source='Bank "B"', location=None, tags=[],
             # a field: directive may evaluate to any value - zero, false, the empty text and None are values too
             **({'extra_fields': {'over_budget': 0.0, 'is_large': False, 'memo': '', 'matched': None, 'n': 0}} if variant % 2 else {})),
        dict(date=d(2025, 2, 7), raw_description='other ' + desc, description=n2, amount=sg * 100.0, merchant=n2, category='Bills & <Co>', subcategory='',
             source='Card', location=None, tags=['recurring'], **({'extra_fields': {'kind': desc, 'count': 0}} if variant % 3 == 2 else {})),
        dict(date=d(2025, 1, 31), raw_description='PAYROLL ' + desc, description='Employer', amount=-3000.0, merchant='Employer', category='Income',
             subcategory='Salary', source='Bank "B"', location=None, tags=['income']),
        dict(date=d(2025, 2, 1), raw_description='TO SAVINGS', description='Savings', amount=-500.0 if zero_credits else 500.0, merchant='Savings', category='Transfers',
             subcategory='', source='Card', location=None, tags=['Transfer']),
        dict(date=d(2025, 2, 2), raw_description='401K', description='Fidelity', amount=-250.0 if variant % 3 == 0 else 250.0, merchant='Fidelity',
             category='Invest', subcategory='', source='Card', location=None, tags=['investment']),
    ]
    if variant == 12:
        # a statement on which NO merchant ends with a positive total: refunds, a purchase refunded in full (a total of exactly
        # zero) and a card payment going out as a transfer
        return [
            dict(date=d(2025, 1, 5), raw_description=desc + ' refund', description=n1, amount=-40.25, merchant=n1, category='Food', subcategory='Grocery',
                 source='Card', location='WA', tags=['weekly'], extra_fields={'note': desc}),
            dict(date=d(2025, 2, 7), raw_description='bought ' + desc, description=n2, amount=100.0, merchant=n2, category='Bills & <Co>', subcategory='',
                 source='Card', location=None, tags=[]),
            dict(date=d(2025, 2, 9), raw_description='returned ' + desc, description=n2, amount=-100.0, merchant=n2, category='Bills & <Co>', subcategory='',
                 source='Card', location=None, tags=[]),
            dict(date=d(2025, 2, 1), raw_description='CARD PAYMENT', description='Savings', amount=-500.0, merchant='Savings', category='Transfers',
                 subcategory='', source='Card', location=None, tags=['transfer']),
        ]
    if variant % 4 in (1, 2):
        # one merchant, transactions with DIFFERENT special tags (two rules share the merchant name; a conditional tag): a card whose
        # payment is a transfer and whose annual fee is spending, an employer whose reimbursement is not income
        txns.append(dict(date=d(2025, 2, 3), raw_description='ANNUAL FEE ' + desc, description='Savings', amount=sg * 95.0, merchant='Savings',
                         category='Transfers', subcategory='', source='Card', location=None, tags=[]))
        txns.append(dict(date=d(2025, 2, 4), raw_description='REIMBURSEMENT', description='Employer', amount=-42.0, merchant='Employer',
                         category='Income', subcategory='Salary', source='Bank "B"', location=None, tags=['expenses']))
    if variant % 2 == 0:
        # ONE transaction with several special tags (two rules fired): the precedence income > investment > transfer decides its
        # bucket everywhere a bucket is shown
        txns.append(dict(date=d(2025, 2, 16), raw_description='ACH TO BROKERAGE', description='Fidelity', amount=sg * 300.0, merchant='Fidelity',
                         category='Invest', subcategory='', source='Card', location=None, tags=['transfer', 'investment']))
        txns.append(dict(date=d(2025, 2, 17), raw_description='BONUS VIA TRANSFER', description='Employer', amount=-800.0, merchant='Employer',
                         category='Income', subcategory='Salary', source='Bank "B"', location=None, tags=['Transfer', 'Income', 'investment']))
    if variant % 3 != 1:
        # what no rule matched (Unknown / Unknown) next to categories a rule may legitimately assign with the same words
        txns.append(dict(date=d(2025, 2, 12), raw_description='MYSTERY ' + desc, description='Mystery', amount=sg * 9.5, merchant='Mystery',
                         category='Unknown', subcategory='Unknown', source='Card', location=None, tags=[]))
        txns.append(dict(date=d(2025, 2, 13), raw_description='ATM', description='Cashbox', amount=sg * 60.0, merchant='Cashbox',
                         category='Unknown', subcategory='Cash', source='Card', location=None, tags=[]))
        txns.append(dict(date=d(2025, 2, 14), raw_description='MISC', description='Misc Co', amount=sg * 3.25, merchant='Misc Co',
                         category='Uncategorized', subcategory='Unknown', source='Card', location=None, tags=[]))
        txns.append(dict(date=d(2025, 2, 15), raw_description='OTHER', description='Other Co', amount=sg * 1.75, merchant='Other Co',
                         category='', subcategory='', source='Card', location=None, tags=[]))
    if len(names) > 2:
        n3 = ''.join(NAME_TEXT[a] for a in names[2])
        txns.append(dict(date=d(2025, 2, 9), raw_description='third ' + desc, description=n3, amount=sg * 7.75, merchant=n3, category='Food',
                         subcategory='Grocery', source='Card', location=None, tags=[]))
    if variant % 4 == 3 and not zero_credits:
        txns.append(dict(date=d(2025, 3, 3), raw_description='REFUND ' + desc, description='Returns', amount=-75.5, merchant='Returns', category='Shopping',
                         subcategory='Returns', source='Card', location=None, tags=[]))
    return txns


def figures_from(stats):
    return {k: stats[k] for k in ('income_total', 'spending_total', 'credits_total', 'cash_flow', 'transfers_in', 'transfers_out', 'transfers_net')}


def money(s):
    return float(re.sub(r'[^0-9.\-]', '', s.replace(',', '')) or 0)


def run_case(data_atoms, names, seed, with_views):
    """Returns list of (clause, features, detail)."""
    from tally.analyzer import analyze_transactions, export_json, export_markdown, print_summary, print_sections_summary, \
        classify_by_sections, compute_section_totals
    from tally.report import write_summary_file_vue
    from tally.section_engine import parse_sections
    rnd = random.Random(seed)
    variant = rnd.randrange(13)
    txns = build_txns(data_atoms, names, rnd, variant)
    fails = []
    feats = sorted(set(a for a in data_atoms if a != 'txt'))
    stats = analyze_transactions(txns)
    if with_views:
        cfg = parse_sections(VIEWS)
        res = classify_by_sections(stats['by_merchant'], cfg, stats['num_months'])
        stats['sections'] = {n: compute_section_totals(m) for n, m in res.items()}
        stats['_sections_config'] = cfg
    fig = figures_from(stats)
    tmpdir = tempfile.mkdtemp(prefix='c12_', dir='/dev/shm' if os.path.isdir('/dev/shm') else None)
    try:
        # ---- HTML, both assembly modes --------------------------------------------------------------------------------
        for embedded in (True, False):
            path = os.path.join(tmpdir, 'r.html')
            try:
                write_summary_file_vue(stats, path, year=2025, sources=['Card', 'Bank "B"'], embedded_html=embedded)
                if embedded:
                    data = decode_html(open(path, encoding='utf-8').read())
                else:
                    data = decode_page(path)
            except Exception as e:
                fails.append(('html-does-not-decode', feats, 'embedded=%s: %s: %s' % (embedded, type(e).__name__, str(e)[:200])))
                continue
            merchants = []
            for cat in data['categoryView'].values():
                for sub in cat['subcategories'].values():
                    merchants += list(sub['merchants'].values())
            names_seen = sorted(m['displayName'] for m in merchants)
            names_want = sorted(stats['by_merchant'])
            if names_seen != names_want:
                fails.append(('merchant-lost-or-duplicated', ['id-collision'] if len(set(names_want)) > len(set(names_seen)) else feats,
                              'merchants in the decoded report %s, analysed %s' % (names_seen, names_want)))
                continue
            want_tx = sorted((t.get('raw_description'), round(stats_amount(t), 2), t['date'].strftime('%Y-%m'), sorted(t.get('tags', [])), t['source'],
                              json.dumps(t.get('extra_fields') or {}, sort_keys=True)) for t in txns)
            got_tx = sorted((x['description'], round(x['amount'], 2), x['month'], sorted(x['tags']), x['source'],
                             json.dumps(x.get('extra_fields') or {}, sort_keys=True)) for m in merchants for x in m['transactions'])
            if got_tx != want_tx:
                fails.append(('transactions-differ', feats, 'decoded transactions %s, analysed %s' % (got_tx[:3], want_tx[:3])))
            cat_sum = sum(c['total'] for c in data['categoryView'].values())
            if abs(cat_sum - stats['total_transactions']) > 1e-6:
                fails.append(('category-sums', feats, 'categoryView totals add up to %s, the analysed total is %s' % (cat_sum, stats['total_transactions'])))
            # the per-category type totals are folds over the category's OWN transactions, each by its own tags
            SPECIAL = ('income', 'investment', 'transfer')
            for cname, cat in data['categoryView'].items():
                want_tt = {'spending': 0.0, 'income': 0.0, 'investment': 0.0, 'transfer': 0.0}
                for sub in cat['subcategories'].values():
                    for m in sub['merchants'].values():
                        for x in m['transactions']:
                            tl = {t.lower() for t in x.get('tags', [])}
                            kind = next((k for k in SPECIAL if k in tl), 'spending')
                            if kind != 'spending':
                                want_tt[kind] += abs(x['amount'])
                            elif x['amount'] >= 0:              # (refunds are credits: not part of a category's spending)
                                want_tt[kind] += x['amount']
                got_tt = cat.get('typeTotals') or {}
                if any(abs(got_tt.get(k, 0) - want_tt[k]) > 1e-6 for k in want_tt):
                    fails.append(('category-type-totals', feats, 'category %r: typeTotals %s, its transactions add up to %s' % (cname, got_tt, want_tt)))
                    break
            hfig = {'income_total': data['incomeTotal'], 'spending_total': data['spendingTotal'], 'credits_total': data['creditsTotal'],
                    'cash_flow': data['cashFlow'], 'transfers_in': data['transfersIn'], 'transfers_out': data['transfersOut'],
                    'transfers_net': data['transfersNet']}
            if any(abs(hfig[k] - fig[k]) > 1e-9 for k in fig):
                fails.append(('figures-html', feats, 'HTML figures %s, analysed %s' % (hfig, fig)))
            if with_views:
                secs = {s['title']: sorted(m['displayName'] for m in s['merchants'].values()) for s in data['sections'].values()}
                want = {n: sorted(m for m, _ in d['merchants']) for n, d in stats['sections'].items() if d['merchants']}
                if secs != want:
                    fails.append(('sections-differ', ['id-collision'] if any(len(v) < len(want.get(k, [])) for k, v in secs.items()) else feats,
                                  'sections in the report %s, computed %s' % (secs, want)))
        # ---- JSON ------------------------------------------------------------------------------------------------------
        for verbose in (0, 1, 2):
            try:
                js = json.loads(export_json(stats, verbose=verbose))
            except Exception as e:
                fails.append(('json-does-not-render', feats, '%s: %s' % (type(e).__name__, e)))
                continue
            s = js['summary']
            jf = {'income_total': s.get('income_total'), 'credits_total': s.get('credits_total'), 'cash_flow': s.get('net_cash_flow')}
            for k, v in jf.items():
                if v is None and k == 'cash_flow' and fig['income_total'] == 0:
                    continue
                if v is None or abs(v - round(fig[k], 2)) > 0.005:
                    fails.append(('figures-json', [k], 'export_json reports %s = %s, the analysis has %s' % (k, v, round(fig[k], 2))))
                    break
            if sorted(m['name'] for m in js['merchants']) != sorted(stats['by_merchant']):
                fails.append(('json-merchants', feats, 'export_json merchants differ'))
        # ---- Markdown ----------------------------------------------------------------------------------------------------
        for verbose in (0, 2):
            try:
                md = export_markdown(stats, verbose=verbose)
            except Exception as e:
                fails.append(('markdown-does-not-render', [type(e).__name__], '%s: %s' % (type(e).__name__, e)))
                continue
            cells = dict(re.findall(r'^\| \*{0,2}([A-Za-z/ ]+?)\*{0,2} \| \*{0,2}([^|]+?)\*{0,2} \|$', md, re.M))
            mf = {'income_total': money(cells.get('Income', '0')), 'spending_total': -money(cells.get('Spending', '0')),
                  'credits_total': money(cells.get('Credits/Refunds', '0')), 'cash_flow': money(cells.get('Net Cash Flow', '0')),
                  'transfers_in': money(cells.get('In', '0')), 'transfers_out': money(cells.get('Out', '0')), 'transfers_net': money(cells.get('Net Transfers', '0'))}
            bad = [k for k in fig if abs(mf[k] - round(fig[k], 2)) > 0.005]
            if bad:
                fails.append(('figures-markdown', bad[:1], 'Markdown reports %s, the analysis has %s' % ({k: mf[k] for k in bad}, {k: round(fig[k], 2) for k in bad})))
        # ---- text ----------------------------------------------------------------------------------------------------------
        for fn, label in ((lambda: print_summary(stats, year=2025), 'summary'), (lambda: print_summary(stats, year=2025, group_by='subcategory'), 'summary-subcat'),
                          (lambda: print_sections_summary(stats, year=2025), 'sections')):
            buf = io.StringIO()
            try:
                with contextlib.redirect_stdout(buf):
                    fn()
            except Exception as e:
                fails.append(('text-does-not-render', [label, type(e).__name__], '%s: %s: %s' % (label, type(e).__name__, e)))
                continue
            out = re.sub(r'\x1b\[[0-9;]*m', '', buf.getvalue())
            if label.startswith('summary'):
                def grab(lbl):
                    m = re.search(r'^%s\s+([+\-]?)\s*\$?([0-9,.\-]+)' % re.escape(lbl), out, re.M)
                    return (money(m.group(2)) * (-1 if m.group(1) == '-' else 1)) if m else None
                tf = {'income_total': grab('Income:'), 'spending_total': -(grab('Spending:') or 0), 'credits_total': grab('Credits/Refunds:'),
                      'cash_flow': grab('Net Cash Flow:'), 'transfers_in': grab('In:'), 'transfers_out': grab('Out:'), 'transfers_net': grab('Net Transfers:')}
                bad = [k for k in fig if tf[k] is None or abs(abs(tf[k]) - abs(round(fig[k]))) > 1.0]
                if bad:
                    fails.append(('figures-text', bad[:1], 'text summary reports %s, the analysis has %s' % ({k: tf[k] for k in bad}, {k: round(fig[k]) for k in bad})))
    finally:
        shutil.rmtree(tmpdir, ignore_errors=True)
    return fails, txns


def stats_amount(t):
    tags = [x.lower() for x in t.get('tags', [])]
    return abs(t['amount']) if ('income' in tags or 'investment' in tags) else t['amount']


def replay_states(states, seed):
    n, fails = 0, []
    sample = None
    for st in states:
        data = list(plain(st['data']))
        names = [list(x) for x in plain(st['names'])]
        for with_views in (False, True):
            n += 1
            try:
                fl, txns = run_case(data, names, seed + n, with_views)
            except Exception as e:
                fails.append(({'site': 'report', 'clause': 'harness-visible-exception', 'exc': type(e).__name__}, {'data': data, 'names': names, 'error': repr(e)},
                              'rendering raised %r' % e))
                continue
            for clause, feats, detail in fl:
                fails.append(({'site': 'report', 'clause': clause, 'features': feats},
                              {'data_atoms': data, 'name_atoms': names, 'with_views': with_views, 'detail': detail,
                               'descriptions': [t['raw_description'] for t in txns[:3]], 'merchants': sorted({t['merchant'] for t in txns})},
                              detail))
            if sample is None and len(data) >= 2:
                sample = {'descriptions': [t['raw_description'] for t in txns[:3]], 'merchants': sorted({t['merchant'] for t in txns})}
    return n, fails[:60], sample


def run(ck):
    quick = ck.tier == 'quick'
    ck.assumptions += ['the report is decoded with html.parser + json (no browser); the Vue application is not executed',
                       'figures are compared at each format\'s printed precision (JSON and Markdown: cents; text summary: whole units)']
    ck.expect_model_violation('Report/pinned-assembly', tlc.run('Report', 'MC_Report_neg1.cfg'), 'Inv_RoundTrip')
    ck.expect_model_violation('Report/pinned-ids', tlc.run('Report', 'MC_Report_neg2.cfg'), 'Inv_EachMerchantOnce')
    ck.expect_model_violation('Report/counter-ids', tlc.run('Report', 'MC_Report_neg3.cfg'), 'Inv_EachMerchantOnce')
    ck.expect_model_violation('Report/late-placeholder', tlc.run('Report', 'MC_Report_neg4.cfg'), 'Inv_RoundTrip')
    ck.extra['further_placeholders_in_template'] = harvest_placeholders()
    tmp = tempfile.mkdtemp(prefix='c12_')
    try:
        dump = os.path.join(tmp, 'r.dump')
        res = tlc.run('Report', 'MC_Report.cfg', dump=dump)
        ck.expect_model_ok('Report/intended', res)
        outs = par.map_dump(dump, replay_states, extra=(ck.seed,), sample=(1, 6) if quick else None, seed=ck.seed, shards=96)
    finally:
        shutil.rmtree(tmp, ignore_errors=True)
    for n, fails, sample in outs:
        ck.case(n=n)
        ck.trace(n)
        for _ in range(n):
            ck.case(('case', len(ck.nontrivial)), nontrivial=True, n=0)
        for sig, case, what in fails:
            ck.violation(sig, case, what)
        if sample:
            ck.sample(sample, cap=3)
    ck.extra['rule'] = ('every description built from <= 3 of 8 text atoms (plain, quote, backslash, </script>, the three template placeholders and any further one found in the template, '
                        'non-ASCII) x every ordered pair (and, for short descriptions, triple) of 10 merchant-name shapes (differing in blanks, underscores, quotes, a trailing _2), with and without '
                        'views, mixed-sign / income / transfer / investment / refund transactions; all four formats at every verbosity'
                        + (' (1 in 6 states replayed in the quick tier)' if quick else ''))
    ck.exhaustive = not quick


def replay(ck, path):
    case = json.load(open(path))['case']
    fl, txns = run_case(case['data_atoms'], case['name_atoms'], 1, case['with_views'])
    print(json.dumps(fl, indent=1))
