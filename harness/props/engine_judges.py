"""Per-property oracles over the shared Engine universe.  Each judge gets one concretised rule file with all the
universe's transactions, the spec's expectation per transaction and what every real path returned."""
import json

import engine_conc as EC

_names = {}      # description -> Unknown-name seen (per worker process)


def _sig(site, clause, f, **kw):
    d = {'site': site, 'clause': clause, 'mode': f['mode']}
    d.update(kw)
    return d


def _case(f, text, t, exp, got, v):
    return {'rules_text': text, 'txn': dict(t, date=str(t['date'])), 'expected': exp, 'observed': got,
            'variant': v.describe(), 'file': f}


def _uses(c, what):
    if c['k'] == 'atom':
        return c['a'] == what
    if c['k'] == 'var':
        return what == 'var'
    if c['k'] == 'not':
        return _uses(c['x'], what)
    return _uses(c['l'], what) or _uses(c['r'], what)


def judge_c01(f, txns_abs, txns, exps, obs, text, v):
    if f['mode'] != 'first_match':
        return 0, [], []
    fails, nontriv, n = [], [], 0
    for path, res in obs.items():
        if isinstance(res, str):
            continue        # a path that raised is C08's business
        for k, (ta, t, e, o) in enumerate(zip(txns_abs, txns, exps, res)):
            n += 1
            diffs = []
            if path == 'engine':
                if o['matched'] != e['matched']:
                    diffs.append('matched')
                elif e['matched']:
                    for key in ('cat', 'sub', 'merchant', 'win'):
                        if o[key] != e[key]:
                            diffs.append(key)
                elif o['cat'] or o['sub']:
                    diffs.append('category-without-match')
            else:
                if e['matched']:
                    for key in ('cat', 'sub', 'merchant'):
                        if o[key] != e[key]:
                            diffs.append(key)
                else:
                    if (o['cat'], o['sub']) != ('Unknown', 'Unknown'):
                        diffs.append('unknown-category')
                    prev = _names.setdefault(t['description'], o['merchant'])
                    if prev != o['merchant']:
                        diffs.append('unknown-name-not-a-function-of-description')
            if diffs:
                fails.append((_sig(path, diffs[0], f), _case(f, text, t, e, o, v),
                              '%s path: %s differ from Engine!FirstMatch (expected %s, got %s)' % (
                                  path, diffs, {x: e.get(x) for x in ('cat', 'sub', 'merchant', 'win')},
                                  {x: o.get(x) for x in ('cat', 'sub', 'merchant', 'win')})))
            elif path == 'engine' and e['matched'] and len(o['matching']) >= 2:
                nontriv.append(json.dumps([text, k]))
    return n, nontriv, fails


def judge_c02(f, txns_abs, txns, exps, obs, text, v):
    from props.engine_common import observe_engine
    fails, nontriv, n = [], [], 0
    for path, res in obs.items():
        if isinstance(res, str):
            continue
        for k, (t, e, o) in enumerate(zip(txns, exps, res)):
            n += 1
            if o['tags'] != e['tags']:
                fails.append((_sig(path, 'tags', f), _case(f, text, t, e, o, v),
                              '%s path: tags %s, union over matching rules is %s' % (path, o['tags'], e['tags'])))
            elif path == 'engine' and len(e['tags']) >= 1 and len(o['matching']) >= 2:
                nontriv.append(json.dumps([text, k]))
    # metamorphic on the real code: deleting a rule without category never changes merchant/category/subcategory
    base = obs.get('engine')
    if isinstance(base, list):
        for i, r in enumerate(f['rules']):
            if r['cat']:
                continue
            g = dict(f, rules=[x for j, x in enumerate(f['rules']) if j != i])
            if not g['rules']:
                continue
            try:
                other = observe_engine(EC.file_text(g, v), f['mode'], txns)
            except Exception:
                continue
            for t, a, b in zip(txns, base, other):
                n += 1
                if (a['merchant'], a['cat'], a['sub'], a['win']) != (b['merchant'], b['cat'], b['sub'], b['win']) and \
                        (a['matched'] or b['matched']):
                    fails.append((_sig('engine', 'tag-only-rule-changes-classification', f,
                                       which='subcategory' if a['sub'] != b['sub'] and a['cat'] == b['cat'] and a['merchant'] == b['merchant'] else 'merchant'),
                                  {'rules_text': text, 'tag_only_rule': EC.rule_name(r), 'txn': dict(t, date=str(t['date'])),
                                   'with_rule': a, 'without_rule': b},
                                  'rule %s has no category but removing it changes (merchant, category, subcategory) %s -> %s'
                                  % (EC.rule_name(r), (a['merchant'], a['cat'], a['sub']), (b['merchant'], b['cat'], b['sub']))))
    return n, nontriv, fails


def _has_error(f, ta):
    if ta['dyn'] == 'err' and any('dyn' in r['tags'] for r in f['rules']):
        return True
    conds = [r['cond'] for r in f['rules']] + [l['c'] for r in f['rules'] for l in r['lets']] + [g['c'] for g in f['globals']]
    if ta['v']['AE'] == 'E' and any(_uses(c, 'AE') for c in conds):
        return True
    defined = {g['n'] for g in f['globals']}
    for r in f['rules']:
        d = defined | {l['n'] for l in r['lets']}
        stack = [r['cond']]
        while stack:
            c = stack.pop()
            if c['k'] == 'var' and c['n'] not in d:
                return True
            stack += [c[x] for x in ('x', 'l', 'r') if x in c]
    return False


def judge_c08(f, txns_abs, txns, exps, obs, text, v):
    fails, nontriv, n = [], [], 0
    for path, res in obs.items():
        if isinstance(res, str):
            n += 1
            fails.append((_sig(path, 'exception', f, exc=res.split('(')[0]), {'rules_text': text, 'error': res, 'file': f},
                          '%s path aborted with %s although every rule file here is accepted by the loader' % (path, res)))
            continue
        for k, (ta, t, e, o) in enumerate(zip(txns_abs, txns, exps, res)):
            if not _has_error(f, ta):
                continue
            n += 1
            nontriv.append(json.dumps([text, k]))
            got = (o.get('matched', o['cat'] != 'Unknown'), o['cat'] if o.get('matched', o['cat'] != 'Unknown') else None, o['tags'])
            want = (e['matched'], e['cat'] if e['matched'] else None, e['tags'])
            if got != want:
                fails.append((_sig(path, 'failing-rule-not-skipped', f), _case(f, text, t, e, o, v),
                              '%s path: with a rule/let/tag that cannot be evaluated the result is %s, without it %s' % (path, got, want)))
    return n, nontriv, fails


def judge_c09(f, txns_abs, txns, exps, obs, text, v):
    if f['mode'] != 'most_specific':
        return 0, [], []
    fails, nontriv, n = [], [], 0
    for path, res in obs.items():
        if isinstance(res, str):
            continue
        for k, (t, e, o) in enumerate(zip(txns, exps, res)):
            n += 1
            diffs = []
            if path == 'engine':
                if o['matched'] != e['matched']:
                    diffs.append('matched')
                elif e['matched']:
                    for key in ('cat', 'sub', 'win', 'subwin'):
                        if o[key] != e[key]:
                            diffs.append(key)
                    if len(o['matching']) >= 2:
                        nontriv.append(json.dumps([text, k]))
            elif e['matched']:
                for key in ('cat', 'sub'):
                    if o[key] != e[key]:
                        diffs.append(key)
            elif o['cat'] != 'Unknown':
                diffs.append('cat')
            if diffs:
                fails.append((_sig(path, diffs[0], f), _case(f, text, t, e, o, v),
                              '%s path (most_specific): %s differ: expected %s got %s' % (
                                  path, diffs, {x: e.get(x) for x in ('cat', 'sub', 'win', 'subwin')},
                                  {x: o.get(x) for x in ('cat', 'sub', 'win', 'subwin')})))
    return n, nontriv, fails
