"""C18 – a format string maps columns by position, and inspect's suggestion round-trips (spec modules Format, MC_Format)."""
import argparse
import contextlib
import io
import json
import os
import random
import re
import shutil
import tempfile

import cli
import core
import par
import tlc
from props.engine_common import plain
from props.totals_common import run_trace_spec

NOCOL = 999
FMT = {'': '%m/%d/%Y', 'f2': '%Y-%m-%d'}
CUSTOM = {'ca': 'type', 'cb': 'merchant', 'cz': 'nope'}
HEADER_TEXT = {
    frozenset(['date']): ['Date', 'Trans Date', 'Posting Date', 'TRANSACTION DATE'],
    frozenset(['desc']): ['Description', 'Payee', 'Memo', 'merchant'],
    frozenset(['amount']): ['Amount', 'Debit', 'Transaction Amount', 'charge'],
    frozenset(['loc']): ['City', 'Region', 'Location'],
    frozenset(): ['Category', 'Balance', 'Ref', 'Type'],
    frozenset(['date', 'amount']): ['Payment Date'],
    frozenset(['desc', 'loc']): ['Merchant State', 'City Name'],
    frozenset(['amount', 'loc']): ['State Charge', 'Region Debit'],
    frozenset(['date', 'desc']): ['Name Date', 'Date Memo'],
}


def token_text(t, rnd):
    k = t['k']
    if k == 'date':
        name = rnd.choice(['date', 'Date', 'DATE'])
        if t['fmt'] == 'f2':
            return '{%s:%%Y-%%m-%%d}' % name
        return rnd.choice(['{%s}' % name, '{%s:%%m/%%d/%%Y}' % name])
    if k == 'amount':
        return '{%s%s}' % (t['sign'], rnd.choice(['amount', 'Amount', 'AMOUNT']))
    if k == 'description':
        return '{%s}' % rnd.choice(['description', 'Description'])
    if k == 'location':
        return '{%s}' % rnd.choice(['location', 'LOCATION'])
    if k == 'custom':
        n = CUSTOM[t['n']]
        return '{%s}' % rnd.choice([n, n.title(), n.upper()])
    if k == 'skip':
        return rnd.choice(['{_}', '{*}'])
    if k == 'field':
        return '{field}'
    return rnd.choice(['date', '{date', '', '{}', '{ date }', '{da te}', 'amount}', '-{amount}', '{:x}'])


def format_text(toks, rnd):
    parts = [token_text(t, rnd) for t in toks]
    sep = rnd.choice([',', ', ', ' , ', ',  '])
    return sep.join(parts)


def template_text(tmpl):
    if not tmpl['has']:
        return None
    refs = sorted(tmpl['refs'])
    if not refs:
        return 'plain text'
    return ' - '.join('{%s}' % CUSTOM[r] for r in refs)


def observe_parse(fmt, template):
    from tally.format_parser import parse_format_string
    try:
        s = parse_format_string(fmt, template)
    except ValueError as e:
        return {'err': True, 'msg': str(e)[:80]}
    return {'err': False, 'date': s.date_column, 'fmt': s.date_format, 'amount': s.amount_column,
            'desc': NOCOL if s.description_column is None else s.description_column,
            'location': NOCOL if s.location_column is None else s.location_column,
            'negate': bool(s.negate_amount), 'abs': bool(s.abs_amount),
            'captures': sorted((k, v) for k, v in (s.custom_captures or {}).items()),
            'extras': sorted((k, v) for k, v in (s.extra_fields or {}).items())}


def expected_parse(out):
    if out['err']:
        return {'err': True}
    return {'err': False, 'date': out['date'], 'fmt': FMT[out['fmt']], 'amount': out['amount'], 'desc': out['desc'],
            'location': out['location'], 'negate': out['negate'], 'abs': out['abs'],
            'captures': sorted((CUSTOM[c[0]], c[1]) for c in out['captures']),
            'extras': sorted((CUSTOM[c[0]], c[1]) for c in out['extras'])}


def inspect_inprocess(path):
    from tally.commands.inspect import cmd_inspect
    buf = io.StringIO()
    with contextlib.redirect_stdout(buf), contextlib.redirect_stderr(io.StringIO()):
        try:
            cmd_inspect(argparse.Namespace(file=path, rows=3))
        except SystemExit:
            pass
    return buf.getvalue()


def parse_inspect_output(out):
    m = re.search(r'^\s*format: "(.*)"\s*$', out, re.M)
    sug = m.group(1) if m and 'Successfully detected' in out else None
    cols = {}
    for key, pat in (('date', r'- Date column: (\d+)'), ('desc', r'- Description column: (\d+)'), ('amount', r'- Amount column: (\d+)'),
                     ('location', r'- Location column: (\d+)')):
        mm = re.search(pat, out)
        cols[key] = int(mm.group(1)) if mm else NOCOL
    return sug, cols


# how the statement writes its dates is independent of the header wording: the suggestion must round-trip for all of them
DATE_STYLES = ['%m/%d/%Y', '%Y-%m-%d', '%d.%m.%Y', '%b %d, %Y', '%d %b %Y', '%d-%b-%Y', '%B %d, %Y', '%m/%d/%y', '%a, %d %b %Y']


def write_csv(path, headers, rnd):
    import csv as _csv
    import datetime as _dt
    rows = [headers]
    style = rnd.choice(DATE_STYLES)
    for r in range(4):
        row = []
        for h in headers:
            hl = h.lower()
            if 'date' in hl:
                row.append(_dt.date(2025, r + 1, 10 + r).strftime(style))
            elif any(w in hl for w in ('amount', 'debit', 'charge', 'payment')):
                row.append('%d.5%d' % (10 + r, r))
            elif any(w in hl for w in ('city', 'region', 'location', 'state')):
                row.append(rnd.choice(['Seattle', 'Portland', 'Austin']))
            else:
                row.append('VALUE %s %d' % (h.split()[0].upper(), r))
        rows.append(row)
    with open(path, 'w', newline='') as f:
        _csv.writer(f, lineterminator='\n').writerows(rows)


def _ft_worker(seed, n):
    import format_trace as FT
    return FT.record_batch(seed, n)


def trace_format(ck, n):
    """code -> spec: random concrete format strings and statement headers through the real parser / detection / inspect, validated
    by Trace_Format (Format!ParseFormat on the harness's own tokenisation; the suggestion must select the detected columns)."""
    import copy
    from props.totals_common import run_trace_sharded
    outs = par.pmap(_ft_worker, [ck.seed * 2333 + 11 * s + 4 for s in range(16)], extra=(max(4, n // 16),))
    by_id, skipped = {}, 0
    for rs, sk in outs:
        skipped += sk
        for r in rs:
            by_id[r['id']] = r
    recs = [{k: v for k, v in r.items() if not k.startswith('_')} for r in by_id.values()]
    base = next((r for r in recs if r['kind'] == 'format' and not r['obs']['err']), None)
    if base is None:
        raise core.Machinery('format trace recorder: no format string was accepted')
    tam = copy.deepcopy(base)
    tam['id'] = 'TAMPER'
    tam['obs']['amount'] = tam['obs']['amount'] + 1
    rej = run_trace_sharded(ck, 'Trace_Format', recs + [tam], 'Trace_Format', 'Trace_Format.cfg', shards=2)
    if 'TAMPER' not in rej:
        raise core.Machinery('Trace_Format accepted a tampered record: the binding is vacuous')
    rej.pop('TAMPER')
    ck.trace(len(recs))
    ck.case(n=len(recs))
    nsug = sum(1 for r in recs if r['kind'] == 'suggest')
    nerr = sum(1 for r in recs if r['kind'] == 'format' and r['obs']['err'])
    ck.case(('trace_format', nsug, nerr), nontrivial=nsug > 0 and nerr > 0, n=0)
    ck.extra['trace_format'] = {'format_strings': len(recs) - nsug, 'rejected_by_the_parser': nerr, 'inspect_suggestions': nsug,
                                'outside_statement_or_undetected_skipped': skipped, 'records_rejected': len(rej)}
    for rid, clauses in sorted(rej.items()):
        if any(c.startswith('MODEL') for c in clauses):
            raise core.Machinery('Trace_Format model inconsistency on %s: %s' % (rid, sorted(clauses)))
        r = by_id[rid]
        if r['kind'] == 'format':
            ck.violation({'site': 'parse_format_string', 'clause': sorted(clauses), 'via': 'trace_format'},
                         {'format': r['_fmt'], 'template': r['_tmpl'], 'tokens': r['toks'], 'observed': r['obs'], 'parser_message': r['_msg']},
                         'parse_format_string(%r, %r): %s; parser said %r' % (r['_fmt'], r['_tmpl'], sorted(clauses), r['_msg'] or r['obs']))
        else:
            ck.violation({'site': 'inspect', 'clause': sorted(clauses), 'via': 'trace_format'},
                         {'headers': r['_headers'], 'suggestion': r['_suggestion'], 'detected': r['det'], 'date_style': r['_date_style']},
                         'inspect on headers %s suggests %r: %s (detection reported %s)' % (r['_headers'], r['_suggestion'], sorted(clauses), r['det']))


def replay_states(states, seed):
    from tally.parsers import auto_detect_csv_format
    from tally.format_parser import parse_format_string
    rnd = random.Random(seed)
    n, fails, nontriv = 0, [], 0
    sample = None
    tmpdir = tempfile.mkdtemp(prefix='c18_')
    try:
        for st in states:
            toks = plain(st['toks'])
            out = plain(st['out'])
            if st['mode'] == 'format':
                tmpl = plain(st['tmpl'])
                tmpl['refs'] = list(tmpl['refs'])
                exp = expected_parse(out)
                for _ in range(2):
                    fmt = format_text(toks, rnd)
                    tt = template_text(tmpl)
                    obs = observe_parse(fmt, tt)
                    n += 1
                    if not exp['err']:
                        nontriv += 1
                    cmp_obs = {k: v for k, v in obs.items() if k != 'msg'}
                    if cmp_obs != exp:
                        clause = 'accepts-invalid' if exp['err'] else ('rejects-valid' if obs['err'] else 'columns')
                        fails.append(({'site': 'parse_format_string', 'clause': clause},
                                      {'format': fmt, 'template': tt, 'expected': exp, 'observed': obs},
                                      'parse_format_string(%r, %r): expected %s, got %s' % (fmt, tt, exp, obs)))
                    if sample is None and not exp['err'] and len(toks) >= 3:
                        sample = {'format': fmt, 'template': tt, 'spec': exp}
            else:
                if not toks:
                    continue
                headers = [rnd.choice(HEADER_TEXT[frozenset(h)]) for h in toks]
                path = os.path.join(tmpdir, 'h.csv')
                write_csv(path, headers, rnd)
                n += 1
                try:
                    s = auto_detect_csv_format(path)
                    det = {'err': False, 'date': s.date_column, 'desc': s.description_column, 'amount': s.amount_column,
                           'location': NOCOL if s.location_column is None else s.location_column}
                except ValueError:
                    det = {'err': True}
                exp = {'err': True} if out['err'] else {k: out[k] for k in ('err', 'date', 'desc', 'amount', 'location')}
                if det != exp:
                    fails.append(({'site': 'auto_detect_csv_format', 'clause': 'detection'},
                                  {'headers': headers, 'expected': exp, 'observed': det},
                                  'auto_detect_csv_format on headers %s: expected %s, got %s' % (headers, exp, det)))
                    continue
                text = inspect_inprocess(path)
                sug, cols = parse_inspect_output(text)
                if det['err']:
                    if sug is not None:
                        fails.append(({'site': 'inspect', 'clause': 'suggests-without-detection'}, {'headers': headers, 'output': text[-600:]},
                                      'inspect suggests %r although detection failed' % sug))
                    continue
                nontriv += 1
                if sug is None:
                    fails.append(({'site': 'inspect', 'clause': 'no-suggestion'}, {'headers': headers, 'output': text[-800:]},
                                  'inspect prints no format suggestion for headers %s' % headers))
                    continue
                try:
                    p = parse_format_string(sug)
                except ValueError as e:
                    fails.append(({'site': 'inspect', 'clause': 'suggestion-rejected'}, {'headers': headers, 'suggestion': sug, 'error': str(e)},
                                  'the format %r suggested by inspect is rejected: %s' % (sug, e)))
                    continue
                got = {'date': p.date_column, 'desc': p.description_column, 'amount': p.amount_column,
                       'location': NOCOL if p.location_column is None else p.location_column}
                want = {k: det[k] for k in ('date', 'desc', 'amount', 'location')}
                if got != want or cols != want:
                    fails.append(({'site': 'inspect', 'clause': 'round-trip'},
                                  {'headers': headers, 'suggestion': sug, 'parsed': got, 'reported': cols, 'detected': want},
                                  'inspect on %s: suggestion %r parses to %s, inspect reported %s, detection %s' % (headers, sug, got, cols, want)))
    finally:
        shutil.rmtree(tmpdir, ignore_errors=True)
    return n, nontriv, fails[:30], sample


def cli_roundtrip(item):
    headers, seed = item
    rnd = random.Random(seed)
    d = tempfile.mkdtemp(prefix='c18cli_')
    try:
        path = os.path.join(d, 'stmt.csv')
        write_csv(path, headers, rnd)
        r = cli.run_tally(['inspect', path], cwd=d, root=d)
        same = inspect_inprocess(path)
        wrote = [e for e in r['effects'] if 'kind' in e]
        return headers, r['rc'], parse_inspect_output(r['out']), parse_inspect_output(same), wrote
    finally:
        shutil.rmtree(d, ignore_errors=True)


def run(ck):
    quick = ck.tier == 'quick'
    ck.assumptions += ['date formats in FORMAT STRINGS without commas (date VALUES in inspected files come in nine styles, some with commas); nothing after the closing brace of a column token; sign prefixes only on amount',
                       'header texts are drawn from a vocabulary whose membership in the detection classes is known by construction']
    ck.expect_model_violation('MC_Format/neg', tlc.run('MC_Format', 'MC_Format_neg.cfg'), 'Neg_AlwaysAccepts')
    tmp = tempfile.mkdtemp(prefix='c18_')
    try:
        dump = os.path.join(tmp, 'f.dump')
        res = tlc.run('MC_Format', 'MC_Format.cfg' if quick else 'MC_Format5.cfg', dump=dump)
        ck.expect_model_ok('MC_Format', res)
        outs = par.map_dump(dump, replay_states, extra=(ck.seed,))
    finally:
        shutil.rmtree(tmp, ignore_errors=True)
    for n, nontriv, fails, sample in outs:
        ck.case(n=n)
        ck.trace(n)
        for _ in range(nontriv):
            ck.case(('accepted', len(ck.nontrivial)), nontrivial=True, n=0)
        for sig, case, what in fails:
            ck.violation(sig, case, what)
        if sample:
            ck.sample(sample, cap=3)
    # the real command line on a sample of header rows (fresh process; writes nothing)
    rnd = random.Random(ck.seed)
    rows = []
    classes = list(HEADER_TEXT)
    for _ in range(40 if quick else 400):
        rows.append(([rnd.choice(HEADER_TEXT[rnd.choice(classes)]) for _ in range(rnd.randint(3, 6))], rnd.randrange(10 ** 6)))
    for headers, rc, cli_out, inproc, wrote in par.pmap(cli_roundtrip, rows):
        ck.case(n=1)
        ck.trace(1)
        if rc != 0 or cli_out != inproc:
            ck.violation({'site': 'tally inspect', 'clause': 'cli-differs-from-function'}, {'headers': headers, 'cli': cli_out, 'inprocess': inproc, 'rc': rc},
                         '`tally inspect` (rc=%s) reports %s, the same function in-process %s' % (rc, cli_out, inproc))
        if wrote:
            ck.violation({'site': 'tally inspect', 'clause': 'writes'}, {'headers': headers, 'effects': wrote}, 'tally inspect wrote files: %s' % wrote)
    ck.sample({'inspect_headers': rows[0][0]})
    trace_format(ck, 12000 if ck.tier == 'quick' else 120000)
    ck.extra['rule'] = ('every sequence of <= %d column tokens over 12 token kinds x 5 templates, each written in two random spellings; every '
                        'header row of <= %d headers over 9 detection-class combinations through auto_detect_csv_format and tally inspect '
                        '(in-process, plus a sample through the real command line). non-trivial = accepted format / detected header row'
                        % ((4, 4) if quick else (5, 5)))
    ck.exhaustive = True


def replay(ck, path):
    case = json.load(open(path))['case']
    if 'format' in case:
        print(observe_parse(case['format'], case.get('template')), 'expected', case.get('expected'))
    else:
        print(json.dumps(case, indent=1))
