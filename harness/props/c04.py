"""C04 – expressions mean what the reference says (spec modules Text, Regex, Expr, MC_Expr, Trace_Expr)."""
import ast
import copy
import datetime
import glob
import json
import os
import random
import re
import tempfile

import core
import exprabs as X
import par
import tlaval
import tlc
from exprenvs import ENVS
from props.engine_common import plain
from props.totals_common import run_trace_spec


# ----------------------------------------------------------------------------------------- real evaluation ----------
# Evaluations that bind (with :=) the names other expressions read as primitives, variables, data sources or loop
# variables - one that then fails, one that succeeds.  The meaning of an expression is a function of the expression and its
# environment, so running these before an evaluation must never change its value.
POISON = ['(amount := 7) > 0 and (orders := 3) > 0 and (r := 5) > 0 and (x := 1) > 0 and (date := 1) > 0 and (month := 99) > 0 '
          'and (txn := 2) > 0 and (a := 4) > 0 and (b := 4) > 0 and (m := 4) > 0 and (t := 4) > 0 and (q := 4) > 0 and (year := 1) > 0',
          '[zz for r in orders for x in orders]',
          # the failing one LAST: what it bound is still there if only successful evaluations clean up
          '(amount := 7) > 0 and (description := "zz") == "zz" and (lim := 1) > 0 and (big := 0) == 0 and (field := 3) > 0 '
          'and (orders := 3) > 0 and (month := 99) > 0 and amount < "x"']
_poison_tick = [0]


def real_eval(src, env):
    from tally import expr_parser as EP
    _poison_tick[0] += 1
    if _poison_tick[0] % 3 == 0:
        for p in POISON:
            try:
                EP.evaluate_transaction(p, dict(env['txn']), dict(env['vars']), env['rows'])
            except EP.ExpressionError:
                pass
    try:
        v = EP.evaluate_transaction(src, dict(env['txn']), dict(env['vars']), env['rows'])
    except EP.ExpressionError:
        return {'t': 'err'}
    except Exception as ex:                      # anything else escaping the evaluator is C08's finding
        return {'t': 'raw', 'exc': type(ex).__name__}
    try:
        return X.abstract_value(v)
    except X.Unrepresentable:
        return None


def strip_extras(v):
    """drop the harness-only fields of spec values (re / name) and normalise nums for comparison"""
    if isinstance(v, dict):
        if v.get('t') == 'num':
            return {'t': 'num', 'n': v['n'], 'd': v['d'], 'f': v['f']}
        return {k: strip_extras(x) for k, x in v.items() if k not in ('re', 'name', 'py')}
    if isinstance(v, (list, tuple)):
        return [strip_extras(x) for x in v]
    return v


def same(spec, obs):
    s, o = strip_extras(spec), strip_extras(obs)
    if s.get('t') == 'gen':
        return o.get('t') == 'other'
    return s == o


class Style:
    def __init__(self, rnd):
        self.quote = rnd.choice(['"', "'"])
        self.mode = rnd.choice(['lower', 'upper', 'title'])

    def case(self, name):
        if name in ('true', 'false') and self.mode == 'lower':
            return name
        return {'lower': name, 'upper': name.upper(), 'title': name.title()}[self.mode]


def to_src(node, style=None):
    """AST JSON from the dump (tuples, sets as lists) -> source text.  Regex / name annotations are ignored."""
    return X.unparse(node, style)


def swap_case_literals(node):
    """The C04 rewriting 'change the letter case of ASCII text' applied to test operands (not to regex patterns)."""
    n = copy.deepcopy(node)

    def walk(x, in_test):
        k = x['k']
        if k == 'const':
            if x['v']['t'] == 'str' and in_test:
                x['v'] = {'t': 'str', 'v': [c + 32 if 65 <= c <= 90 else c - 32 if 97 <= c <= 122 else c for c in x['v']['v']]}
        elif k == 'not':
            walk(x['x'], in_test)
        elif k == 'boolop':
            for v in x['vals']:
                walk(v, False)
        elif k == 'cmp':
            t = all(o in ('eq', 'ne', 'in', 'notin') for o in x['ops'])
            walk(x['left'], t)
            for r in x['rights']:
                walk(r, t)
        elif k == 'call' and x['fn'] in ('contains', 'startswith', 'normalized', 'anyof'):
            for a in x['args']:
                walk(a, True)
    walk(n, False)
    return n


def replay_states(states, seed):
    rnd = random.Random(seed)
    n = 0
    fails = []
    nontriv = 0
    sample = None
    for st in states:
        e = plain(st['e'])
        ei = st['ei']
        val = plain(st['val'])
        env = ENVS[ei - 1]
        if val.get('t') == 'oou':
            continue
        srcs = [to_src(e), to_src(e, Style(rnd))]
        for vi, src in enumerate(srcs):
            n += 1
            obs = real_eval(src, env)
            if obs is None:
                continue
            if not same(val, obs):
                fails.append(({'site': 'evaluate_transaction', 'clause': 'value', 'node': e['k'], 'variant': vi,
                               'spec': val.get('t'), 'code': obs.get('t')},
                              {'expr': src, 'env': ei, 'expected': strip_extras(val), 'observed': strip_extras(obs)},
                              'evaluate_transaction(%r) in environment %d gives %s, Expr!Eval gives %s' % (
                                  src, ei, json.dumps(strip_extras(obs)), json.dumps(strip_extras(val)))))
        if st['depth'] >= 1:
            nontriv += 1
        # the case-rewriting law directly on the code
        if st['ty'] == 'b' and e['k'] in ('cmp', 'call', 'not', 'boolop'):
            sw = swap_case_literals(e)
            if sw != e:
                a, b = real_eval(srcs[0], env), real_eval(to_src(sw), env)
                n += 1
                is_list_in = e['k'] == 'cmp' and any(r['k'] in ('listcomp', 'name') and r.get('n') in ('orders', 'nolines') or
                                                      r['k'] == 'listcomp' for r in e['rights'])
                if a != b and not is_list_in:
                    fails.append(({'site': 'evaluate_transaction', 'clause': 'case-insensitivity', 'node': e['k']},
                                  {'expr': srcs[0], 'rewritten': to_src(sw), 'env': ei, 'a': a, 'b': b},
                                  'changing the letter case of text literals changes %r: %s vs %s' % (srcs[0], a, b)))
        if sample is None and st['depth'] >= 1:
            sample = {'expr': srcs[1], 'env': ei, 'spec_value': strip_extras(val)}
    return n, nontriv, fails[:30], sample


# ----------------------------------------------------------------------------------- recorder (code -> spec) ----------
WORDS = ['ALFA', 'alfa', 'Store', 'STORE', 'aplpay', '#123', '99', 'wa', 'Card', 'proj', 'x1', 'ZZZ', '', ' ', 'a-b', "o'k"]


def gen_expr(rnd, ty, depth):
    """Well-typed random expressions over the documented language, as source text."""
    if depth <= 0 or rnd.random() < 0.25:
        if ty == 'n':
            return rnd.choice(['amount', 'month', 'year', 'day', 'weekday', 'lim', 'txn.amount', '0', '1', '12', '100', '50.25',
                               '2.5', 'len(description)', 'len(orders)', 'abs(amount)'])
        if ty == 's':
            return rnd.choice(['description', 'source', 'field.kind', 'field.memo', 'txn.location', 'txn.description'] +
                              ['"%s"' % w for w in WORDS])
        if ty == 'b':
            w = rnd.choice(WORDS)
            return rnd.choice(['true', 'false', 'big', 'contains("%s")' % w, 'startswith("%s")' % w, 'normalized("%s")' % w,
                               'anyof("%s", "%s")' % (w, rnd.choice(WORDS)), 'regex("%s")' % rnd.choice(REGEXES),
                               'exists(field.%s)' % rnd.choice(['kind', 'memo', 'nope'])])
        if ty == 'l':
            return rnd.choice(['orders', 'nolines', '[r.amount for r in orders]', '[r.item for r in orders]', '[r.n for r in orders]'])
        if ty == 'd':
            return 'date'
    d = depth - 1
    if ty == 'n':
        k = rnd.randrange(9)
        if k < 4:
            return '(%s %s %s)' % (gen_expr(rnd, 'n', d), rnd.choice('+-*/%'), gen_expr(rnd, 'n', d))
        if k == 4:
            return '(-%s)' % gen_expr(rnd, 'n', d)
        if k == 5:
            return 'len(%s)' % gen_expr(rnd, rnd.choice('sl'), d)
        if k == 6:
            return 'sum(r.%s for r in orders if %s)' % (rnd.choice(['amount', 'n']), gen_rowcond(rnd, d))
        if k == 7:
            return '(%s if %s else %s)' % (gen_expr(rnd, 'n', d), gen_expr(rnd, 'b', d), gen_expr(rnd, 'n', d))
        return rnd.choice(['max', 'min']) + '(%s, %s)' % (gen_expr(rnd, 'n', d), gen_expr(rnd, 'n', d))
    if ty == 's':
        k = rnd.randrange(10)
        s = gen_expr(rnd, 's', d)
        if k == 0:
            return 'uppercase(%s)' % s
        if k == 1:
            return 'lowercase(%s)' % s
        if k == 2:
            return 'trim(%s)' % s
        if k == 3:
            return 'split(%s, "%s", %d)' % (s, rnd.choice([' ', ':', '-', '#']), rnd.randrange(4))
        if k == 4:
            return 'substring(%s, %d, %d)' % (s, rnd.randrange(-2, 5), rnd.randrange(0, 12))
        if k == 5:
            return 'strip_%s(%s, "%s")' % (rnd.choice(['prefix', 'suffix']), s, rnd.choice(WORDS))
        if k == 6:
            return 'extract(%s, "%s")' % (s, rnd.choice(GROUP_REGEXES))
        if k == 7:
            return '%s.%s()' % (s if s[0] != '"' else '(' + s + ')', rnd.choice(['lower', 'upper', 'strip']))
        if k == 8:
            return 'regex_replace(%s, "%s", "%s")' % (s, rnd.choice(NONEMPTY_REGEXES), rnd.choice(['', '-', 'X']))
        return '(%s if %s else %s)' % (s, gen_expr(rnd, 'b', d), gen_expr(rnd, 's', d))
    if ty == 'b':
        k = rnd.randrange(14)
        if k < 3:
            return '(%s %s %s)' % (gen_expr(rnd, 'b', d), rnd.choice(['and', 'or']), gen_expr(rnd, 'b', d))
        if k == 3:
            return '(not %s)' % gen_expr(rnd, 'b', d)
        if k < 6:
            return '(%s %s %s)' % (gen_expr(rnd, 'n', d), rnd.choice(['<', '<=', '>', '>=', '==', '!=']), gen_expr(rnd, 'n', d))
        if k == 6:
            return '(%s %s %s %s %s)' % (gen_expr(rnd, 'n', d), rnd.choice(['<', '<=']), gen_expr(rnd, 'n', d),
                                         rnd.choice(['<', '<=', '>']), gen_expr(rnd, 'n', d))
        if k < 9:
            return '(%s %s %s)' % (gen_expr(rnd, 's', d), rnd.choice(['==', '!=', 'in', 'not in']), gen_expr(rnd, 's', d))
        if k == 9:
            return '%s(%s, %s)' % (rnd.choice(['contains', 'startswith', 'normalized']), gen_expr(rnd, 's', d), gen_expr(rnd, 's', d))
        if k == 10:
            return '(date %s "%s")' % (rnd.choice(['<', '<=', '>', '>=', '==', '!=']),
                                       rnd.choice(['2025-12-31', '2024-02-29', '2025-01-01', '2025-06-15', '1999-12-31']))
        if k == 11:
            return '%s(%s for r in orders)' % (rnd.choice(['any', 'all']), gen_rowcond(rnd, d))
        if k == 12:
            return '(%s in %s)' % (gen_expr(rnd, rnd.choice('ns'), d), gen_expr(rnd, 'l', d))
        return 'regex(%s, "%s")' % (gen_expr(rnd, 's', d), rnd.choice(REGEXES))
    if ty == 'l':
        return '[r.%s for r in orders if %s]' % (rnd.choice(['amount', 'item', 'n']), gen_rowcond(rnd, d))
    return 'date'


SCOPE_TEMPLATES = [
    '(x := %(n)s) + sum(1 for x in orders) + x',
    '(x := %(n)s) + len([x for x in orders if x.n > 0]) + x',
    'sum(a.n * b.n for a in orders for b in orders if a.n <= b.n)',
    'len([a.n + b.n for a in orders for b in orders if a.n < b.n])',
    'sum(r.n for r in orders for r in orders)',
    '(m := [r.n for r in orders if r.amount > lim]) and len(m) > 0',
    '(m := [r for r in orders if r.n > %(k)d]) and m[0].n == %(k)d + 1',
    'len([[b.n for b in orders if b.n != a.n] for a in orders])',
    'sum(len([b for b in orders if b.n > a.n]) for a in orders)',
    '(t := amount * 2) > lim and t < 1000',
    'next((r.item for r in orders if r.n > %(k)d), "none")',
    'next((r.n for r in orders if r.n > 5), %(n)s)',
    # a string literal is its characters: runs of blanks and tabs inside the quotes are part of the text
    'contains("Alfa  Store")', 'contains("Alfa Store")', '"a  b" + description', 'description == "zulu 99  store"', 'description == "zulu 99 store"',
    'len("a\tb") == 3', 'len("a   b")', 'split("x  y", "  ", 1)', 'anyof("ZULU  99", "qq")', 'startswith("APLPAY  Alfa")',
    # fuzzy(): a text that contains the pattern verbatim is similar to it under every reading - wherever in the text it stands,
    # also at the very end - and one that shares no character with it is not
    'fuzzy("store")', 'fuzzy("#123")', 'fuzzy("99", 0.9)', 'fuzzy(description, "STORE", 1.0)', 'fuzzy("qqq")', 'fuzzy("alfa") and not fuzzy("qqqq", 0.5)',
    'fuzzy(source, "ard")', 'fuzzy("e #123", 0.95) or fuzzy("9 store")',
    # positions count from the end when negative, as in Python (and fail beyond either end)
    'orders[-1].item if orders else "-"', '[r.item for r in orders if r.n > 0][-1] if orders else "-"', 'description[-1] if description else "-"',
    '(m := [r.n for r in orders]) and m[-1] == m[len(m) - 1]', '[r.n for r in orders][-%(k)d - 1]', 'description[-%(k)d - 2]', 'orders[-1].n + orders[0].n',
    # the FIRST element decides, whatever it is: 0, false and "" are elements like any other, not "nothing found"
    'next((r.n - 1 for r in orders), %(n)s)',
    'next((r.n - %(k)d - 1 for r in orders if r.n > %(k)d), 9)',
    'next((r.item == "zzz" for r in orders), true)',
    'next((trim("  ") for r in orders), "none")',
    'next((r.amount * 0 for r in orders if r.n > %(k)d), lim)',
    '[r.item for r in orders][%(k)d] if len(orders) > %(k)d else "-"',
    'any(r.n == %(k)d for r in orders) and all(r.amount > 0 for r in orders)',
    'max(r.amount for r in orders) if orders else 0',
    'sum([r.amount for r in orders], 0) / (len(orders) or 1)',
    '(r := 7) + sum(r.n for r in orders) + r',
    # a filter that rejects rows while the loop variable shadows an outer binding, which is read again afterwards
    '(x := %(n)s) + len([x for x in orders if x.n > 1]) + x',
    '(r := 7) + sum(r.n for r in orders if r.n > %(k)d) + r',
    '(r := 7) + sum(r.n for r in orders if r.n < 2) + r',
    '[len([r for r in orders if r.n > 1]) + r.n for r in orders]',
    'sum(len([r for r in orders if r.amount > lim]) + r.n for r in orders)',
    '[[r.item, [r.n for r in orders if r.n != %(k)d]] for r in orders]',
    'any(all(r.n > 5 for r in orders if r.n > 1) and r.n == 2 for r in orders)',
    '[b.n for a in orders if a.n > 1 for b in orders if b.n < a.n]',
    'sum(a.n for a in orders if a.n > 1 for a in orders if a.n < 2)',
]


def gen_scope(rnd):
    return rnd.choice(SCOPE_TEMPLATES) % {'n': rnd.choice(['0', '5', 'lim', 'month']), 'k': rnd.randrange(3)}


def gen_rowcond(rnd, d):
    return rnd.choice(['r.amount > lim', 'r.amount == txn.amount', 'r.n > %d' % rnd.randrange(3), 'contains(r.item, "dg")',
                       'r.item == "widget"', 'true', 'r.amount < amount', 'r.n %% 2 == %d' % rnd.randrange(2)])


REGEXES = ['al.a', '^aplpay', 'store$', 'st.re', '\\\\d+', '#\\\\d+', 'alfa\\\\s+store', 'alfa\\\\s*store', '\\\\bstore\\\\b',
           'alfa(?! store)', 'a.*e', '\\\\w+ \\\\w+', 'x?alfa', '(alfa|zulu)', 'z+', 'proj:\\\\w+', '^\\\\s*proj',
           # the same texts with the escape classes in the other letter case: different patterns
           '\\\\D+', '#\\\\D+', 'alfa\\\\S+store', 'alfa\\\\S*store', '\\\\Bstore\\\\B', '\\\\W+ \\\\W+', 'proj:\\\\W+', '^\\\\S*proj']
GROUP_REGEXES = ['#(\\\\d+)', '(al.a)', 'proj:(\\\\w+)', '(\\\\w+)$', '^(\\\\w+)', '(alfa|zulu) store', 'store (\\\\d+)', '(\\\\d+)',
                 '#(\\\\D+)', 'proj:(\\\\W+)', '(\\\\W+)$', '^(\\\\W+)', 'store (\\\\D+)', '(\\\\D+)']
NONEMPTY_REGEXES = ['^aplpay\\\\s+', '\\\\d', '\\\\s+', 'a', 'store', '#\\\\d+', '[', 'al.a', '^aplpay\\\\S+', '\\\\D', '\\\\S+', '#\\\\D+']


REAL_ENVS = ENVS + [
    dict(txn={'description': 'Alfa-Store WA 99', 'amount': 2.5, 'date': datetime.date(2023, 6, 15),
              'field': {'kind': 'ach', 'memo': 'proj:zz top'}, 'source': 'CARD', 'location': 'wa'},
         vars={'big': 0, 'lim': 2.5}, rows={'orders': ENVS[0]['rows']['orders'] + [{'item': 'gadget', 'amount': 2.5, 'n': 3}], 'nolines': []}),
]


def harvest_corpus():
    """Expression strings that appear in the repository's own documentation, examples and tests."""
    from tally import expr_parser as EP
    found = set()
    files = glob.glob(os.path.join(core.REPO, 'tests', 'test_expr*.py')) + glob.glob(os.path.join(core.REPO, 'tests', 'test_merchant_engine.py')) + \
        [os.path.join(core.repo_src(), 'tally', 'commands', 'reference.py')] + glob.glob(os.path.join(core.REPO, 'config', '*.example')) + \
        glob.glob(os.path.join(core.REPO, 'docs', '*.md'))
    for f in files:
        try:
            textf = open(f, encoding='utf8').read()
        except OSError:
            continue
        for m in re.finditer(r'(?:match|let|field|filter):\s*(?:\w+\s*=\s*)?(.+)', textf):
            found.add(m.group(1).strip().rstrip('"\'').strip())
        for m in re.finditer(r'(?:evaluate_transaction|matches_transaction)\(\s*(?:r?\'([^\']+)\'|r?"([^"]+)")', textf):
            found.add(m.group(1) or m.group(2))
    ok = []
    for s in sorted(found):
        if len(s) > 200 or '\\n' in s:
            continue
        try:
            EP.parse_expression(s)
            ok.append(s)
        except Exception:
            pass
    return ok


# ---- laws replayed on the real evaluator with values the rational model does not have: floats that carry rounding noise ----
NOISY = [('amount + 0.2', '0.3', {'amount': 0.1}), ('amount * 3', '0.3', {'amount': 0.1}), ('amount - 99.99', '0.01', {'amount': 100.0}),
         ('sum(r.amount for r in orders)', 'txn.amount', {'amount': 0.3, 'orders': [0.1, 0.2]}), ('amount / 3 * 3', 'amount', {'amount': 0.7}),
         ('amount', 'amount + 0.0000000001', {'amount': 5.0}), ('amount', '5', {'amount': 5.0}), ('amount * 1.1', '5.5', {'amount': 5.0}),
         ('amount + 0.1', '0.3', {'amount': 0.2}), ('1.15 * 100', '115', {'amount': 1.0}), ('amount', '12.5', {'amount': 12.5})]


def float_laws():
    """MC_Expr!EqNeComplement (and Commute for ==) on the real code: whatever == answers, the equivalent rewritings answer the same."""
    from tally import expr_parser as EP
    fails, n = [], 0
    for a, b, envd in NOISY:
        txn = {'description': 'X', 'amount': envd['amount']}
        ds = {'orders': [{'amount': x} for x in envd.get('orders', [])]}
        forms = {'eq': '%s == %s' % (a, b), 'eq-swapped': '%s == %s' % (b, a), 'not-ne': 'not (%s != %s)' % (a, b),
                 'le-and-ge': '(%s <= %s) and (%s >= %s)' % (a, b, a, b), 'not-lt-not-gt': 'not (%s < %s) and not (%s > %s)' % (a, b, a, b)}
        vals = {}
        for k, src in forms.items():
            n += 1
            try:
                vals[k] = bool(EP.evaluate_transaction(src, dict(txn), {}, ds))
            except EP.ExpressionError as ex:
                vals[k] = 'err'
        if len(set(vals.values())) > 1:
            fails.append(({'site': 'evaluate_transaction', 'clause': 'law-EqNeComplement'}, {'a': a, 'b': b, 'env': envd, 'values': vals},
                          'equivalent rewritings of %s == %s (amount %s) disagree: %s' % (a, b, envd['amount'], vals)))
    return n, fails


def record_and_validate(item):
    seed, n, corpus = item
    rnd = random.Random(seed)
    exprs = list(corpus)
    for _ in range(n):
        exprs.append(gen_scope(rnd) if rnd.random() < 0.12 else gen_expr(rnd, rnd.choice('bbbnsl'), rnd.randint(1, 4)))
    recs, srcs = [], {}
    unrep = 0
    for k, src in enumerate(exprs):
        try:
            a = X.abstract_expr(src)
        except (X.Unrepresentable, SyntaxError):
            unrep += 1
            continue
        for ei, env in enumerate(REAL_ENVS):
            if k >= len(corpus) and rnd.random() < 0.5:
                continue
            obs = real_eval(src, env)
            if obs is None:
                unrep += 1
                continue
            rid = 'x%d_%d_%d' % (seed, k, ei)
            try:
                aenv = X.abstract_env(env['txn'], env['vars'], env['rows'])
            except X.Unrepresentable:
                unrep += 1
                continue
            recs.append({'id': rid, 'kind': 'eval', 'ast': a, 'env': aenv, 'obs': obs})
            srcs[rid] = (src, ei)
    tam = None
    for r in recs:
        if r['obs']['t'] == 'bool':
            tam = json.loads(json.dumps(r))
            tam['id'] = 'TAMPER'
            tam['obs']['v'] = not tam['obs']['v']
            tam_of = r['id']
            break

    class Shim:
        def add_tlc(self, name, res):
            self.res = res
            if res.error:
                raise core.Machinery('Trace_Expr failed: ' + res.error[-2000:])
    sh = Shim()
    rej = run_trace_spec(sh, 'Trace_Expr', recs + ([tam] if tam else []), module='Trace_Expr', cfg='Trace_Expr.cfg', timeout=3000)
    skipped = tlc.extract_tagged(sh.res.stdout, 'SKIPPED')[-1][1]
    # the flipped record must be rejected - unless the record it was made from is itself rejected (then the flip may be right)
    tamper_ok = tam is None or 'TAMPER' in rej or tam_of in rej
    rej.pop('TAMPER', None)
    skipped = [s for s in skipped if s != 'TAMPER']
    out = []
    byid = {r['id']: r for r in recs}
    for rid, cl in rej.items():
        src, ei = srcs[rid]
        out.append((src, ei, sorted(cl), byid[rid]['obs']))
    return len(recs), len(skipped), unrep, out, sh.res, tamper_ok, sorted({srcs[r['id']][0] for r in recs})[:20000]


def run(ck):
    quick = ck.tier == 'quick'
    ck.assumptions += ['text is ASCII-cased (records with other cased letters are skipped and counted); numbers are small rationals',
                       'regular expressions inside the fragment of Regex.tla; fuzzy(), float rounding, str() of floats/dates, '
                       'sequence repetition and % formatting are outside the specification (counted as skipped, never judged)',
                       'Regex.tla itself is validated against Python re on the same fragment (kind "regex" records, C14)']
    tmp = tempfile.mkdtemp(prefix='c04_')
    try:
        # 1. spec -> code: depth-1 universe completely, depth-2 universe model-checked and sampled for replay
        dump = os.path.join(tmp, 'q.dump')
        res = tlc.run('MC_Expr', 'MC_Expr_quick.cfg', dump=dump)
        ck.expect_model_ok('MC_Expr/depth1', res)
        outs = par.map_dump(dump, replay_states, extra=(ck.seed,))
        os.unlink(dump)
        dump = os.path.join(tmp, 'd.dump')
        res = tlc.run('MC_Expr', 'MC_Expr_deep1.cfg' if quick else 'MC_Expr_deep.cfg', dump=dump, timeout=3000)
        ck.expect_model_ok('MC_Expr/depth2', res)
        outs += par.map_dump(dump, replay_states, extra=(ck.seed,), sample=(1, 8) if quick else (1, 2), seed=ck.seed, shards=256)
        os.unlink(dump)
    finally:
        import shutil
        shutil.rmtree(tmp, ignore_errors=True)
    for n, nontriv, fails, sample in outs:
        ck.case(n=n)
        ck.trace(n)
        ck.extra['replayed_depth_ge1'] = ck.extra.get('replayed_depth_ge1', 0) + nontriv
        for j in range(nontriv):
            ck.case(('replayed', len(ck.nontrivial)), nontrivial=True, n=0)
        for sig, case, what in fails:
            ck.violation(sig, case, what)
        if sample:
            ck.sample(sample, cap=3)
    n_law, law_fails = float_laws()
    ck.case(n=n_law)
    ck.trace(n_law)
    for sig, case, what in law_fails:
        ck.violation(sig, case, what)
    # 2. code -> spec
    corpus = harvest_corpus()
    ck.extra['corpus_expressions_from_repo'] = len(corpus)
    shards = 4 if quick else 16
    per = 400 if quick else 4000
    items = [(ck.seed * 100 + s, per, corpus if s == 0 else []) for s in range(shards)]
    total_skip = 0
    for nrec, nskip, unrep, rejected, tlcres, tamper_ok, some in par.pmap(record_and_validate, items):
        ck.add_tlc('Trace_Expr', tlcres)
        if not tamper_ok:
            raise core.Machinery('Trace_Expr accepted a tampered record')
        ck.case(n=nrec)
        ck.trace(nrec - nskip)
        total_skip += nskip
        ck.extra['unrepresentable'] = ck.extra.get('unrepresentable', 0) + unrep
        for s in some:
            ck.case(s, nontrivial=True, n=0)
        ck.sample({'recorded_expression': some[len(some) // 2] if some else None}, cap=5)
        for src, ei, clauses, obs in rejected:
            raw = obs.get('t') == 'raw'
            ck.violation({'site': 'evaluate_transaction', 'clause': 'raw-exception' if raw else 'value',
                          'exc': obs.get('exc'), 'how': clauses[0]},
                         {'expr': src, 'env': ei, 'observed': obs, 'clauses': clauses},
                         'recorded evaluation of %r (environment %d) rejected by Trace_Expr: %s; code gave %s' % (src, ei, clauses, obs))
    ck.extra['skipped_outside_spec'] = total_skip
    ck.extra['rule'] = ('MC: every expression built from 50 typed atoms by one (quick: all 4 environments) or two (sampled) applications '
                        'of the language constructs, printed to source in two spellings and evaluated by the real evaluator; traces: '
                        'expressions harvested from the repository plus seeded random well-typed expressions of depth <= 4 over 5 '
                        'transactions. non-trivial = distinct recorded expression / replayed expression of depth >= 1')
    ck.exhaustive = False


def replay(ck, path):
    case = json.load(open(path))['case']
    env = REAL_ENVS[case['env'] - 1] if 'expected' in case else REAL_ENVS[case['env']]
    print(case['expr'], '->', real_eval(case['expr'], env), 'expected', case.get('expected'))
