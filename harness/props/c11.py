"""C11 – tally up honours every setting: report = totals(classify(parse(sources))) (spec modules Pipeline, MC_Pipeline).
Also provides the budget materialisation used by C16."""
import json
import os
import random
import shutil
import tempfile

import cli
import core
import par
import rows_conc as RC
import simtrace
import tlc
from props.c12 import decode_html
from props.engine_common import plain

# two transforms: the first cannot be evaluated for any of these statements (no {memo} column) and is skipped ON ITS OWN
XFORM_LINE = ('field.memo = trim(field.memo)\n'
              'field.description = regex_replace(field.description, "^APLPAY\\\\s+", "")\n')
RULES_TEXT = '''# budget rules
[Wallet]
match: startswith("APLPAY")
category: Shopping
subcategory: Grocery

[Alfa]
match: contains("ALFA")
category: Food
subcategory: Grocery
tags: ta

[Alfa Big]
match: contains("ALFA") and amount > 1000
category: Big

[Refunds]
match: amount < 0
tags: refund

[Payroll]
match: contains("PAYROLL")
category: Income
subcategory: Salary
tags: income

[Matched]
match: any(r.amount == txn.amount for r in orders)
tags: matched

[Split]
match: contains("SPLIT") and amount > 1000
category: Shopping
subcategory: Wholesale

[Split]
match: contains("SPLIT")
category: Food
subcategory: Grocery
'''
CSV_TEXT = '''Pattern,Merchant,Category,Subcategory,Tags
ALFA,Alfa,Food,Grocery,ta
ALFA[amount>1000],Alfa Big,Big,,
PAYROLL,Payroll,Income,Salary,income
SPLIT[amount>1000],Split,Shopping,Wholesale,
SPLIT,Split,Food,Grocery,
'''
DECOY_RULES = '# starter rules (not referenced by settings.yaml)\n[Example Store]\nmatch: contains("ALFA") or contains("SPLIT") or contains("PAYROLL")\ncategory: Decoy\nsubcategory: Starter\n'
DECOY_VIEWS = '[Everything]\nfilter: total > -1000000\n'
VIEWS_CORRUPT = '[Food]\nfilter: category == "Food"\n\n[Costly\nfilter: total > 1000\n'
CURRENCY = {'absent': '${amount}', 'usd': '${amount}', 'eur': '\u20ac{amount}', 'zl': '{amount} zl'}
WARNING_TEXT = {'invalid-rule-mode': 'Invalid rule_mode', 'merchants-file-not-found': 'Merchants file not found',
                'views-file-not-found': 'Views file not found', 'views-error': 'Error loading views',
                'removed-settings': 'have been removed'}
VIEWS_TEXT = '[Food]\nfilter: category == "Food"\n\n[Costly]\nfilter: total > 1000\n'
RULE_NAMES = {1: 'Alfa', 2: 'Alfa Big', 3: 'Refunds', 4: 'Payroll', 5: 'Matched', 6: 'Wallet', 7: 'Split', 8: 'Split'}
TABLES = {'f1': [('d1', 'A', 'p1250'), ('bad30', 'A', 'p1250'), ('d2', 'Bp', 'm3'), ('d1', 'A', 'thou'), ('d2', 'pay', 'big'),
                 ('d1', 'apA', 'p1250'), ('d2', 'apX', 'plus7')],
          'f2': [('i1', 'A', 'p1250'), ('i2', 'Bp', 'paren3'), ('i1', 'uni', 'zero'), ('i2', 'A', 'thou'),
                 ('i2', 'apA', 'thou'), ('i1', 'apX', 'cur5')]}
DELIM = {'comma': ',', 'semicolon': ';', 'tab': 'tab'}


SPLIT_ROWS = {'f1': [('d2', 'spl', 'thou'), ('d1', 'spl', 'p1250')], 'f2': [('i2', 'spl', 'thou'), ('i1', 'spl', 'p1250')]}


def table_for(layout, split=False):
    k = 'f2' if layout == 'L2' else 'f1'
    rows = TABLES[k] + (SPLIT_ROWS[k] if split else [])
    return [{'date': d, 'desc': x, 'cap2': 'k', 'amt': a, 'loc': 'loc', 'extra': 'k', 'shape': 'ok'} for d, x, a in rows]


def materialise_budget(root, b, rnd):
    files = {}
    srcs = []
    for si, s in enumerate(b['sources']):
        fn = 'data/%s%d.csv' % (s['name'].lower(), si + 1)        # two sources may have the same name: one file each
        if (si + len(b['sources']) + len(str(b.get('cur'))) + len(str(b.get('mode'))) + len(str(b.get('rules')))) % 3 == 0:
            # a file NAME is not a pattern: brackets, stars and question marks in it are ordinary characters of the path
            fn = 'data/%s [%d] (x1) st*r.csv' % (s['name'].lower(), 4320 + si)
        delim = DELIM[s['delim']]
        # "the amounts of this source are negated" has two spellings: {-amount} in the format string, or negate_amount: true
        negkey = s['sign'] == 'negate' and b.get('_negkey')
        lines = ['  - name: %s' % s['name'], '    file: %s' % fn,
                 '    format: "%s"' % RC.format_string(s['layout'], 'plain' if negkey else s['sign'])]
        # YAML has several spellings for a boolean (true / yes / on, false / no / off, in any letter case): settings.yaml is YAML
        yes = ('true', 'yes', 'on', 'True', 'YES')[(si + len(b['sources']) + len(str(b.get('cur')))) % 5]
        no = ('false', 'no', 'off', 'False', 'No')[(si + len(b['sources']) + len(str(b.get('mode')))) % 5]
        if negkey:
            lines.append('    negate_amount: ' + yes)
        elif s['sign'] == 'plain' and (si + len(str(b.get('rules')))) % 4 == 1:
            lines.append('    negate_amount: ' + no)              # said explicitly: the amounts of this source are NOT negated
        if (si + len(b['sources']) + len(s['layout'])) % 3 == 1:
            # a leftover of the deprecated way to describe a source, next to the format string that replaced it: the format decides
            lines.insert(2, '    type: %s' % ('amex', 'boa', 'csv')[(si + len(s['name'])) % 3])
        if s['dec'] == 'comma':
            lines.append('    decimal_separator: ","')
        if not s['header']:
            lines.append('    has_header: ' + no)
        if delim != ',':
            # a tab-separated source has two spellings: the keyword tab, or the character itself ("\t" in a double-quoted YAML scalar)
            lines.append('    delimiter: "%s"' % ('\\t' if delim == 'tab' and (si + len(s['name']) + len(b['sources'])) % 2 else delim))
        srcs.append('\n'.join(lines))
        if s['status'] == 'unreadable':
            files[fn + '/'] = None              # the configured path exists, but it is a directory
        if s['status'] == 'present':
            import csv as _csv
            files[fn] = RC.render(table_for(s['layout'], b.get('split', False)), s['layout'], s['dec'], delim, s['header'], _csv.QUOTE_MINIMAL, '\n')
    if b['supp']:
        srcs.append('  - name: orders\n    file: data/orders.csv\n    format: "{date:%m/%d/%Y},{item},{amount}"\n    columns:\n      description: "{item}"\n    supplemental: true')
        files['data/orders.csv'] = 'Date,Item,Amount\n01/04/2025,Widget,12.50\n01/09/2025,Gadget,"1,234.56"\n'
        if rnd.random() < 0.5:
            # an export in a legacy 8-bit encoding: one byte that is not UTF-8 in an item name does not make the source unusable
            files['data/orders.csv'] = b'Date,Item,Amount\n01/04/2025,Caf\xe9 Widget,12.50\n01/09/2025,Gadget \x96 large,"1,234.56"\n'
    settings = ('year: 2024\n' if b.get('year') == 'y2024' else '') + 'data_sources:\n' + '\n'.join(srcs) + '\n'
    if b.get('out') == 'custom':
        settings += 'output_dir: reports\nhtml_filename: summary.html\n'
    # The settings NAME the rule / views files (paths relative to the budget folder).  Every other budget keeps them in the budget
    # folder itself - with same-named DECOYS (a starter-like rules file, a catch-all view) in config/, where the files usually
    # are: only the named files count.
    at_root = (len(b['sources']) + int(bool(b['supp'])) + int(bool(b.get('split'))) + int(bool(b.get('xform')))) % 2 == 1 and not b.get('mfMissing')
    mf = 'merchants.rules' if at_root else 'config/merchants.rules'
    vfn = 'views.rules' if at_root else 'config/views.rules'
    if b['rules'] == 'rules':
        settings += 'merchants_file: %s\n' % mf
        if b.get('mfMissing'):
            files['config/merchant_categories.csv'] = CSV_TEXT       # a legacy file lying next to the dangling key: not to be used
        else:
            files[mf] = (XFORM_LINE + '\n' if b.get('xform') else '') + RULES_TEXT
            if at_root:
                files['config/merchants.rules'] = DECOY_RULES
    elif b['rules'] == 'csv':
        files['config/merchant_categories.csv'] = CSV_TEXT
    if b.get('modeBogus'):
        settings += 'rule_mode: fastest\n'
    elif b['mode'] == 'most_specific':
        settings += 'rule_mode: most_specific\n'
    if b['views']:
        settings += 'views_file: %s\n' % vfn
        if b.get('vf', 'ok') == 'ok':
            files[vfn] = VIEWS_TEXT
        elif b['vf'] == 'corrupt':
            files[vfn] = VIEWS_CORRUPT
        if at_root and b.get('vf', 'ok') != 'missing':
            files['config/views.rules'] = DECOY_VIEWS
    if b.get('removed'):
        settings += 'home_state: WA\ntravel_labels:\n  CA: California\n'
    if b.get('cur', 'absent') != 'absent':
        settings += 'currency_format: "%s"\n' % CURRENCY[b['cur']]
    files['config/settings.yaml'] = settings
    cli.materialise(root, files)
    return settings


def expected(b, rep):
    """Spec report -> what the decoded HTML data must contain."""
    txns = []
    for t in rep['txns']:
        tags = sorted(t['tags'])
        cents = t['cents']
        eff = abs(cents) if ('income' in tags or 'investment' in tags) else cents
        d = t['date']
        # the report shows the classification of the MERCHANT (its last transaction), not of each transaction
        cat, sub = (t['shown']['cat'], t['shown']['sub']) if 'shown' in t else (t['cat'], t['sub'])
        txns.append({'source': t['src'], 'description': RC.TEXTS[t['desc']][1], 'amount': eff / 100.0, 'month': '%04d-%02d' % (d[0], d[1]),
                     'tags': tags, 'category': cat, 'subcategory': sub if cat != 'Unknown' else 'Unknown',
                     'merchant': RULE_NAMES[t['rule']] if t['rule'] else None})
    flows = {k: v / 100.0 for k, v in rep['flows'].items()}
    return txns, flows


def observed(data):
    txns = []
    for cname, cat in data['categoryView'].items():
        for sname, sub in cat['subcategories'].items():
            for m in sub['merchants'].values():
                for x in m['transactions']:
                    txns.append({'source': x['source'], 'description': x['description'], 'amount': x['amount'], 'month': x['month'],
                                 'tags': sorted(x['tags']), 'category': m['category'], 'subcategory': m['subcategory'], 'merchant': m['displayName']})
    flows = {'income': data['incomeTotal'], 'investment': data['investmentTotal'], 'transfer_in': data['transfersIn'],
             'transfer_out': data['transfersOut'], 'spending': data['spendingTotal'], 'credits': data['creditsTotal']}
    return txns, flows


def key(t, with_merchant=True):
    return (t['source'], t['description'], round(t['amount'], 2), t['month'], tuple(t['tags']), t['category'], t['subcategory'],
            t['merchant'] if (with_merchant and t['category'] != 'Unknown') else None)


def run_budget(b, rep, seed, want_json=False):
    """Materialise, run the real `tally up`, return (diffs, observed-by-source, raw)."""
    rnd = random.Random(seed)
    d = tempfile.mkdtemp(prefix='c11_')
    try:
        settings = materialise_budget(d, b, rnd)
        r = cli.run_tally(['up'], cwd=d)
        etx, eflows = expected(b, rep)
        out_dir, out_name = (rep.get('cfg') or {}).get('out') or ['output', 'spending_summary.html']
        html = os.path.join(d, out_dir, out_name)
        diffs = []
        obs_by_src = {}
        if not etx:
            if r['rc'] == 0:
                diffs.append(('no-transactions-but-success', 'no source has a readable transaction yet tally up succeeded'))
            return diffs, obs_by_src, {'settings': settings, 'rc': r['rc']}
        if r['rc'] != 0 or not os.path.exists(html):
            diffs.append(('tally-up-fails', 'rc=%s %s' % (r['rc'], r['err'][-300:])))
            return diffs, obs_by_src, {'settings': settings, 'rc': r['rc'], 'out': r['out'][-500:]}
        data = decode_html(open(html, encoding='utf-8').read())
        otx, oflows = observed(data)
        for t in otx:
            obs_by_src.setdefault(t['source'], []).append(key(t))
        ek = sorted(key(t) for t in etx)
        ok_ = sorted(key(t) for t in otx)
        if ek != ok_:
            missing = [x for x in ek if x not in ok_][:2]
            extra = [x for x in ok_ if x not in ek][:2]
            feature = 'count' if len(ek) != len(ok_) else ('classification' if sorted(x[:4] for x in ek) == sorted(x[:4] for x in ok_) else 'reading')
            diffs.append(('transactions-' + feature, 'expected but absent %s; present but unexpected %s' % (missing, extra)))
        for k_ in eflows:
            if abs(eflows[k_] - oflows[k_]) > 0.005:
                diffs.append(('flow-' + k_, 'report says %s = %s, specified %s' % (k_, oflows[k_], eflows[k_])))
                break
        for s in b['sources']:
            if s['status'] == 'missing' and ('%s: File not found' % s['name']) not in r['out']:
                diffs.append(('missing-source-not-reported', 'source %s is missing but the output does not say so' % s['name']))
            if s['status'] == 'unreadable' and ('%s: Error' % s['name']) not in r['out']:
                diffs.append(('unreadable-source-not-reported', 'source %s cannot be read but the output does not say so' % s['name']))
        cfg = rep.get('cfg')
        if cfg:
            if data.get('year') != cfg['year'] or ('Tally - %d' % cfg['year']) not in r['out']:
                diffs.append(('year', 'report year %r / headline, settings say %r' % (data.get('year'), cfg['year'])))
            if [out_dir, out_name] != ['output', 'spending_summary.html'] and os.path.exists(os.path.join(d, 'output', 'spending_summary.html')):
                diffs.append(('output-path', 'a report was also written to the default output/spending_summary.html'))
            if data.get('currencyFormat') != CURRENCY[cfg['currency']]:
                diffs.append(('currency', 'report carries currencyFormat %r, settings say %r' % (data.get('currencyFormat'), CURRENCY[cfg['currency']])))
            for w, text in WARNING_TEXT.items():
                if (w in cfg['warnings']) != (text in r['err']):
                    diffs.append(('warning-' + w, 'setting problem %s: %s' % (w, 'not reported' if w in cfg['warnings'] else 'reported although nothing is wrong')))
        if (cfg['views'] if cfg else b['views']):
            food = sorted({t['merchant'] for t in otx if t['category'] == 'Food' and not ({'income', 'transfer', 'investment'} & set(t['tags']))})
            secs = {s_['title']: sorted(m['displayName'] for m in s_['merchants'].values()) for s_ in data['sections'].values()}
            if secs.get('Food', []) != food:
                diffs.append(('views', 'view Food lists %s, merchants with category Food are %s' % (secs.get('Food'), food)))
        elif data['sections']:
            diffs.append(('views', 'sections present although no views file is configured'))
        if want_json and cfg and not cfg['views']:
            # the text summary prints the cash-flow lines in the configured currency format
            sm = cli.run_tally(['up', '--format', 'summary'], cwd=d)
            for label, keyf in (('Income:', 'income'), ('Spending:', 'spending')):
                line = next((l for l in sm['out'].splitlines() if l.startswith(label)), None)
                cents = rep['flows'][keyf]
                lo, hi = cents // 100, -(-cents // 100)
                ok_texts = {CURRENCY[cfg['currency']].format(amount='{:,}'.format(v)) for v in (lo, hi)} if cents % 100 == 50 else \
                    {CURRENCY[cfg['currency']].format(amount='{:,}'.format((cents + 50) // 100))}
                if line is None or line.split(None, 1)[1].strip().lstrip('+-').strip() not in ok_texts:
                    diffs.append(('summary-currency', 'text summary line %r, expected %s %s' % (line, label, sorted(ok_texts))))
        if want_json and cfg and cfg['rules'] == 'csv' and rep.get('migrating'):
            # the run that migrates the legacy CSV classifies with the new merchants.rules under the configured rule mode
            mg = cli.run_tally(['up', '--migrate', '--format', 'json', '-v', '-q'], cwd=d)
            mjs = cli.parse_json_out(mg['out'])
            if mg['rc'] != 0 or mjs is None:
                diffs.append(('migrating-run-fails', 'rc=%s %s' % (mg['rc'], mg['err'][-200:])))
            else:
                want_m = {}
                for t in rep['migrating']:
                    if t['rule']:
                        w = want_m.setdefault(RULE_NAMES[t['rule']], [t['shown']['cat'], t['shown']['sub'], 0])
                        w[2] += 1
                got_m = {m['name']: [m['category'], m['subcategory'], m['count']] for m in mjs['merchants'] if m['category'] != 'Unknown'}
                if got_m != want_m:
                    diffs.append(('migrating-run-classification', '`tally up --migrate` reports %s, the migrated rules under rule mode %s give %s' % (
                        got_m, cfg['mode'], want_m)))
        if want_json:
            j = cli.run_tally(['up', '--format', 'json', '-v', '-q'], cwd=d)
            js = cli.parse_json_out(j['out'])
            if j['rc'] != 0 or js is None:
                diffs.append(('json-fails', 'rc=%s' % j['rc']))
            else:
                n = sum(m['count'] for m in js['merchants'])
                if n != len(etx):
                    diffs.append(('json-count', 'json reports %d transactions, specified %d' % (n, len(etx))))
        return diffs, obs_by_src, {'settings': settings, 'rc': r['rc']}
    finally:
        shutil.rmtree(d, ignore_errors=True)


def walk_worker(item):
    name, states, seed = item
    out = []
    prev = None
    for k, st in enumerate(states):
        b = plain(st['b'])
        rep = plain(st['rep'])
        diffs, obs_by_src, raw = run_budget(b, rep, seed + k, want_json=(k % 3 == 0))
        meta = []
        if prev is not None:
            pb, pobs = prev
            # metamorphic on the real outputs: a step that changed one source left the others' transactions alone
            if len(pb['sources']) == len(b['sources']) and pb['rules'] == b['rules'] and pb['mode'] == b['mode'] and pb['supp'] == b['supp'] and pb.get('xform') == b.get('xform'):
                changed = [i for i in range(len(b['sources'])) if pb['sources'][i] != b['sources'][i]]
                if len(changed) == 1 and len({s['name'] for s in b['sources']}) == len(b['sources']):
                    for s in b['sources']:
                        if s['name'] != b['sources'][changed[0]]['name'] and sorted(pobs.get(s['name'], [])) != sorted(obs_by_src.get(s['name'], [])) \
                                and pobs and obs_by_src:
                            meta.append(('other-source-changed', 'changing %s of source %s changed the transactions of %s' % (
                                [f for f in s if pb['sources'][changed[0]].get(f) != b['sources'][changed[0]].get(f)], b['sources'][changed[0]]['name'], s['name'])))
        out.append((b, diffs + meta, raw))
        prev = (b, obs_by_src)
    return name, out


def config_worker(states):
    """MC_Config states (every settings record) -> a real budget directory each -> config_loader.load_config, compared with
    Config!Effective.  Files that exist but are not referenced are materialised too: they must be ignored."""
    from tally.config_loader import load_config
    out = []
    for st in states:
        s, eff = plain(st['s']), plain(st['eff'])
        d = tempfile.mkdtemp(prefix='c11cfg_')
        try:
            y = ('year: 2024\n' if s['year'] == 'y2024' else '') + ('output_dir: reports\nhtml_filename: summary.html\n' if s['out'] == 'custom' else '') + 'data_sources:\n  - name: Card\n    file: data/card.csv\n    format: "{date:%m/%d/%Y},{description},{amount}"\n'
            files = {'data/card.csv': 'Date,Description,Amount\n01/05/2025,ALFA STORE,12.50\n'}
            if s['modeKey'] != 'absent':
                y += 'rule_mode: %s\n' % ('fastest' if s['modeKey'] == 'bogus' else s['modeKey'])
            if s['mfKey']:
                y += 'merchants_file: config/merchants.rules\n'
            if s['mfFile']:
                files['config/merchants.rules'] = RULES_TEXT
            if s['csvFile']:
                files['config/merchant_categories.csv'] = CSV_TEXT
            if s['vfKey']:
                y += 'views_file: config/views.rules\n'
            if s['vfFile'] != 'missing':
                files['config/views.rules'] = VIEWS_TEXT if s['vfFile'] == 'ok' else VIEWS_CORRUPT
            if s['removed']:
                y = 'home_state: WA\n' + y
            if s['cur'] != 'absent':
                y += 'currency_format: "%s"\n' % CURRENCY[s['cur']]
            files['config/settings.yaml'] = y
            cli.materialise(d, files)
            try:
                cfg = load_config(os.path.join(d, 'config'))
            except Exception as e:
                out.append((s, [('load_config-raises', repr(e))]))
                continue
            seen = set()
            for w in cfg.get('_warnings', []):
                k = next((k for k, text in WARNING_TEXT.items() if text in w.get('message', '')), None)
                seen.add(k or 'other: ' + w.get('message', '')[:60])
            obs = {'mode': cfg.get('rule_mode'), 'rules': {'new': 'rules', 'csv': 'csv', None: 'none'}.get(cfg.get('_merchants_format'), '?'),
                   'views': cfg.get('sections') is not None, 'currency': cfg.get('currency_format'), 'warnings': sorted(seen),
                   'year': cfg.get('year', 2025), 'out': [cfg.get('output_dir', 'output'), cfg.get('html_filename', 'spending_summary.html')]}
            want = {'mode': eff['mode'], 'rules': eff['rules'], 'views': eff['views'], 'currency': CURRENCY[eff['currency']],
                    'warnings': sorted(eff['warnings']), 'year': eff['year'], 'out': list(eff['out'])}
            diffs = [('config-' + k, 'load_config gives %s = %r, Config!Effective says %r' % (k, obs[k], want[k])) for k in want if obs[k] != want[k]]
            # the file a run will read must be the one the settings name
            if eff['rules'] == 'rules' and not str(cfg.get('_merchants_file', '')).endswith('merchants.rules'):
                diffs.append(('config-rules-path', 'rules file used: %r' % cfg.get('_merchants_file')))
            if eff['rules'] == 'csv' and not str(cfg.get('_merchants_file', '')).endswith('merchant_categories.csv'):
                diffs.append(('config-rules-path', 'rules file used: %r' % cfg.get('_merchants_file')))
            # `tally diag` on the same directory: the health findings and the headline values
            import argparse, contextlib, io
            from tally.commands.diag import cmd_diag
            buf = io.StringIO()
            try:
                with contextlib.redirect_stdout(buf), contextlib.redirect_stderr(io.StringIO()):
                    cmd_diag(argparse.Namespace(config=os.path.join(d, 'config'), settings='settings.yaml', format='text'))
            except SystemExit:
                pass
            except Exception as e:
                diffs.append(('diag-raises', repr(e)))
            text = buf.getvalue()
            found = set()
            for line in text.splitlines():
                if 'Legacy merchant_categories.csv found' in line:
                    found.add('legacy-csv')
                if 'config/merchants.rules exists but not in settings.yaml' in line:
                    found.add('rules-unreferenced')
                if 'No merchant rules configured' in line:
                    found.add('no-rules')
                if 'config/views.rules exists but not in settings.yaml' in line:
                    found.add('views-unreferenced')
                for key, name in (('merchants_file: config/merchants.rules', 'mf'), ('views_file: config/views.rules', 'vf')):
                    if key in line and '\u2713' in line:
                        found.add(name + '-ok')
                    if key in line and '\u2717' in line:
                        found.add(name + '-missing')
            want_diag = set(plain(st['diag']))
            if found != want_diag:
                diffs.append(('diag-findings', 'tally diag reports %s, Config!Diag says %s' % (sorted(found), sorted(want_diag))))
            heads = {'Rule mode: ' + eff['mode'], 'Currency format: ' + CURRENCY[eff['currency']],
                     'Year: ' + ('2024' if s['year'] == 'y2024' else 'not set'), 'Output dir: ' + ('reports' if s['out'] == 'custom' else 'not set')}
            missing = [h for h in heads if h not in text]
            if missing:
                diffs.append(('diag-headline', 'tally diag does not print %s' % missing))
            out.append((s, diffs))
        finally:
            shutil.rmtree(d, ignore_errors=True)
    return out


def pair_worker(item):
    b, rep, seed = item
    out = []
    variants = [b]
    if any(s['sign'] == 'negate' for s in b['sources']):
        variants.append(dict(b, _negkey=True))
    for k, bb in enumerate(variants):
        diffs, _, raw = run_budget(bb, rep, seed + k, want_json=False)
        out.append((bb, diffs, raw))
    return out


def signature(b, clause):
    return {'site': 'tally up', 'clause': clause, 'rules': b['rules'], 'mode': b['mode'], 'supp': b['supp'], 'xform': b.get('xform', False)}


def run(ck):
    quick = ck.tier == 'quick'
    ck.assumptions += ['fixed rule set (categorising, more-specific categorising, tag-only, income, supplemental-referencing) and two small '
                       'statement tables per date format; budgets differ in settings only',
                       'rule_mode applies to .rules files; legacy CSV rule files are always first-match',
                       'the report groups transactions by merchant and shows ONE classification per merchant: Pipeline!Shown (the '
                       'merchant\'s last transaction in processing order) is what is compared',
                       'per-transaction comparison through the data embedded in the HTML report (decoded by html.parser + json)']
    ck.expect_model_violation('MC_Pipeline/neg', tlc.run('MC_Pipeline', 'MC_Pipeline_neg.cfg'), 'Neg_ModeNeverMatters')
    ck.expect_model_ok('MC_Pipeline', tlc.run('MC_Pipeline', 'MC_Pipeline.cfg'))
    tmp = tempfile.mkdtemp(prefix='c11sim_')
    try:
        num = 60 if quick else 900
        sim = tlc.run('MC_Pipeline', 'MC_Pipeline_sim.cfg', simulate='file=%s/tr,num=%d' % (tmp, num), depth=9, workers=1, seed=ck.seed + 11)
        if sim.error or sim.violated:
            raise core.Machinery('MC_Pipeline simulation failed: %s %s' % (sim.error, sim.violated))
        walks = [(os.path.basename(f), states, ck.seed * 100 + i) for i, (f, (labels, states)) in enumerate(simtrace.behaviours(tmp))]
    finally:
        shutil.rmtree(tmp, ignore_errors=True)
    # Config.tla: every settings record against the real load_config
    ck.expect_model_violation('MC_Config/neg', tlc.run('MC_Config', 'MC_Config_neg.cfg'), 'Neg_CsvAlwaysUsed')
    tmp = tempfile.mkdtemp(prefix='c11cfg_')
    try:
        import tlaval
        dump = os.path.join(tmp, 'cfg.dump')
        ck.expect_model_ok('MC_Config', tlc.run('MC_Config', 'MC_Config.cfg', dump=dump))
        cstates = list(tlaval.parse_dump(dump))
    finally:
        shutil.rmtree(tmp, ignore_errors=True)
    for chunk in par.pmap(config_worker, [cstates[k:k + 40] for k in range(0, len(cstates), 40)]):
        for s_, diffs in chunk:
            ck.case(n=1)
            ck.trace(1)
            ck.case('cfg:' + json.dumps(s_, sort_keys=True), nontrivial=bool(s_['mfKey'] or s_['vfKey'] or s_['modeKey'] != 'absent'), n=0)
            for clause, detail in diffs:
                ck.violation({'site': 'load_config', 'clause': clause}, {'settings': s_, 'detail': detail},
                             'settings %s: %s' % (json.dumps(s_, sort_keys=True), detail))
    ck.extra['config_records'] = len(cstates)
    # every budget of two sources with textually identical format strings, one or two settings away from each other
    tmp = tempfile.mkdtemp(prefix='c11pairs_')
    try:
        import tlaval
        dump = os.path.join(tmp, 'pairs.dump')
        ck.expect_model_ok('MC_Pipeline/pairs', tlc.run('MC_Pipeline', 'MC_Pipeline_pairs.cfg', dump=dump))
        pairs = [(plain(st['b']), plain(st['rep']), ck.seed * 7 + i) for i, st in enumerate(tlaval.parse_dump(dump))]
    finally:
        shutil.rmtree(tmp, ignore_errors=True)
    if quick:
        pairs = [p for p in pairs if len(p[0]['sources']) == 2 and p[0]['sources'][0]['layout'] == p[0]['sources'][1]['layout']
                 and p[0]['rules'] == 'rules' and not p[0]['views']]
    ck.extra['pair_budgets'] = len(pairs)
    pair_out = [('pair', out) for out in par.pmap(pair_worker, pairs)]
    seen_settings = set()
    for name, out in list(par.pmap(walk_worker, walks)) + pair_out:
        for b, diffs, raw in out:
            ck.case(n=1)
            ck.trace(1)
            ck.case(json.dumps(b, sort_keys=True), nontrivial=len(b['sources']) == 2 or b['rules'] != 'none', n=0)
            for s in b['sources']:
                seen_settings.add((s['layout'], s['sign'], s['dec'], s['header'], s['delim'], s['status']))
            for clause, detail in diffs:
                ck.violation(signature(b, clause), {'budget': b, 'settings_yaml': raw.get('settings'), 'detail': detail, 'raw': {k: v for k, v in raw.items() if k != 'settings'}},
                             '`tally up` on budget %s: %s' % (json.dumps({k: b.get(k) for k in ('rules', 'mode', 'supp', 'views', 'xform', 'cur', 'modeBogus', 'mfMissing', 'vf', 'year', 'out', 'split', 'removed')}), detail))
    ck.extra['distinct_source_settings_exercised'] = len(seen_settings)
    ck.sample({'budget': walks[0][1] and plain(walks[0][1][-1]['b'])})
    ck.extra['rule'] = ('all 4608 settings records of Config.tla against the real load_config and `tally diag` (findings compared with Config!Diag); TLC -simulate walks over MC_Pipeline (each step changes one setting of one source - layout, sign mode, decimal separator, '
                        'header, delimiter, present/missing - or the rules kind, rule mode, supplemental source, views, description transform, currency format, a misspelt rule_mode, a dangling merchants_file, a missing / unparsable views file, or adds a source); every '
                        'budget on the walk is materialised and run through the real `tally up`; the decoded report is compared per transaction '
                        'and per flow with Pipeline!Report and consecutive budgets are compared with each other; plus (exhaustively, from the TLC state dump) every budget of two sources with the same format string that is one or two setting changes away from the identical pair, negation in both spellings. non-trivial = two sources or rules')
    ck.exhaustive = False


def replay(ck, path):
    case = json.load(open(path))['case']
    print(json.dumps(case, indent=1)[:3000])
