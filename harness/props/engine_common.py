"""Shared replay of the Engine.tla universe (MC_Engine*) into the real engine: used by C01, C02, C08, C09."""
import json
import os
import random
import tempfile

import core
import engine_conc as EC
import par
import tlaval
import tlc


def plain(x):
    """tlaval structures -> plain JSON-able python (sets -> sorted lists)."""
    if isinstance(x, tlaval.TSet):
        return sorted((plain(y) for y in x), key=lambda z: json.dumps(z, sort_keys=True))
    if isinstance(x, dict):
        return {k: plain(v) for k, v in x.items()}
    if isinstance(x, (list, tuple)):
        return [plain(y) for y in x]
    if isinstance(x, tlaval.ModelValue):
        return str(x)
    return x


def txn_order():
    """The transaction universe in the order MC_Engine!TxnSeq enumerates it is exported in the dump itself (res is
    indexed like TxnSeq); we re-derive the transactions from a dedicated dump variable instead of guessing."""
    raise NotImplementedError


def observe_engine(text, mode, txns):
    """Path P1: parse_merchants(text, mode).match(txn)."""
    from tally.merchant_engine import parse_merchants
    eng = parse_merchants(text, mode)
    out = []
    for t in txns:
        r = eng.match(dict(t, field=dict(t['field']) if t['field'] else None))
        out.append({'matched': r.matched, 'merchant': r.merchant, 'cat': r.category, 'sub': r.subcategory,
                    'tags': sorted(r.tags), 'win': r.matched_rule.name if r.matched_rule else None,
                    'subwin': r.subcategory_rule.name if r.subcategory_rule else None,
                    'matching': [x.name for x in r.all_matching_rules]})
    return out


def observe_normalize(path, mode, txns, with_transforms=True, other_mode_first=False):
    """Path P2/P3: get_all_rules(path, mode) + normalize_merchant (cached engine for .rules, legacy loop for .csv).
    other_mode_first: the same unchanged file was loaded under the OTHER rule mode earlier in this process (a rule mode is an
    argument of every load, not a property of the file)."""
    from tally.merchant_utils import get_all_rules, get_transforms, normalize_merchant
    if other_mode_first:
        get_all_rules(path, match_mode='first_match' if mode == 'most_specific' else 'most_specific')
    rules = get_all_rules(path, match_mode=mode)
    transforms = get_transforms(path, match_mode=mode) if with_transforms else None
    out = []
    for t in txns:
        m, c, s, info = normalize_merchant(t['description'], rules, amount=t['amount'], txn_date=t['date'],
                                           field=dict(t['field']) if t['field'] else None, data_source=t['source'],
                                           transforms=transforms, location=t['location'])
        out.append({'merchant': m, 'cat': c, 'sub': s, 'tags': sorted((info or {}).get('tags', [])),
                    'pattern': (info or {}).get('pattern')})
    return out


def expected_for(f, o, v=None):
    """Spec observation o (cat, sub, tags, win, subwin ids) -> concrete expectation."""
    rules = {r['id']: r for r in f['rules']}
    exp = {'tags': sorted('px1' if t == 'dynv' else t for t in o['tags'])}
    if o['win'] == 'none':
        exp.update(matched=False, cat=None, sub=None, merchant=None, win=None)
    else:
        w = rules[o['win']]
        exp.update(matched=True, cat=EC.CATS[o['cat']], sub=EC.SUBS.get(o['sub'], ''), merchant=EC.expected_merchant(w, v),
                   win=EC.rule_name(w, v))
    exp['subwin'] = None if o['subwin'] == 'none' else EC.rule_name(rules[o['subwin']], v)
    return exp


def replay_states(states, seed, judge_name, tier):
    """Worker: for every exported state concretise (canonical + one seeded variant), run the real paths, and hand
    (file, txn, expected, observed-per-path) to the property's judge.  Returns counters and failures."""
    from props import engine_judges
    judge = getattr(engine_judges, judge_name)
    rnd = random.Random(seed)
    tmpdir = tempfile.mkdtemp(prefix='eng_')
    n_eval = 0
    nontriv = set()
    fails = []
    sample = None
    try:
        for st in states:
            f = plain(st['f'])
            if not f['rules']:
                continue
            res = plain(st['res'])
            txns_abs = plain(st['txns']) if 'txns' in st else None
            mode = f['mode']
            variants = [EC.Variant(canonical=True)]
            if mode == 'first_match' or any('shape' in r for r in f['rules']):
                variants.append(EC.Variant(rnd))
            for vi, v in enumerate(variants):
                text = EC.file_text(f, v)
                txns = [EC.txn(t, v) for t in txns_abs]
                exps = [expected_for(f, o, v) for o in res]
                obs = {}
                if not v.xform:          # (MerchantEngine.match does not apply field transforms: that is normalize_merchant's job)
                    try:
                        obs['engine'] = observe_engine(text, mode, txns)
                    except Exception as e:
                        obs['engine'] = 'EXC:' + repr(e)
                path = os.path.join(tmpdir, 'm.rules')
                with open(path, 'w', newline='') as fh:
                    fh.write(text)
                try:
                    obs['normalize'] = observe_normalize(path, mode, txns, other_mode_first=bool(vi))
                except Exception as e:
                    obs['normalize'] = 'EXC:' + repr(e)
                if mode == 'first_match' and EC.csv_expressible(f) and not v.neg_amount and not v.xform:
                    cpath = os.path.join(tmpdir, 'm.csv')
                    cv = EC.Variant(canonical=True)
                    cv.a1 = v.a1 if vi else 0        # the pattern spelling varies, the transaction stays canonical-compatible
                    cv.low = v.low
                    cv.dupname = v.dupname
                    with open(cpath, 'w', newline='') as fh:
                        fh.write(EC.csv_text(f, cv))
                    try:
                        obs['legacy_csv'] = observe_normalize(cpath, mode, txns)
                    except Exception as e:
                        obs['legacy_csv'] = 'EXC:' + repr(e)
                n, nt, fl = judge(f, txns_abs, txns, exps, obs, text, v)
                n_eval += n
                nontriv.update(nt)
                for x in fl:
                    if len(fails) < 40:
                        fails.append(x)
                if sample is None and len(f['rules']) >= 2:
                    sample = {'rules_text': text, 'txn': dict(txns[0], date=str(txns[0]['date'])), 'spec': exps[0],
                              'engine': obs['engine'][0] if isinstance(obs.get('engine'), list) else obs.get('engine')}
    finally:
        import shutil
        shutil.rmtree(tmpdir, ignore_errors=True)
    return n_eval, list(nontriv)[:200000], fails, sample


def run_universe(ck, configs, judge_name, module='MC_Engine'):
    tmp = tempfile.mkdtemp(prefix='engdump_')
    try:
        for name, cfg in configs:
            dump = os.path.join(tmp, name + '.dump')
            res = tlc.run(module, cfg, dump=dump, timeout=3000)
            ck.expect_model_ok('%s/%s' % (module, name), res)
            outs = par.map_dump(dump, replay_states, extra=(ck.seed, judge_name, ck.tier))
            os.unlink(dump)
            for n_eval, nontriv, fails, sample in outs:
                ck.case(n=n_eval)
                ck.trace(n_eval)
                for k in nontriv:
                    ck.case(k, nontrivial=True, n=0)
                for sig, case, what in fails:
                    ck.violation(sig, case, what)
                if sample:
                    ck.sample(sample, cap=3)
    finally:
        import shutil
        shutil.rmtree(tmp, ignore_errors=True)
