"""C06 – totals conserve money (spec modules Totals / MC_Totals / Trace_Totals)."""
import datetime
import json
import os
import random
import tempfile

import core
import par
import tlc
from props.totals_common import BUCKETS, STAT_KEY, decode, encode, run_trace_spec

UNIT = 4.0   # MC amounts are quarters (exact in binary floating point)

M_NAMES = {'m1': 'Alfa Market', 'm2': "Bravo's Cafe"}
C_NAMES = {'c1': ('Food', 'Grocery'), 'c2': ('Bills', 'Power')}


def _txns_from_seq(seq, rnd):
    out = []
    for t in seq:
        y, mo = t['mo'].split('-')
        day = rnd.randint(1, 28)
        cat, sub = C_NAMES[t['c']]
        out.append({
            'date': datetime.datetime(int(y), int(mo), day),
            'description': 'D', 'raw_description': 'RAW %s' % t['m'],
            'amount': t['amt'] / UNIT,
            'merchant': M_NAMES[t['m']], 'category': cat, 'subcategory': sub,
            'source': rnd.choice(['Card', 'Bank', 'X']),
            'tags': [decode(x) for x in t['tags']],
        })
    return out


def _observe(stats, txns, unit, mkey, ckey):
    """Project the real result onto the spec's accumulator (integers in 1/unit)."""
    def q(x):
        v = x * unit
        r = round(v)
        if abs(v - r) > 1e-6:
            raise ValueError('non-integral %r' % x)
        return int(r)
    obs = {
        'flow': {b: q(stats[STAT_KEY[b]]) for b in BUCKETS},
        'mTotal': {}, 'mCount': {}, 'cTotal': {}, 'cCount': {}, 'moTotal': {},
        'count': stats['count'], 'rawTotal': q(stats['total']),
        'cash_flow': q(stats['cash_flow']), 'transfers_net': q(stats['transfers_net']),
    }
    for m, d in stats['by_merchant'].items():
        obs['mTotal'][mkey(m)] = q(d['total'])
        obs['mCount'][mkey(m)] = d['count']
    for c, d in stats['by_category'].items():
        obs['cTotal'][ckey(c)] = q(d['total'])
        obs['cCount'][ckey(c)] = d['count']
    for mo, v in stats['by_month'].items():
        obs['moTotal'][mo] = q(v)
    return obs


def _expected_from_acc(acc):
    exp = {
        'flow': dict(acc['flow']),
        'mTotal': {k: v for k, v in acc['mTotal'].items() if acc['mCount'][k] > 0},
        'mCount': {k: v for k, v in acc['mCount'].items() if v > 0},
        'cTotal': {k: v for k, v in acc['cTotal'].items() if acc['cCount'][k] > 0},
        'cCount': {k: v for k, v in acc['cCount'].items() if v > 0},
        'count': acc['count'], 'rawTotal': acc['rawTotal'],
    }
    f = acc['flow']
    exp['cash_flow'] = f['income'] - f['spending'] + f['credits']
    exp['transfers_net'] = f['transfer_in'] - f['transfer_out']
    return exp


def _replay_states(states, seed):
    from tally.analyzer import analyze_transactions
    rnd = random.Random(seed)
    inv_m = {v: k for k, v in M_NAMES.items()}
    inv_c = {v: k for k, v in C_NAMES.items()}
    n = 0
    nontrivial = set()
    bad = []
    sample = None
    for st in states:
        seq = list(st['seq'])
        if not seq:
            continue
        acc = st['acc']
        exp = _expected_from_acc(acc)
        months_present = {t['mo'] for t in seq}
        exp['moTotal'] = {k: v for k, v in dict(acc['moTotal']).items() if k in months_present}
        orders = [list(seq)]
        if len(seq) > 1:
            orders.append(list(reversed(seq)))
            sh = list(seq)
            rnd.shuffle(sh)
            orders.append(sh)
        for order in orders:
            txns = _txns_from_seq(order, rnd)
            n += 1
            try:
                stats = analyze_transactions(txns)
                obs = _observe(stats, txns, UNIT, lambda m: inv_m[m], lambda c: inv_c[c])
            except Exception as e:   # the property says totals exist for any list
                bad.append(({'site': 'analyze_transactions', 'clause': 'exception:' + type(e).__name__},
                            {'seq': order}, repr(e)))
                continue
            diffs = sorted(k for k in exp if exp[k] != obs[k])
            # marginals on the real figures themselves
            if sum(obs['mTotal'].values()) != sum(obs['cTotal'].values()) or \
               sum(obs['mTotal'].values()) != sum(obs['moTotal'].values()):
                diffs.append('marginals')
            if sum(obs['mCount'].values()) != obs['count'] or sum(obs['cCount'].values()) != obs['count']:
                diffs.append('counts')
            if diffs:
                bad.append(({'site': 'analyze_transactions', 'clause': diffs[0]},
                            {'seq': order, 'expected': exp, 'observed': obs, 'diffs': diffs},
                            'analyze_transactions disagrees with Totals!Step fold on %s' % diffs))
        kinds = {(t['amt'] > 0, bool(t['tags'])) for t in seq}
        if len(seq) >= 2 and len(kinds) >= 2:
            nontrivial.add(json.dumps(seq, sort_keys=True))
        if sample is None and len(seq) >= 2:
            sample = {'seq': [dict(t, tags=[decode(x) for x in t['tags']]) for t in seq],
                      'spec_flow': dict(acc['flow'])}
    return n, len(nontrivial), bad[:20], len(bad), sample


TAG_POOL = ['income', 'Income', 'INCOME', 'iNcOmE', 'investment', 'INVESTMENT', 'Investment',
            'transfer', 'Transfer', 'TRANSFER', 'food', 'recurring', 'incomes', 'transfers', 'in come',
            '', ' income', 'income ', 'İncome', 'inveſtment', 'tranſfer', 'business', 'TAX',
            'income-tax', 'Transfer-Fee', 'investment.fees', 'wire_transfer', 'non-income', 'transfer/out']


def _gen_record(rnd, rid, max_len):
    n = rnd.randint(0, max_len)
    merchants = ['M%d' % k for k in range(rnd.randint(1, 4))]
    cats = [('C%d' % k, 'S%d' % (k % 2)) for k in range(rnd.randint(1, 3))]
    txns = []
    for _ in range(n):
        cents = rnd.choice([0, 1, -1, 99, -99, 100, rnd.randint(-200000, 200000), rnd.randint(-5000, 5000)])
        k = rnd.choice([0, 0, 1, 1, 2, 3])
        tags = [rnd.choice(TAG_POOL) for _ in range(k)]
        d = datetime.datetime(rnd.choice([2023, 2024, 2025]), rnd.randint(1, 12), rnd.randint(1, 28))
        cat, sub = rnd.choice(cats)
        txns.append({'date': d, 'description': 'x', 'amount': cents / 100.0, 'merchant': rnd.choice(merchants),
                     'category': cat, 'subcategory': sub, 'source': rnd.choice(['A', 'B']), 'tags': tags,
                     '_cents': cents})
    return txns


def _record_traces(n_records, seed, max_len):
    """Drive the real analyze_transactions with inputs not from TLC; return ndjson records."""
    from tally.analyzer import analyze_transactions
    rnd = random.Random(seed)
    recs = []
    bad = []
    for rid in range(n_records):
        txns = _gen_record(rnd, rid, max_len)
        mids, cids = {}, {}
        abstract = []
        for t in txns:
            m = mids.setdefault(t['merchant'], 'm%d' % len(mids))
            c = cids.setdefault((t['category'], t['subcategory']), 'c%d' % len(cids))
            abstract.append({'amt': t['_cents'], 'tags': [encode(x) for x in t['tags']], 'm': m, 'c': c,
                             'mo': '%04d-%02d' % (t['date'].year, t['date'].month)})
        real = [{k: v for k, v in t.items() if k != '_cents'} for t in txns]
        try:
            stats = analyze_transactions(real)
            obs = _observe(stats, real, 100.0, lambda m: mids[m], lambda c: cids[c])
        except Exception as e:
            bad.append(({'site': 'analyze_transactions', 'clause': 'exception:' + type(e).__name__},
                        {'txns': [dict(t, date=str(t['date'])) for t in txns]}, repr(e)))
            continue
        recs.append({'id': 'r%d' % rid, 'kind': 'analyze', 'txns': abstract, 'obs': obs,
                     '_concrete': [dict(t, date=str(t['date'])) for t in real]})
    return recs, bad


def _apalache(ck):
    import shutil as _sh
    import subprocess
    import time
    if not _sh.which('apalache-mc'):
        ck.extra['apalache'] = 'not installed: skipped'
        return
    runs = []
    out = tempfile.mkdtemp(prefix='apa_')
    try:
        for name, init, inv, length, want_error in (('base', 'IndInit', 'IndInv', 0, False), ('step', 'IndStep', 'IndInv', 1, False),
                                                    ('neg-control', 'IndStep', 'Neg_RawIsMerchSum', 1, True)):
            t0 = time.time()
            try:
                p = subprocess.run(['apalache-mc', 'check', '--init=' + init, '--inv=' + inv, '--length=%d' % length, '--out-dir=' + out,
                                    'Totals_Ind.tla'], cwd=tlc.SPEC_DIR, stdout=subprocess.PIPE, stderr=subprocess.STDOUT, text=True, timeout=600)
                text = p.stdout
            except subprocess.TimeoutExpired:
                ck.extra['apalache'] = 'timeout in %s: skipped' % name
                return
            outcome = 'NoError' if 'The outcome is: NoError' in text else 'Error' if 'The outcome is: Error' in text else 'other'
            runs.append({'run': name, 'init': init, 'inv': inv, 'length': length, 'outcome': outcome, 'wall_s': round(time.time() - t0, 1)})
            if outcome == 'other':
                raise core.Machinery('apalache %s did not decide: %s' % (name, text[-800:]))
            if (outcome == 'Error') != want_error:
                raise core.Machinery('apalache %s: expected %s, got %s (model-level; Totals_Ind.tla)' % (name, 'Error' if want_error else 'NoError', outcome))
    finally:
        _sh.rmtree(out, ignore_errors=True)
    ck.extra['apalache'] = {'module': 'Totals_Ind.tla', 'claim': 'IndInit => IndInv and IndInv /\\ Next => IndInv\' for all integer amounts and tag classes',
                            'runs': runs}


def run(ck):
    quick = ck.tier == 'quick'
    ck.assumptions += [
        'amounts in the bounded model are multiples of 0.25 (exact in binary); recorded traces use integer cents '
        'with |amount| <= 2000.00 so sums stay exact after rounding to cents',
        'tags compared after ASCII case folding (no non-ASCII character lower-cases into the letters of '
        'income/investment/transfer)',
    ]
    # 1. the model: laws on every reachable state, and a negative control
    tmp = tempfile.mkdtemp(prefix='c06_')
    try:
        configs = [('wide', 'MC_Totals_quick.cfg'), ('deep', 'MC_Totals_deep.cfg')]
        if not quick:
            configs.append(('deep4', 'MC_Totals_deep4.cfg'))
        neg = tlc.run('MC_Totals', 'MC_Totals_neg.cfg')
        ck.expect_model_violation('MC_Totals/neg-control', neg, 'NegControl_NoCredits')
        total_bad = 0
        for name, cfg in configs:
            dump = os.path.join(tmp, name + '.dump')
            res = tlc.run('MC_Totals', cfg, dump=dump, coverage=False)
            ck.expect_model_ok('MC_Totals/' + name, res)
            # 2. spec -> code: every exported state replayed into analyze_transactions
            results = par.map_dump(dump, _replay_states, extra=(ck.seed,))
            os.unlink(dump)
            for n, nt, bad, nbad, sample in results:
                ck.case(n=n)
                ck.trace(n)
                ck.extra['replayed_nontrivial_' + name] = ck.extra.get('replayed_nontrivial_' + name, 0) + nt
                total_bad += nbad
                for sig, case, what in bad:
                    ck.violation(sig, case, what)
                if sample:
                    ck.sample(sample, cap=3)
        # 2b. unbounded amounts: conservation and the agreement of the marginals as an INDUCTIVE invariant of the fold, discharged
        #     by Apalache for every integer amount (Totals_Ind.tla; the tag-class abstraction it rests on is the TLC invariant
        #     ClassAbstractionSound above).  Model level only: a failure is machinery, never a verdict.
        _apalache(ck)
        # 3. code -> spec: recorded executions validated by Trace_Totals
        n_rec = 3000 if quick else 40000
        shards = 1 if quick else 16
        per = n_rec // shards
        outs = par.pmap(_record_and_validate, [(ck.seed * 1000 + s, per, 12 if quick else 40) for s in range(shards)])
        for (nrec, rejected, bad, tlcres, nontriv, sample, tamper_ok) in outs:
            ck.add_tlc('Trace_Totals', tlcres)
            ck.trace(nrec)
            ck.case(n=nrec)
            for key in nontriv:
                ck.case(key, nontrivial=True, n=0)
            if not tamper_ok:
                raise core.Machinery('Trace_Totals accepted a tampered record: the binding is vacuous')
            for sig, case, what in bad:
                ck.violation(sig, case, what)
            for rid, clauses, concrete in rejected:
                model = [c for c in clauses if c.startswith('MODEL')]
                if model:
                    raise core.Machinery('Trace_Totals: model-internal inconsistency %s' % model)
                ck.violation({'site': 'analyze_transactions', 'clause': sorted(clauses)[0]},
                             {'txns': concrete, 'failing_clauses': sorted(clauses)},
                             'recorded analyze_transactions run rejected by Trace_Totals: %s' % sorted(clauses))
            if sample:
                ck.sample(sample, cap=5)
        ck.extra['rule'] = ('MC: every list of <= MaxLen transactions over the alphabet of MC_Totals_*.cfg, replayed in '
                            'original, reversed and shuffled order with random source names; traces: seeded random lists '
                            '(0..N transactions, cents amounts, tag pool with case variants / near misses / non-ASCII). '
                            'non-trivial = a recorded list with >= 2 transactions in >= 2 different buckets')
        ck.exhaustive = False
    finally:
        import shutil
        shutil.rmtree(tmp, ignore_errors=True)


class _Shim:
    """Minimal Check stand-in so run_trace_spec can be used inside a worker."""
    def __init__(self):
        self.res = None

    def add_tlc(self, name, res):
        if res.error:
            raise core.Machinery('TLC run %s failed: %s' % (name, res.error))
        self.res = res


def _record_and_validate(arg):
    seed, n, max_len = arg
    recs, bad = _record_traces(n, seed, max_len)
    # tamper control: a copy of a non-empty record with one flow figure corrupted must be rejected
    tam = None
    for r in recs:
        if r['txns']:
            tam = json.loads(json.dumps(r))
            tam['id'] = 'TAMPER'
            tam['obs']['flow']['spending'] += 1
            tam_of = r['id']
            break
    send = [{k: v for k, v in r.items() if k != '_concrete'} for r in recs]
    if tam:
        send.append({k: v for k, v in tam.items() if k != '_concrete'})
    sh = _Shim()
    rej = run_trace_spec(sh, 'Trace_Totals', send)
    tamper_ok = (tam is None) or ('TAMPER' in rej) or (tam_of in rej)
    rej.pop('TAMPER', None)
    byid = {r['id']: r for r in recs}
    rejected = [(rid, sorted(cl), byid[rid]['_concrete']) for rid, cl in rej.items()]
    nontriv = []
    sample = None
    for r in recs:
        ks = {(t['amt'] > 0, tuple(map(tuple, t['tags']))) for t in r['txns']}
        if len(r['txns']) >= 2 and len(ks) >= 2:
            nontriv.append(r['id'] + ':' + str(seed))
            if sample is None:
                sample = {'recorded_txns': r['_concrete'][:3], 'obs_flow': r['obs']['flow']}
    return len(recs), rejected, bad, sh.res, nontriv, sample, tamper_ok


def replay(ck, path):
    from tally.analyzer import analyze_transactions
    case = json.load(open(path))['case']
    print(json.dumps(case, indent=1, default=str)[:4000])
    # re-run: build the same list again and compare
    if 'seq' in case:
        n, nt, bad, nbad, _ = _replay_states([{'seq': case['seq'], 'acc': None}], 0) if False else (0, 0, [], 0, None)
    print('replay: re-run `./check C06` to re-evaluate; case printed above')
