"""C17 – rule files are read by structure alone; malformed ones are rejected, not trimmed (spec modules RulesFile, MC_RulesFile)."""
import json
import os
import random
import re
import shutil
import tempfile

import cli
import core
import par
import tlc
from props.engine_common import plain

VAL = {
    'm1': 'contains("ALFA")', 'm2': 'amount > 5', 'm3': 'regex("x") and month == 12',
    'c1': 'Food', 'c2': 'Bills & Utilities', 's1': 'Grocery', 's2': 'Power', 't1': 'one, two',
    # a tags line is split at commas OUTSIDE parentheses, at any nesting depth
    't2': 'three, {regex_replace(field.memo, "^REF ", lowercase(field.branch))}, {split(field.name, " ", 0)}',
    'p1': '60', 'p2': '40', 'l1': 'a = amount * 2', 'l2': 'b = a + 1', 'l3': 'c = 1', 'f1': 'note = "x"', 'f2': 'memo = description',
    'n1': 'Display Name', 'd1': 'All the big ones', 'd2': 'Another description',
}
VIEW_VAL = {'m1': 'total > 10', 'm2': 'category == "Food" and months >= 2', 'm3': 'cv < 0.5'}
# (an expression is invalid when it is not Python syntax OR uses anything outside the documented language: an operator that is
#  not part of it - // ** | & ^ << >> @ ~ unary + is / is not - is as invalid as a lambda)
BADEXPR = {'match': ['contains("A"', 'amount >', 'lambda: 1', 'import os', 'contains("A") and amount // 10 >= 2', 'amount ** 2 > 4', 'amount is None',
                     'category is not "x"', '~1 == 0', '(amount | 1) > 0', '+amount > 0', 'amount << 1 > 2', 'amount @ 2', '(1 ^ 2) > 0', '(3 & 1) == 1',
                     'amount >> 1 > 0', 'amount in [1, 2]', 'amount in (1, 2)', 'description[1:2] == "A"'],
           'let': ['z = amount >', 'z = (1', 'a = amount >', 'c = (1', 'b = a +', 'z = amount // 2', 'a = amount ** 2', 'b = a is None', 'c = ~1'],
           # (a name may be bound more than once in a rule: a malformed binding is malformed whatever is bound to its name later)
           'field': ['q = (', 'q = 1 +', 'note = (', 'memo = 1 +', 'q = amount // 2', 'note = +amount', 'memo = amount | 1'],
           'tags': ['keep, {amount >}', '{contains(}', '{amount // 2}', 'keep, {amount ** 2}'],
           'filter': ['total >', 'months >= (', 'lambda: 1', 'total ** 2 > 10000', 'months // 2 >= 1', 'category is "Food"', '+total > 1', '(months | 1) > 0']}
MALFORMED = {'let': ['no equals here', '= 5', '1x = 5'], 'field': ['nofield', '= 1'], 'priority': ['high', '5.5', '']}


def render_token(tok, kind, rnd, layout):
    t = tok['t']
    indent = rnd.choice(['', '', '  ', '    ', '\t']) if layout else ''
    trail = rnd.choice(['', '', ' ', '   ', '\t']) if layout else ''
    if t == 'header':
        hi = rnd.choice(['', '', '  ']) if (layout and kind == 'merchants') else ''
        return '%s[Rule %s]%s' % (hi, tok['n'], trail)
    if t == 'headerjunk':
        return rnd.choice(['[Junk] # note', '[Junk] extra', '[Junk] x', '[Junk] [More]x'])
    if t == 'garbage':
        return rnd.choice(['this is not a rule line', 'just words', '!!!', 'contains("ALFA")', '-- separator --',
                           # leftovers of a hand conversion from the legacy CSV file
                           'Pattern,Merchant,Category,Subcategory', 'ALFA,Alfa,Food,Grocery', 'Pattern,Merchant,Category,Subcategory,Tags'])
    if t == 'comment':
        return rnd.choice(['# a comment', '#', '   # indented comment', '# match: contains("X")', '#[Not A Header]'])
    if t == 'blank':
        return rnd.choice(['', '', '   ', '\t'])
    if t == 'assign':
        name = tok['var']
        if tok['v'] == 'good':
            return '%s = %s%s' % (name, rnd.choice(['amount > 100', 'total > 5'] if kind == 'views' else ['amount > 100', 'month == 12']), trail)
        return '%s = %s' % (name, rnd.choice(['amount >', '(1', 'lambda: 1']))
    if t == 'transform':
        if tok['v'] == 'good':
            return 'field.description = regex_replace(field.description, "^X", "")' + trail
        return 'field.description = ' + rnd.choice(['regex_replace(', 'uppercase(field.description', '1 +'])
    key = tok['key']
    kcase = key
    if layout and kind == 'merchants':
        kcase = rnd.choice([key, key, key.title(), key.upper()])
    colon = rnd.choice([': ', ':', ':  ', ' : ']) if (layout and kind == 'merchants') else ': '
    if key == 'bogus':
        return '%s%s%svalue%s' % (indent, kcase, colon, trail)
    if tok['v'] == 'badexpr':
        return '%s%s%s%s' % (indent, kcase, colon, rnd.choice(BADEXPR[key]))
    if tok['v'] == 'malformed':
        return '%s%s%s%s' % (indent, kcase, colon, rnd.choice(MALFORMED[key]))
    val = (VIEW_VAL if (kind == 'views' and key == 'filter') else VAL)[tok['id']]
    return '%s%s%s%s%s' % (indent, kcase, colon, val, trail)


def render(file, kind, rnd, layout):
    lines = [render_token(t, kind, rnd, layout) for t in file]
    eol = '\r\n' if (layout and rnd.random() < 0.3) else '\n'
    text = eol.join(lines)
    if rnd.random() < 0.7:
        text += eol
    return text


def observe(text, kind):
    if kind == 'merchants':
        from tally.merchant_engine import parse_merchants, MerchantParseError
        try:
            eng = parse_merchants(text)
        except MerchantParseError as e:
            return {'err': True, 'line': e.line_number, 'msg': str(e)[:100]}
        rules = []
        for r in eng.rules:
            props = {('match', r.match_expr)}
            if r.category:
                props.add(('category', r.category))
            if r.subcategory:
                props.add(('subcategory', r.subcategory))
            if r.merchant != r.name:
                props.add(('merchant', r.merchant))
            if r.tags:
                props.add(('tags', ', '.join(sorted(r.tags))))
            if r.priority != 50:
                props.add(('priority', str(r.priority)))
            for n, e in r.let_bindings:
                props.add(('let', '%s = %s' % (n, e)))
            for n, e in r.fields.items():
                props.add(('field', '%s = %s' % (n, e)))
            rules.append({'name': r.name, 'props': sorted(props), 'lets': ['%s = %s' % x for x in r.let_bindings], 'vars': []})
        return {'err': False, 'rules': rules, 'globals': list(eng.variables), 'transforms': len(eng.transforms)}
    from tally.section_engine import parse_sections, SectionParseError
    try:
        cfg = parse_sections(text)
    except SectionParseError as e:
        return {'err': True, 'line': e.line_number, 'msg': str(e)[:100]}
    rules = []
    for s in cfg.sections:
        props = {('filter', s.filter_expr)}
        if s.description:
            props.add(('description', s.description))
        rules.append({'name': s.name, 'props': sorted(props), 'lets': [], 'vars': list(s.variables)})
    return {'err': False, 'rules': rules, 'globals': list(cfg.global_variables), 'transforms': 0}


def split_tags(val):
    out, cur, depth = [], [], 0
    for ch in val:
        if ch == '(':
            depth += 1
        elif ch == ')':
            depth -= 1
        if ch == ',' and depth == 0:
            out.append(''.join(cur).strip())
            cur = []
        else:
            cur.append(ch)
    out.append(''.join(cur).strip())
    return [x for x in out if x]


def expected(res, kind):
    if res['err']:
        return {'err': True, 'lines': sorted(res['lines'])}
    rules = []
    for r in res['rules']:
        props = set()
        for key, vid in r['props']:
            val = (VIEW_VAL if (kind == 'views' and key == 'filter') else VAL)[vid]
            if key == 'tags':
                val = ', '.join(sorted(split_tags(val)))
            props.add((key, val))
        rules.append({'name': 'Rule ' + r['name'], 'props': sorted(props), 'lets': [VAL[p[1]] for p in r['lets']], 'vars': list(r['vars'])})
    return {'err': False, 'rules': rules, 'globals': list(res['globals']), 'transforms': res['transforms']}


def classify(file, res):
    """feature of the (first) corruption, for signatures"""
    feats = []
    seen_header = False
    for tok in file:
        t = tok['t']
        if t == 'header':
            seen_header = True
        if t == 'garbage':
            feats.append('garbage-' + ('in-rule' if seen_header else 'top-level'))
        elif t == 'headerjunk':
            feats.append('junk-after-header-' + ('later' if seen_header else 'first'))
        elif t == 'prop' and not seen_header:
            feats.append('property-before-any-header')
        elif t == 'prop' and tok['v'] == 'badexpr':
            feats.append('bad-%s-expression' % tok['key'])
        elif t == 'prop' and tok['v'] == 'malformed':
            feats.append('malformed-%s' % tok['key'])
        elif t == 'prop' and tok['key'] == 'bogus':
            feats.append('unknown-property')
        elif t in ('assign', 'transform') and tok['v'] == 'badexpr':
            feats.append('bad-top-level-%s' % t)
        elif t in ('assign', 'transform') and seen_header:
            feats.append('%s-inside-rule' % t)
    return sorted(set(feats))


def _rf_worker(seed, n, kind, bases):
    import rulesfile_trace as RT
    return RT.record_batch(seed, n, kind, bases)


def trace_rulesfile(ck, nfiles):
    """code -> spec: tally's own files, random rule files and random views files, edited and corrupted at the text level, read by
    the real readers; the harness's own line tokeniser abstracts each text; Trace_RulesFile requires RulesFile!Result."""
    import copy
    import rulesfile_trace as RT
    from props.totals_common import run_trace_sharded
    bases = RT.base_texts()
    tot = {}
    for kind, cfg in (('merchants', 'Trace_RulesFile_m.cfg'), ('views', 'Trace_RulesFile_v.cfg')):
        outs = par.pmap(_rf_worker, [ck.seed * 4099 + 7 * s + (1 if kind == 'views' else 0) for s in range(16)],
                        extra=(max(1, nfiles // 32), kind, bases[kind]))
        by_id, skipped = {}, 0
        for rs, sk in outs:
            skipped += sk
            for r in rs:
                by_id[r['id']] = r
        recs = [{k: v for k, v in r.items() if not k.startswith('_')} for r in by_id.values()]
        base = next((r for r in recs if not r['obs']['err'] and r['obs']['rules']), None)
        if base is None:
            raise core.Machinery('rules-file trace recorder (%s): no text was read successfully' % kind)
        tam = copy.deepcopy(base)
        tam['id'] = 'TAMPER'
        tam['obs']['rules'] = tam['obs']['rules'][1:]                  # a section missing from the logged result
        rej = run_trace_sharded(ck, 'Trace_RulesFile/' + kind, recs + [tam], 'Trace_RulesFile', cfg, shards=4)
        if 'TAMPER' not in rej:
            raise core.Machinery('Trace_RulesFile (%s) accepted a tampered record: the binding is vacuous' % kind)
        rej.pop('TAMPER')
        ck.trace(len(recs))
        ck.case(n=len(recs))
        nerr = sum(1 for r in recs if r['obs']['err'])
        ck.case(('trace_rulesfile', kind, nerr), nontrivial=0 < nerr < len(recs), n=0)
        tot[kind] = {'texts': len(recs), 'outside_statement_skipped': skipped, 'rejected_by_the_reader': nerr, 'base_files_from_the_tree': len(bases[kind]),
                     'records_rejected': len(rej)}
        for rid, clauses in sorted(rej.items()):
            r = by_id[rid]
            ck.violation({'site': 'parse_merchants' if kind == 'merchants' else 'parse_sections', 'clause': sorted(clauses), 'via': 'trace_rulesfile',
                          'corruption': r['_corruption']},
                         {'text': r['_text'], 'kind': kind, 'corruption': r['_corruption'], 'reader_message': r['_msg'], 'tokens': r['file'], 'observed': r['obs']},
                         '%s reader on an edited %s file (%s): %s; the reader said %r' % (kind, 'corrupted' if r['_corruption'] else 'valid', r['_corruption'],
                                                                                     sorted(clauses), r['_msg'] or 'no error'))
    ck.extra['trace_rulesfile'] = tot


def replay_states(states, seed, kind):
    rnd = random.Random(seed)
    n, nontriv, fails = 0, 0, []
    sample = None
    corrupt = []
    for st in states:
        file = plain(st['file'])
        res = plain(st['res'])
        exp = expected(res, kind)
        for layout in (False, True, True):
            text = render(file, kind, rnd, layout)
            obs = observe(text, kind)
            n += 1
            if exp['err']:
                nontriv += 1
                if layout and len(corrupt) < 6 and rnd.random() < 0.05:
                    corrupt.append((kind + ':' + (','.join(classify(file, res)) or 'corrupt'), text))
                if not obs['err']:
                    fails.append(({'site': 'parse_' + kind, 'clause': 'accepts-corrupt-file', 'corruption': classify(file, res)},
                                  {'text': text, 'kind': kind, 'expected': exp, 'observed': obs},
                                  '%s reader accepts a file with %s (no error; read %d rules)' % (kind, classify(file, res), len(obs['rules']))))
                elif obs['line'] not in exp['lines']:
                    fails.append(({'site': 'parse_' + kind, 'clause': 'error-line', 'corruption': classify(file, res)},
                                  {'text': text, 'kind': kind, 'expected': exp, 'observed': obs},
                                  '%s reader names line %s, the corruption is on line(s) %s: %s' % (kind, obs['line'], exp['lines'], obs['msg'])))
            else:
                if obs['err']:
                    fails.append(({'site': 'parse_' + kind, 'clause': 'rejects-valid-file', 'layout': layout},
                                  {'text': text, 'kind': kind, 'expected': exp, 'observed': obs},
                                  '%s reader rejects a valid file (layout variant): %s' % (kind, obs['msg'])))
                else:
                    o = {k: obs[k] for k in ('err', 'rules', 'globals', 'transforms')}
                    o['rules'] = [dict(r, props=[list(p) for p in r['props']]) for r in o['rules']]
                    e = dict(exp, rules=[dict(r, props=[list(p) for p in r['props']]) for r in exp['rules']])
                    if o != e:
                        fails.append(({'site': 'parse_' + kind, 'clause': 'rules-differ', 'layout': layout},
                                      {'text': text, 'kind': kind, 'expected': e, 'observed': o},
                                      '%s reader: rules read differ from the sections written: %s vs %s' % (kind, json.dumps(o)[:300], json.dumps(e)[:300])))
            if sample is None and layout and not exp['err'] and len(file) > 6:
                sample = {'kind': kind, 'text': text, 'spec': exp}
    return n, nontriv, fails[:40], (sample, corrupt)


CORRUPT_FILES = [
    ('top-level-garbage', 'oops this line is not valid\n[A]\nmatch: contains("ALFA")\ncategory: Food\n'),
    ('junk-after-first-header', '[A] # my note\nmatch: contains("ALFA")\ncategory: Food\n'),
    ('missing-match', '[A]\ncategory: Food\n'),
    ('unknown-property', '[A]\nmatch: contains("ALFA")\ncategory: Food\ncolour: red\n'),
    ('bad-expression', '[A]\nmatch: contains("ALFA"\ncategory: Food\n'),
    ('bad-priority', '[A]\nmatch: contains("ALFA")\ncategory: Food\npriority: high\n'),
    ('bad-variable', 'big = amount >\n[A]\nmatch: contains("ALFA")\ncategory: Food\n'),
    ('csv-header-on-top', '# converted by hand\nPattern,Merchant,Category,Subcategory\n[A]\nmatch: contains("ALFA")\ncategory: Food\n'),
    ('csv-row-on-top', 'ALFA,Alfa,Food,Grocery\n[A]\nmatch: contains("ALFA")\ncategory: Food\n'),
]


def cli_views_case(item):
    """A corrupt VIEWS file: `tally up` must say so (and name the line), whatever else the settings contain."""
    name, views, extra_settings = item
    d = tempfile.mkdtemp(prefix='c17cliv_')
    try:
        cli.materialise(d, {'config/settings.yaml': extra_settings + 'year: 2025\ndata_sources:\n  - name: Card\n    file: data/card.csv\n    format: "{date:%m/%d/%Y},{description},{amount}"\nmerchants_file: config/merchants.rules\nviews_file: config/views.rules\n',
                            'config/merchants.rules': '[A]\nmatch: contains("ALFA")\ncategory: Food\n', 'config/views.rules': views,
                            'data/card.csv': 'Date,Description,Amount\n01/05/2025,ALFA STORE,12.50\n02/06/2025,ZULU STORE,3.00\n'})
        up = cli.run_tally(['up', '--format', 'summary'], cwd=d)
        return name, views, extra_settings, up
    finally:
        shutil.rmtree(d, ignore_errors=True)


def cli_case(item):
    name, rules = item
    d = tempfile.mkdtemp(prefix='c17cli_')
    try:
        cli.materialise(d, {'config/settings.yaml': 'year: 2025\ndata_sources:\n  - name: Card\n    file: data/card.csv\n    format: "{date:%m/%d/%Y},{description},{amount}"\nmerchants_file: config/merchants.rules\n',
                            'config/merchants.rules': rules,
                            'data/card.csv': 'Date,Description,Amount\n01/05/2025,ALFA STORE,12.50\n02/06/2025,ZULU STORE,3.00\n'})
        up = cli.run_tally(['up', '--format', 'summary'], cwd=d)
        diag = cli.run_tally(['diag'], cwd=d)
        return name, rules, up, diag
    finally:
        shutil.rmtree(d, ignore_errors=True)


def run(ck):
    quick = ck.tier == 'quick'
    ck.assumptions += ['one token per line; duplicate single-valued properties inside one section are outside the statement and not generated',
                       'an error may name the corrupted line or the header of its section (readers meet corruptions in different orders: any '
                       'corrupted line of the file is accepted)']
    ck.expect_model_violation('MC_RulesFile/neg', tlc.run('MC_RulesFile', 'MC_RulesFile_neg.cfg'), 'Neg_NeverRejects')
    tmp = tempfile.mkdtemp(prefix='c17_')
    corrupt_texts = []
    try:
        for kind in ('merchants', 'views'):
            cfgs = [('MC_RulesFile_%s.cfg' % kind, None)]
            cfgs.append(('MC_RulesFile_%s2.cfg' % kind, (1, 12) if (quick and kind == 'merchants') else ((1, 2) if kind == 'merchants' else None)))
            for cfg, sample in cfgs:
                if quick and cfg == 'MC_RulesFile_merchants2.cfg':
                    continue          # 3 minutes of TLC: thorough tier only (the views universe at 2 edits runs in the quick tier)
                dump = os.path.join(tmp, 'r.dump')
                res = tlc.run('MC_RulesFile', cfg, dump=dump, timeout=3000)
                ck.expect_model_ok('MC_RulesFile/' + cfg, res)
                for n, nontriv, fails, (smp, corrupt) in par.map_dump(dump, replay_states, extra=(ck.seed, kind), sample=sample, seed=ck.seed, shards=96):
                    corrupt_texts.extend(corrupt)
                    ck.case(n=n)
                    ck.trace(n)
                    for _ in range(nontriv):
                        ck.case(('corrupt', len(ck.nontrivial)), nontrivial=True, n=0)
                    for sig, case, what in fails:
                        ck.violation(sig, case, what)
                    if smp:
                        ck.sample(smp, cap=2)
                os.unlink(dump)
    finally:
        shutil.rmtree(tmp, ignore_errors=True)
    # the command line: a rules file that cannot be loaded is reported, not treated as "no rules"
    # (the hand-written files plus corrupt files of the TLC universe, one per distinct kind of corruption and some more)
    rnd = random.Random(ck.seed)
    rnd.shuffle(corrupt_texts)
    picked, seen_kinds = [], set()
    view_texts = [(n, t) for n, t in corrupt_texts if n.startswith('views:')]
    corrupt_texts = [(n[len('merchants:'):], t) for n, t in corrupt_texts if n.startswith('merchants:')]
    for name, text in corrupt_texts:
        if name not in seen_kinds or len(picked) < (40 if quick else 400):
            seen_kinds.add(name)
            picked.append((name, text))
    ck.extra['corrupt_files_through_cli'] = len(picked) + len(CORRUPT_FILES)
    for name, rules, up, diag in par.pmap(cli_case, CORRUPT_FILES + picked[:(60 if quick else 600)]):
        ck.case(n=1)
        ck.trace(1)
        out = (up['out'] + up['err'])
        reported = bool(re.search(r'[Ll]ine \d+', out)) or 'error' in out.lower() and 'merchants.rules' in out
        as_empty = 'No merchant rules defined' in out or 'Loaded 0 categorization rules' in out
        if as_empty or not reported:
            ck.violation({'site': 'tally up', 'clause': 'corrupt-rules-treated-as-empty' if as_empty else 'corrupt-rules-not-reported', 'corruption': name},
                         {'rules_text': rules, 'stdout': up['out'][-600:], 'stderr': up['err'][-300:], 'rc': up['rc']},
                         '`tally up` on a merchants.rules with %s: %s' % (name, 'continues as if there were no rules' if as_empty else 'does not report the error'))
        dout = diag['out'] + diag['err']
        if not re.search(r'[Ll]ine \d+|[Ee]rror', dout):
            ck.violation({'site': 'tally diag', 'clause': 'corrupt-rules-not-reported', 'corruption': name},
                         {'rules_text': rules, 'stdout': diag['out'][-800:]}, '`tally diag` does not report the problem in merchants.rules (%s)' % name)
    # corrupt views files through `tally up`, with and without unrelated leftovers in settings.yaml
    vitems = []
    for i, (name, text) in enumerate(view_texts[:(24 if quick else 300)]):
        vitems.append((name, text, ['', 'home_state: WA\n', 'travel_labels:\n  CA: California\n', 'rule_mode: fastest\n'][i % 4]))
    for name, views, extra_settings, up in par.pmap(cli_views_case, vitems):
        ck.case(n=1)
        ck.trace(1)
        out = up['out'] + up['err']
        if 'Error loading views' not in out or not re.search(r'[Ll]ine \d+', out):
            ck.violation({'site': 'tally up', 'clause': 'corrupt-views-not-reported', 'settings_extra': extra_settings.split(':')[0]},
                         {'views_text': views, 'settings_extra': extra_settings, 'stdout': up['out'][-400:], 'stderr': up['err'][-400:], 'rc': up['rc']},
                         '`tally up` on a corrupt views.rules (%s) does not report the error and its line' % name)
    ck.extra['corrupt_views_files_through_cli'] = len(vitems)
    trace_rulesfile(ck, 6400 if ck.tier == 'quick' else 64000)
    ck.extra['rule'] = ('valid base files (merchants: 2, views: 2) and every single edit of them (insert any of 24 / 11 line tokens at any position, '
                        'delete, replace, swap neighbours; two edits for views and, in the thorough tier, merchants), each rendered three times '
                        '(plain, and twice with random indentation, trailing blanks, CRLF, key case); plus `tally up` / `tally diag` on corrupt '
                        'files. non-trivial = a corrupt file')
    ck.exhaustive = True


def replay(ck, path):
    case = json.load(open(path))['case']
    if 'text' in case:
        print(json.dumps(observe(case['text'], case['kind']), indent=1), '\nexpected', json.dumps(case['expected'], indent=1))
    else:
        print(json.dumps(case, indent=1)[:3000])
