"""C20 – commands never alter or overwrite the user's statements, rules or settings (spec module Commands)."""
import datetime
import json
import os
import random
import shutil
import tempfile

import cli
import core
import par
import simtrace
import tlc
from props.totals_common import run_trace_spec
from props import c15

MF_CHUNK = '\n# Merchant rules file (migrated from CSV)\nmerchants_file: config/merchants.rules\n'
VF_CHUNK = '\n# Views file (custom spending views)\nviews_file: config/views.rules\n'
V_RULES = '''[Big]
filter: total > 10
'''
# the user's views file while they are still writing it: a section without its filter (tally cannot load it; it is still theirs)
X_RULES = '''[Big]
filter: total > 10

[Kids]
description: to be written
'''
G_IGNORE = '# mine\n*.secret\n'
# the user's merchants.rules without a single [rule] section: still their file (get_all_rules loads nothing from it)
E_RULES = '''# my rules - sections still to be written
big = amount > 100
field.description = regex_replace(field.description, "^APLPAY\\\\s+", "")
'''
OLD_REPORT = '<html>report I kept</html>\n'
BASES = {'user': c15.SETTINGS_PLAIN, 'userref': c15.SETTINGS_REF}
# user settings that MENTION a key init / migrate would add - in a comment, in the middle of the file (descendants of the starter
# template, hand-written notes).  Commands.tla does not model what init decides on them (append or not: both keep the user's
# lines); these files are only ever judged by the byte-wise frame rules: every existing line stays where it is, as it is
_HEAD, _TAIL = c15.SETTINGS_PLAIN.split('\n', 1)
XBASES = {
    'xvfc': _HEAD + '\n# views_file: config/views.rules   (uncomment for custom views)\n' + _TAIL,
    'xvfc2': c15.SETTINGS_PLAIN + '#views_file: my-views.rules\ntitle: "Budget"\n',
    'xmfc': _HEAD + '\n#   merchants_file: config/merchants.rules\n' + _TAIL + '# Views_File: later\n',
    'xboth': '# settings\n# views_file: config/views.rules\n# merchants_file: config/merchants.rules\n' + c15.SETTINGS_PLAIN,
}
BASES.update(XBASES)
# the same user files saved by an editor that writes CRLF line endings (every third history): still the user's bytes
BASES_CRLF = {k: v.replace('\n', '\r\n') for k, v in BASES.items()}

CMD_ARGS = {
    'explain': ['explain', 'Alfa'],
    'discover': ['discover', '--format', 'json'],
    'diag': ['diag'],
    'inspect': ['inspect', 'data/card.csv'],
    'workflow': ['workflow'],
    'reference': ['reference'],
    'up_json': ['up', '--format', 'json', '-q'],
    'up_summary': ['up', '--format', 'summary'],
    'up_html': ['up'],
    'up_migrate': ['up', '--migrate', '--format', 'json', '-q'],
    'init': ['init'],
}


# every command has many spellings (flags select what is SHOWN): what a command may touch does not depend on them.  Spelling 0
# is the plain one above; the others are chosen per history and step.
CMD_SPELLINGS = {
    'explain': [['explain', 'Alfa'], ['explain', '--view', 'Big'], ['explain', '--view', 'Kids'], ['explain', '--category', 'Food'],
                ['explain', 'ALFA STORE', '--amount', '5'], ['explain', '--tags', 'x', '--format', 'json'], ['explain'],
                ['explain', 'Alfa', '--format', 'markdown', '-v'], ['explain', '--view', 'Big', '--format', 'json'],
                ['explain', '--month', '2025-01'], ['explain', '--location', 'WA']],
    'discover': [['discover', '--format', 'json'], ['discover'], ['discover', '--format', 'csv'], ['discover', '--limit', '0']],
    'diag': [['diag'], ['diag', '--format', 'json']],
    'inspect': [['inspect', 'data/card.csv'], ['inspect', 'data/card.csv', '--rows', '2'], ['inspect']],
    'reference': [['reference'], ['reference', 'merchants'], ['reference', 'views']],
    'up_json': [['up', '--format', 'json', '-q'], ['up', '--format', 'json', '-v'], ['up', '--format', 'markdown'],
                ['up', '--format', 'json', '-q', '--category', 'Food'], ['up', '--format', 'json', '--tags', 'x'],
                ['up', '--format', 'json', '--only', 'Big'], ['up', '--format', 'json', '--group-by', 'subcategory']],
    'up_summary': [['up', '--format', 'summary'], ['up', '--summary'], ['up', '--summary', '-v']],
}


def spelling(c, hid, k):
    forms = CMD_SPELLINGS.get(c)
    if not forms:
        return list(CMD_ARGS[c])
    return list(forms[(sum(map(ord, hid)) * 5 + k * 11 + len(c)) % len(forms)])


# commands that take the config directory as an optional positional argument
ADDRESSABLE = ('up_json', 'up_summary', 'up_html', 'up_migrate', 'discover', 'diag')


def starters():
    from tally import cli as tcli
    year = datetime.datetime.now().year
    return {'settings': tcli.STARTER_SETTINGS.format(year=year), 'rules': tcli.STARTER_MERCHANTS,
            'views': tcli.STARTER_VIEWS, 'gitignore': '# Tally - Ignore sensitive data\ndata/\noutput/\n'}


def concretise(fs, prefix='', crlf=False, bom=False):
    cfg = prefix + 'config/'
    t = {cfg: None}
    s = fs['settings']
    if s['base'] != 'absent':
        t[cfg + 'settings.yaml'] = (BASES_CRLF if crlf else BASES)[s['base']]
    if fs['csv'] == 'R':
        t[cfg + 'merchant_categories.csv'] = c15.R_CSV
    if fs['csvbak'] == 'B':
        t[cfg + 'merchant_categories.csv.bak'] = c15.B_BAK
    if fs['rules'] == 'U':
        t[cfg + 'merchants.rules'] = c15.U_RULES
    if fs['rules'] == 'E':
        t[cfg + 'merchants.rules'] = E_RULES
    if fs['views'] == 'V':
        t[cfg + 'views.rules'] = V_RULES
    if fs['views'] == 'X':
        t[cfg + 'views.rules'] = X_RULES
    if fs['data'] == 'D':
        # (a statement exported by a spreadsheet program starts with a byte order mark: still the user's bytes)
        t[prefix + 'data/card.csv'] = ('\ufeff' if bom else '') + c15.DATA
    if fs['gitignore'] == 'G':
        t[prefix + '.gitignore'] = G_IGNORE
    if fs['report'] == 'old':
        t[prefix + 'output/spending_summary.html'] = OLD_REPORT
    return t


def abstract(snap, st, prefix='', crlf=False, bom=False):
    BASES = BASES_CRLF if crlf else globals()['BASES']
    cfg = prefix + 'config/'

    def get(name):
        v = snap.get(name)
        return None if v is None else v.decode('utf8', 'replace')
    out = {}
    s = get(cfg + 'settings.yaml')
    if s is None:
        out['settings'] = {'base': 'absent', 'app': []}
    else:
        base, rest = None, None
        for b, text in list(BASES.items()) + [('starter', st['settings'])]:
            if s.startswith(text) and (base is None or len(text) > len(BASES.get(base, st['settings']))):
                base, rest = b, s[len(text):]
        # "userref" text extends "user" text: prefer the longest matching base
        if s.startswith(BASES['userref']):
            base, rest = 'userref', s[len(BASES['userref']):]
        app = []
        ok = base is not None
        while ok and rest:
            if rest.startswith(MF_CHUNK):
                app.append('mf')
                rest = rest[len(MF_CHUNK):]
            elif rest.startswith(VF_CHUNK):
                app.append('vf')
                rest = rest[len(VF_CHUNK):]
            else:
                ok = False
        out['settings'] = {'base': base, 'app': app} if ok else {'base': 'other', 'app': []}

    def cls(name, table):
        v = get(name)
        if v is None:
            return 'absent'
        for k, text in table.items():
            if v == text:
                return k
        return 'other'
    out['csv'] = cls(cfg + 'merchant_categories.csv', {'R': c15.R_CSV})
    out['csvbak'] = cls(cfg + 'merchant_categories.csv.bak', {'R': c15.R_CSV, 'B': c15.B_BAK})
    out['csvbak1'] = cls(cfg + 'merchant_categories.csv.bak1', {'R': c15.R_CSV})
    rules = get(cfg + 'merchants.rules')
    if rules is None:
        out['rules'] = 'absent'
    elif rules == c15.U_RULES:
        out['rules'] = 'U'
    elif rules == E_RULES:
        out['rules'] = 'E'
    elif rules == st['rules']:
        out['rules'] = 'starter'
    elif rules.startswith('# Tally Merchant Rules\n# Migrated from merchant_categories.csv'):
        out['rules'] = 'M'
    else:
        out['rules'] = 'other'
    out['rulesbak'] = cls(cfg + 'merchants.rules.bak', {'U': c15.U_RULES, 'E': E_RULES, 'starter': st['rules']})
    out['views'] = cls(cfg + 'views.rules', {'V': V_RULES, 'X': X_RULES, 'starter': st['views']})
    out['data'] = cls(prefix + 'data/card.csv', {'D': ('\ufeff' if bom else '') + c15.DATA})
    out['gitignore'] = cls(prefix + '.gitignore', {'G': G_IGNORE, 'starter': st['gitignore']})
    rep = get(prefix + 'output/spending_summary.html')
    out['report'] = 'absent' if rep is None else ('old' if rep == OLD_REPORT else 'new')
    return out


ALLOWED_NEW = {
    'init': {'config/settings.yaml', 'config/merchants.rules', 'config/views.rules', '.gitignore', 'data/', 'output/', 'config/'},
    'up_migrate': {'config/merchants.rules'},
}


def direct_frame(cmd, before, after):
    """Byte-level frame rules of C20 on one real step.  Returns list of (clause, detail)."""
    bad = []
    blobs_after = {}
    for k, v in after.items():
        if v is not None:
            blobs_after.setdefault(v, []).append(k)
    for path, b in before.items():
        if b is None:
            continue
        a = after.get(path)
        if a == b:
            continue
        if path.startswith('output/') and cmd == 'up_html':
            continue
        if cmd in ('init', 'up_migrate') and path == 'config/settings.yaml' and a is not None and a.startswith(b):
            continue
        if cmd in ('init', 'up_migrate') and path == 'config/merchant_categories.csv' and a is None and \
                any(p.startswith('config/merchant_categories.csv.bak') for p in blobs_after.get(b, [])):
            continue
        if cmd == 'up_migrate' and path == 'config/merchants.rules' and \
                any(p.startswith('config/merchants.rules.bak') for p in blobs_after.get(b, [])):
            continue
        bad.append(('modified' if a is not None else 'removed', path))
    for path, a in after.items():
        if path in before:
            continue
        if path.startswith('output/') and cmd in ('up_html',):
            continue
        if path == 'output/' and cmd in ('up_html', 'init'):
            continue
        if path in ALLOWED_NEW.get(cmd, ()):
            continue
        if cmd in ('init', 'up_migrate') and (path.startswith('config/merchant_categories.csv.bak') or
                                               (cmd == 'up_migrate' and path.startswith('config/merchants.rules.bak'))):
            continue
        bad.append(('created', path))
    return bad


def _run_history(item):
    hid, fs0, cmds = item
    st = starters()
    # the budget may live under a path with blanks and characters that are special to glob / regex / shells
    d = tempfile.mkdtemp(prefix='c20 [2025] (a)+$_' if sum(map(ord, hid)) % 4 == 1 else 'c20_')
    try:
        crlf = sum(map(ord, hid)) % 3 == 0
        # the budget may be in either folder layout (./config or ./tally/config, commands run from the project folder):
        # what a command may touch does not depend on it
        new_layout = (sum(map(ord, hid)) // 3) % 2 == 1
        prefix = 'tally/' if new_layout else ''
        bom = sum(map(ord, hid)) % 5 == 2
        tree = concretise(fs0, prefix=prefix, crlf=crlf, bom=bom)
        if new_layout:
            tree['tally/config/.tally-schema'] = '1\n'
        cli.materialise(d, tree)

        def snap():
            raw = cli.snapshot(d)
            if not new_layout:
                return raw
            out = {}
            for k, v in raw.items():
                if k in ('tally/', 'tally/config/.tally-schema'):
                    continue
                out[k[len(prefix):] if k.startswith(prefix) else '../' + k] = v
            return out
        snaps = [snap()]
        rcs = []
        written = []
        hows = []
        for k, c in enumerate(cmds):
            args = [a.replace('data/card.csv', prefix + 'data/card.csv') for a in spelling(c, hid, k)]
            plain_args = list(args)
            # the budget may be ADDRESSED in several ways (found from the project folder, named on the command line - with or
            # without a trailing separator, relative or absolute -, named as "." from inside it, or through TALLY_CONFIG):
            # what a command may touch does not depend on the spelling
            cwd, env_extra, how = d, None, 'found'
            if c in ADDRESSABLE:
                mode = (sum(map(ord, hid)) * 7 + k * 3 + len(c)) % 8
                cfgrel = prefix + 'config'
                if mode == 2:
                    args, how = args[:1] + [cfgrel + '/'] + args[1:], 'relative/'
                elif mode == 3:
                    args, how = args[:1] + ['./' + cfgrel] + args[1:], './relative'
                elif mode == 4:
                    args, how = args[:1] + [os.path.join(d, cfgrel) + os.sep] + args[1:], 'absolute/'
                elif mode == 5:
                    args, cwd, how = args[:1] + ['.'] + args[1:], os.path.join(d, cfgrel), 'dot-from-inside'
                elif mode == 6:
                    env_extra, how = {'TALLY_CONFIG': cfgrel + '/'}, 'TALLY_CONFIG'
                if not os.path.isdir(os.path.join(d, cfgrel)):
                    args, cwd, env_extra, how = plain_args, d, None, 'found'
            hows.append(how + ' ' + ' '.join(plain_args))
            r = cli.run_tally(args, cwd=cwd, root=d, env_extra=env_extra)
            rcs.append(r['rc'])
            written.append(sorted({e['path'] for e in r['effects'] if 'path' in e}))
            snaps.append(snap())
        states = [abstract(s, st, crlf=crlf, bom=bom) for s in snaps]
        frames = [direct_frame(c, snaps[k], snaps[k + 1]) for k, c in enumerate(cmds)]
        return {'id': hid, 'cmds': cmds, 'states': states, 'frames': frames, 'rcs': rcs, 'written': written, 'addressed': hows}
    finally:
        shutil.rmtree(d, ignore_errors=True)


def _tlc_histories(ck, num, depth):
    tmp = tempfile.mkdtemp(prefix='c20sim_')
    try:
        sim = tlc.run('Commands', 'MC_Commands_sim.cfg', simulate='file=%s/tr,num=%d' % (tmp, num), depth=depth + 1,
                      workers=1, seed=ck.seed + 3)
        if sim.error or sim.violated:
            raise core.Machinery('Commands simulation failed: %s %s' % (sim.error, sim.violated))
        out = []
        for f, (labels, states) in simtrace.behaviours(tmp):
            fs0 = _plain(states[0]['fs'])
            cmds = list(states[-1]['hist'])
            predicted = [_plain(s['fs']) for s in states]
            out.append((os.path.basename(f), fs0, cmds, predicted))
        return out
    finally:
        shutil.rmtree(tmp, ignore_errors=True)


def _plain(fs):
    d = dict(fs)
    d['settings'] = {'base': fs['settings']['base'], 'app': list(fs['settings']['app'])}
    return d


def run(ck):
    quick = ck.tier == 'quick'
    ck.assumptions += ['old layout (./config) budgets with fixed concrete file contents per content class; commands run '
                       'non-interactively (stdin closed) from the budget directory',
                       'init\'s automatic CSV migration is treated as a requested migration (the statement is ambiguous there); '
                       'plain `up` and every read-only command must never migrate']
    res = tlc.run('Commands', 'MC_Commands.cfg')
    ck.expect_model_ok('MC_Commands', res)
    ck.expect_model_violation('MC_Commands/neg', tlc.run('Commands', 'MC_Commands_neg.cfg'), 'Neg_NeverMigrates')
    # spec -> code: TLC histories; the real tree after each command is compared with the predicted state
    hs = _tlc_histories(ck, 250 if quick else 4000, 3 if quick else 4)
    results = par.pmap(_run_history, [(h[0], h[1], h[2]) for h in hs])
    pred = {h[0]: h[3] for h in hs}
    # code -> spec: random histories (biased towards mutating commands), validated by Trace_Commands
    rnd = random.Random(ck.seed)
    rand_items = []
    for k in range(150 if quick else 3000):
        fs0 = {'settings': {'base': rnd.choice(['absent', 'user', 'user', 'userref']), 'app': []},
               'csv': rnd.choice(['absent', 'R', 'R']), 'csvbak': rnd.choice(['absent', 'absent', 'B']), 'csvbak1': 'absent',
               'rules': rnd.choice(['absent', 'U', 'E']), 'rulesbak': 'absent', 'views': rnd.choice(['absent', 'V', 'X']),
               'data': rnd.choice(['absent', 'D', 'D']), 'gitignore': rnd.choice(['absent', 'G']),
               'report': rnd.choice(['absent', 'old'])}
        cmds = [rnd.choice(['init', 'up_migrate', 'up_html', 'up_html'] + list(CMD_ARGS)) for _ in range(rnd.randint(1, 5))]
        rand_items.append(('rand%d' % k, fs0, cmds))
    results2 = par.pmap(_run_history, rand_items)
    # frame-only histories on settings files that mention views_file / merchants_file in a comment (see XBASES)
    frame_items = []
    for k in range(48 if quick else 600):
        fs0 = {'settings': {'base': sorted(XBASES)[k % len(XBASES)], 'app': []},
               'csv': rnd.choice(['absent', 'R', 'R']), 'csvbak': 'absent', 'csvbak1': 'absent',
               'rules': rnd.choice(['absent', 'U', 'E']), 'rulesbak': 'absent', 'views': rnd.choice(['absent', 'V']),
               'data': rnd.choice(['absent', 'D', 'D']), 'gitignore': rnd.choice(['absent', 'G']), 'report': 'absent'}
        cmds = [rnd.choice(['init', 'init', 'up_migrate', 'up_html', 'diag'])] + [rnd.choice(['init', 'up_migrate', 'up_html'] + list(CMD_ARGS)) for _ in range(rnd.randint(0, 2))]
        frame_items.append(('frame%d' % k, fs0, cmds))
    results3 = par.pmap(_run_history, frame_items)
    for r in results3:
        ck.case(n=1)
        ck.trace(1)
        ck.case(json.dumps([r['states'][0], r['cmds']], sort_keys=True), nontrivial=True, n=0)
        for k, (c, fr) in enumerate(zip(r['cmds'], r['frames'])):
            for clause, path in fr:
                ck.violation({'site': c, 'clause': clause, 'path': path},
                             {'fs0': frame_items[int(r['id'][5:])][1], 'cmds': r['cmds'], 'step': k, 'detail': fr, 'args': r['addressed'][k], 'addressed': r.get('addressed'), 'id': r['id']},
                             '`tally %s` (step %d of %s) %s %s' % (r['addressed'][k].split(' ', 1)[-1], k + 1, r['cmds'], clause, path))
    ck.extra['frame_only_histories'] = len(results3)
    recs = []
    byid = {}
    conf_notes = 0
    for r in results + results2:
        byid[r['id']] = r
        ck.case(n=1)
        ck.trace(1)
        ck.case(json.dumps([r['states'][0], r['cmds']], sort_keys=True),
                nontrivial=any(a != b for a, b in zip(r['states'], r['states'][1:])), n=0)
        for k, (c, fr) in enumerate(zip(r['cmds'], r['frames'])):
            for clause, path in fr:
                ck.violation({'site': c, 'clause': clause, 'path': path},
                             {'fs0': r['states'][0], 'cmds': r['cmds'], 'step': k, 'detail': fr, 'args': r['addressed'][k], 'addressed': r.get('addressed'), 'id': r['id']},
                             '`tally %s` (step %d of %s) %s %s' % (r['addressed'][k].split(' ', 1)[-1], k + 1, r['cmds'], clause, path))
        if r['id'] in pred and pred[r['id']] != r['states']:
            conf_notes += 1
        recs.append({'id': r['id'], 'cmds': r['cmds'], 'states': r['states']})
    tam = json.loads(json.dumps(next(r for r in recs if r['states'][0]['data'] == 'D')))
    tam['id'] = 'TAMPER'
    tam['cmds'] = ['diag'] + tam['cmds']
    tam['states'] = [tam['states'][0]] + [dict(s, data='absent') for s in tam['states']]
    rej = run_trace_spec(ck, 'Trace_Commands', recs + [tam], module='Trace_Commands', cfg='Trace_Commands.cfg')
    if 'TAMPER' not in rej or not any(c.startswith('FrameReadOnly') for c in rej['TAMPER']):
        raise core.Machinery('Trace_Commands accepted a history in which diag deleted the data file')
    rej.pop('TAMPER')
    conf = 0
    for rid, clauses in rej.items():
        r = byid[rid]
        for c in sorted(clauses):
            if c.startswith('CONF'):
                conf += 1
                continue
            ck.violation({'site': 'history', 'clause': c.split(':')[0], 'cmd': c.split(':')[1] if ':' in c else ''},
                         {'fs0': r['states'][0], 'cmds': r['cmds'], 'states': r['states']},
                         'Trace_Commands: %s is false on the observed history %s' % (c, r['cmds']))
    update_conformance(ck)
    ck.extra['conformance_deviations_from_predicted_state'] = conf
    ck.extra['tlc_histories_with_state_mismatch'] = conf_notes
    ck.sample({'fs0': results[0]['states'][0], 'cmds': results[0]['cmds'], 'after': results[0]['states'][-1]})
    ck.extra['rule'] = ('histories of 1..5 real CLI commands (TLC -simulate over Commands.tla, and seeded random ones) on every '
                        'initial budget class; after each command every file is compared byte-wise with the frame rules and the '
                        'abstracted tree is validated by Trace_Commands. non-trivial = some command changed the abstract tree')
    ck.exhaustive = False
    return conf


def replay(ck, path):
    case = json.load(open(path))['case']
    r = _run_history((case.get('id', 'replay'), case['fs0'], case['cmds']))      # (the id decides layout, line endings and addressing)
    print(json.dumps(r, indent=1))
    for k, (c, fr) in enumerate(zip(r['cmds'], r['frames'])):
        for clause, p in fr:
            ck.violation({'site': c, 'clause': clause, 'path': p}, case, 'replayed: %s %s' % (clause, p))


# ------------------------------------------------------------------------------------- tally update (Update.tla) ----
def _vtext(v):
    return '%d.%d.%d%s' % (v['base'][0], v['base'][1], v['base'][2], '-dev' if v['dev'] else '')


def _update_worker(states):
    """Replays Update.tla states into the real cmd_update (release lookup, layout migration and self-replacement stubbed out:
    what is observed is the DECISION - wording, whether the layout migration is entered, whether installation is attempted)."""
    import argparse
    import contextlib
    import io
    from tally import _version as V
    from tally.commands import update as U
    notes, n = [], 0
    for st in states:
        cur, latest, pre, chk, want = st['cur'], st['latest'], st['prerelease'], st['check'], st['out']
        n += 1
        # the order itself
        if not latest.get('none'):
            g = V._version_greater(_vtext(latest), _vtext(cur))
            lv = (tuple(latest['base']), not latest['dev'])
            cv = (tuple(cur['base']), not cur['dev'])
            if g != (lv > cv):
                notes.append('_version_greater(%s, %s) = %s' % (_vtext(latest), _vtext(cur), g))
        entered = []
        saved = (U.VERSION, U.get_latest_release_info, U.run_migrations, U.find_config_dir, U.perform_update)
        U.VERSION = _vtext(cur)
        U.get_latest_release_info = lambda prerelease=False, **kw: None if latest.get('none') else {'version': _vtext(latest), 'assets': {}, 'release_url': 'x'}
        U.find_config_dir = lambda: '/nonexistent-config'
        U.run_migrations = lambda cfg, skip_confirm=False: entered.append('layout') or None
        U.perform_update = lambda info, force=False: (entered.append('install') or (True, 'installed'))
        buf = io.StringIO()
        rc = 0
        try:
            with contextlib.redirect_stdout(buf), contextlib.redirect_stderr(buf):
                try:
                    U.cmd_update(argparse.Namespace(prerelease=pre, check=chk, yes=True))
                except SystemExit as e:
                    rc = e.code or 0
        finally:
            U.VERSION, U.get_latest_release_info, U.run_migrations, U.find_config_dir, U.perform_update = saved
        text = buf.getvalue()
        wording = ('no-dev-build' if 'No development build found' in text else 'lookup-failed' if 'Could not check for version updates' in text else
                   'already-latest' if 'Already on latest version' in text else 'dev-build-available' if 'Development build available' in text else
                   'stable-available' if 'Stable release available' in text else 'new-version' if 'New version available' in text else 'other')
        install = 'install' in entered or 'Cannot self-update when running from source' in text
        got = {'wording': wording, 'layout': 'layout' in entered, 'install': install}
        exp = {'wording': want['wording'], 'layout': want['layout'], 'install': want['install']}
        if got != exp:
            notes.append('update(cur=%s, latest=%s, prerelease=%s, check=%s): code %s, Update!Decide %s' % (
                _vtext(cur), 'none' if latest.get('none') else _vtext(latest), pre, chk, got, exp))
    return n, notes[:20]


def update_conformance(ck):
    """Update.tla: model-checked, and every state replayed into the real cmd_update.  No listed property speaks about `tally update`'s
    decision, so a disagreement is recorded in the evidence as conformance information - never a verdict."""
    import tlaval
    ck.expect_model_ok('MC_Update', tlc.run('Update', 'MC_Update.cfg'))
    ck.expect_model_ok('MC_Update/transitive', tlc.run('Update', 'MC_Update_trans.cfg'))
    ck.expect_model_violation('MC_Update/neg', tlc.run('Update', 'MC_Update_neg.cfg'), 'Neg_OfferMeansNewer')
    tmp = tempfile.mkdtemp(prefix='c20upd_')
    try:
        dump = os.path.join(tmp, 'u.dump')
        res = tlc.run('Update', 'MC_Update_trans.cfg', dump=dump)
        if res.error:
            raise core.Machinery('Update dump failed: %s' % res.error)
        outs = par.map_dump(dump, _update_worker_states)
    finally:
        shutil.rmtree(tmp, ignore_errors=True)
    n = sum(o[0] for o in outs)
    notes = [x for o in outs for x in o[1]]
    ck.extra['update_decisions_replayed'] = n
    ck.extra['update_decision_mismatches'] = len(notes)
    ck.extra['update_decision_mismatch_examples'] = notes[:5]


def _update_worker_states(states):
    from props.engine_common import plain
    return _update_worker([plain(s) for s in states])
