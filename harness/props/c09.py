"""C09 – most_specific mode picks the most specific matching rule, whatever the order (spec modules Engine, MC_Specific)."""
import core
import tlc
from props import engine_common, engine_tracecheck


def run(ck):
    quick = ck.tier == 'quick'
    ck.assumptions += ['pattern literals are keyword-free tokens (ALFA, BETA, STORE) so that counting constraint kinds by structure '
                       'and by text coincide; padding conjuncts (contains("STORE"), amount > -5000, month >= 1) are true of every '
                       'generated transaction',
                       'variable-using conditions are kept out of most_specific files: the statement does not rank them']
    ck.expect_model_violation('MC_Specific/neg', tlc.run('MC_Specific', 'MC_Specific_neg.cfg'), 'Neg_FirstWins')
    engine_common.run_universe(ck, [('spec2', 'MC_Specific.cfg')] if quick else [('spec3', 'MC_Specific3.cfg')],
                               'judge_c09', module='MC_Specific')
    engine_common.run_universe(ck, [('rich_ms', 'MC_Engine_rich_ms.cfg')], 'judge_c09')
    ck.extra['rule'] = ('most_specific files of <= 2 (quick) / 3 (thorough) rules over 8 specificity shapes (one per adjacent inversion '
                        'of priority > pattern count > constraint kinds > literal length) x 3 category/subcategory settings x 2 atoms, '
                        'plus tag-only rules, in every order; and the generic Engine universe in most_specific mode. '
                        'non-trivial = at least two rules match')
    # code -> spec: random files over the full concrete grammar, recorded from the real code, validated by Trace_Engine
    engine_tracecheck.run(ck, 'c09', 1600 if quick else 16000)
    ck.exhaustive = True
