"""C03 – rule expressions are confined: no code execution, I/O or introspection (spec modules Confine, Expr)."""
import ast
import copy
import datetime
import json
import os
import random
import sys
import tempfile
import types
import warnings

import core
import exprabs as X
import par
import tlaval
import tlc
from props.engine_common import plain

TXN = {'description': 'APLPAY Alfa Store #123', 'amount': 50.25, 'date': datetime.date(2025, 12, 31),
       'field': {'kind': 'ACH', 'memo': 'm'}, 'source': 'Card', 'location': 'WA'}
DS = {'orders': [{'item': 'Widget', 'amount': 30.0, 'n': 1}, {'item': 'Gadget', 'amount': 50.25, 'n': 2}],
      # a supplemental file with a short line: its row has fewer keys than the first one (load_supplemental_sources builds them so)
      'ledger': [{'item': 'Widget', 'status': 'ok', 'n': 1}, {'item': 'Partial'}, {'item': 'Late', 'status': '', 'n': 3}]}
VARS = {'big': True, 'lim': 40}

RECV = {
    'txn': ['txn'], 'field': ['field'], 'row': ['orders[0]'],
    'str': ['description', '"abc"', 'field.kind', 'description.lower()'],
    'num': ['amount', '5', '(1 / 3)', 'lim'], 'bool': ['true', '(1 < 2)', 'big'], 'date': ['date', 'txn.date'],
    'none': ['None'], 'list': ['orders', '[r.n for r in orders]'], 'gen': ['(r for r in orders)'],
    'exotic_const': ['b"x"', '1j', '...'], 'unknown': ['nosuchname', 'abs', 'len', 'print', 'contains', 'self', 'ctx'],
}
STR_OK = ['lower', 'upper', 'strip', 'startswith', 'endswith', 'replace']
TXN_KNOWN = ['description', 'amount', 'date', 'source', 'location', 'month', 'year', 'day', 'weekday']
FIELD_BUILTIN = ['description', 'amount', 'date', 'source', 'location']
PY_BUILTINS = ['abs_', 'eval', 'exec', 'open', 'compile', '__import__', 'getattr', 'setattr', 'type', 'globals', 'locals', 'vars',
               'dir', 'print', 'input', 'object', 'super', 'classmethod', 'breakpoint', 'help', 'memoryview', 'bytes', 'str', 'int',
               'list', 'dict', 'set', 'tuple', 'iter', 'map', 'filter', 'zip', 'range', 'sorted', 'reversed', 'enumerate', 'repr',
               'format', 'chr', 'ord', 'hash', 'id', 'isinstance', 'callable', 'delattr', 'hasattr', 'exit', 'quit']
DUNDER_NAMES = ['__builtins__', '__import__', '__name__', '__file__', '__loader__', '__spec__', '__class__', '__dict__', '__globals__']
WHITELISTED_FNS = ['contains', 'regex', 'normalized', 'anyof', 'startswith', 'abs', 'round', 'extract', 'split', 'substring', 'trim',
                   'regex_replace', 'uppercase', 'lowercase', 'strip_prefix', 'strip_suffix', 'exists', 'len', 'sum', 'any', 'all',
                   'next', 'min', 'max', 'fuzzy']

KIND_SNIPPETS = {
    'Lambda': 'lambda: 1', 'Dict': '{1: 2}', 'Set': '{1}', 'List': '[1, 2]', 'Tuple': '(1, 2)', 'DictComp': '{r: 1 for r in orders}',
    'SetComp': '{r for r in orders}', 'JoinedStr': 'f"{amount}"', 'FormattedValue': 'f"{amount!r}"', 'Starred': 'max(*orders)',
    'Slice': 'description[1:2]', 'Await': '(await amount)', 'Yield': '(yield amount)', 'YieldFrom': '(yield from orders)',
    'keyword': 'max(orders, key=1)', 'Pow': '2 ** 3', 'FloorDiv': '7 // 2', 'MatMult': 'amount @ amount', 'BitOr': '1 | 2',
    'BitAnd': '1 & 2', 'BitXor': '1 ^ 2', 'LShift': '1 << 2', 'RShift': '8 >> 1', 'Invert': '~1', 'UAdd': '+amount',
    'Is': 'amount is None', 'IsNot': 'amount is not None', 'Del': None,
    'Expression': 'amount', 'BoolOp': 'true and false', 'BinOp': '1 + 2', 'UnaryOp': 'not true', 'Compare': '1 < 2',
    'Call': 'abs(1)', 'IfExp': '1 if true else 2', 'And': 'true and true', 'Or': 'true or false', 'Not': 'not false',
    'Add': '1 + 1', 'Sub': '1 - 1', 'Mult': '2 * 2', 'Div': '4 / 2', 'Mod': '4 % 3', 'USub': '-amount', 'Eq': '1 == 1',
    'NotEq': '1 != 2', 'Lt': '1 < 2', 'LtE': '1 <= 2', 'Gt': '2 > 1', 'GtE': '2 >= 1', 'In': '"a" in description',
    'NotIn': '"a" not in description', 'Constant': '5', 'Name': 'amount', 'Load': 'amount', 'Store': '[r for r in orders]',
    'Attribute': 'txn.amount', 'ListComp': '[r.n for r in orders]', 'comprehension': '[r.n for r in orders if r.n > 1]',
    'GeneratorExp': 'sum(r.n for r in orders)', 'Subscript': 'orders[0]', 'Index': 'orders[0]', 'NamedExpr': '(x := 5)',
}

PAYLOADS = [
    '().__class__.__bases__[0].__subclasses__()', '"".__class__.__mro__[1].__subclasses__()', '__import__("os").system("id")',
    'description.__class__', 'description.__class__.__base__', 'amount.__class__.__name__', 'txn.__class__', 'txn.__dict__',
    'field.__class__', 'field.__getitem__("kind")', 'field.get("kind")', 'field.keys()', 'orders.__class__', 'orders[0].__class__',
    'orders[0].keys()', 'orders[0].get("item")', 'orders.append(1)', 'orders.clear()', 'orders[0].clear()', 'orders[0].update',
    'orders.pop()', 'orders.sort()', 'orders.__iadd__([1])', 'field.kind.format(txn)', '"{0.__class__}".format(txn)',
    '"{0.__class__.__init__.__globals__}".format(date)', 'description.format_map(field)', 'description.encode()', 'description.join(orders)',
    'description.translate', 'description.maketrans', 'date.__class__', 'date.today()', 'date.year', 'date.replace(year=1)',
    'date.__reduce__()', 'date.fromisoformat("2020-01-01")', 'abs.__self__', 'abs.__module__', 'len.__call__', 'abs.__class__',
    'contains.__self__', 'contains.__func__.__globals__', 'regex.__globals__', 'txn.ctx', 'self', 'self.ctx', 'ctx.data_sources',
    'txn.variables', 'txn.data_sources', 'txn._fn_contains', 'txn.get_function("abs")', 'field.__class__.__mro__',
    '(r for r in orders).gi_frame', '(r for r in orders).gi_frame.f_globals', '(r for r in orders).gi_code', '[r for r in orders].__class__',
    '[c for c in (1).__class__.__mro__]', '[x for x in ().__class__.__bases__]', '(x := abs)', '(x := txn)', '(x := field)',
    'eval("1+1")', 'exec("import os")', 'open("/etc/passwd")', 'open("/etc/passwd").read()', 'compile("1", "", "eval")',
    'getattr(txn, "amount")', 'getattr(description, "__class__")', 'setattr(txn, "amount", 1)', 'type(amount)', 'type(txn)',
    'globals()', 'locals()', 'vars()', 'vars(txn)', 'dir()', 'dir(txn)', 'print(1)', 'input()', 'breakpoint()', 'help()',
    'object()', 'super()', 'memoryview(b"x")', 'bytes(5)', 'str(txn)', 'repr(txn)', 'format(txn)', 'iter(orders)', 'map(abs, orders)',
    'sorted(orders)', 'exit()', 'quit()', 'lambda: 1', '(lambda: 1)()', 'f"{txn}"', 'f"{amount.__class__}"', '{1: 2}', '{1, 2}',
    '(1, 2)', '[1, 2]', '*orders', 'orders[0:1]', 'description[::-1]', '2 ** 9999', '1 << 200', '~1', 'amount is None',
    '[i for i in range(10)]', 'sum(range(10))', 'next(iter(orders))', 'any(map(abs, orders))', 'max(orders, key=len)',
    'min(orders, default=0)', 'sum([[1]], [])', 'abs(*orders)', 'contains(**field)', 'regex("(?P<x>a)(?P=x)")', 'regex("(a+)+$")',
    'extract("(?i)x")', 'regex_replace(description, "(a)", "\\\\1\\\\1")', 'regex_replace(description, "a", "\\\\g<0>")',
    'description.replace("a", "b" * 3)', '"a" * 3', '[r for r in orders for r in r]', 'txn.amount.real', 'amount.real', 'amount.imag',
    'amount.conjugate()', 'amount.hex()', 'amount.as_integer_ratio()', 'amount.is_integer()', 'amount.__add__(1)', 'lim.bit_length()',
    'lim.to_bytes(2, "big")', 'big.real', 'None.__class__', '....__class__', 'b"x".decode()', 'b"x".__class__', '1j.real',
    'description.__add__("x")', 'description.__mul__(2)', 'description.__len__()', 'description.__getitem__(0)',
    'description.__format__("")', 'description.__reduce__()', 'description.__init_subclass__()', 'description.__sizeof__()',
    'description.__dir__()', 'orders.__len__()', 'orders.__getitem__(0)', 'orders.copy()', 'orders.index(1)', 'orders.count(1)',
    'orders.reverse()', 'orders.extend([1])', 'orders.insert(0, 1)', 'orders.remove(1)', 'orders[0].items()', 'orders[0].values()',
    'orders[0].pop("item")', 'orders[0].setdefault("x", 1)', 'orders[0].popitem()', 'orders[0].copy()', 'orders[0].fromkeys',
    'orders[0].__setitem__("x", 1)', 'orders[0].__delitem__("item")', 'txn.description.__class__', 'field.kind.__class__',
    'field.kind.format', 'field.__dict__', 'field.__setattr__', 'txn.__setattr__("amount", 1)', 'txn.__init__()', 'txn.from_transaction',
    'txn.__slots__', 'txn.__module__', 'txn.__doc__', 'description.__doc__', 'abs.__doc__', 'amount.__doc__',
    # harmless expressions whose evaluation converts or caches something: the parsed expression must come out unchanged
    'date >= "2025-01-01"', 'txn.date < "2026-01-01"', 'date == "2025-12-31"', '"2025-01-01" <= date', 'field.date != "2025-12-31"',
    '[r.n for r in orders if date > "2020-01-01"]', 'regex("A.FA") and regex("A.FA")', 'extract("(\\d+)") == "123"',
    # functions that take an accumulator / default: the accumulator is the caller's list (a data source, a variable) and must not grow
    'sum([[q for q in orders if q.n == o.n] for o in orders], orders)', 'len(sum([[q.n for q in orders] for o in orders], orders)) > 0',
    '(acc := [r for r in orders]) and sum([[q for q in orders] for o in orders], acc) and len(acc) == 2',
    'sum([[q for q in orders] for o in orders], [r for r in orders])', 'sum([r.n for r in orders], 0)',
    'max(orders, orders)', 'min(orders, [r for r in orders])', 'orders + orders', '[r for r in orders][0]', 'next((r for r in orders), orders)',
    # a loop variable does not exist outside its comprehension / generator: reading it afterwards fails (it is not some leftover object)
    'r if sum(r.n for r in orders) > 0 else 0', 'trim(r) if all(r.n > 0 for r in orders) else ""', '[r.n for r in orders] and r',
    'sum(q.n for q in orders) + len(q)', 'max(w.amount for w in orders) > 0 and w', 'any(z.n > 5 for z in orders) or z',
    '(x := 1) and sum(x for x in orders if false) == 0 and x', 'min(amount for amount in orders if false) or amount',
    # queries over rows of different width: reading (or merely walking past) a short row leaves it as short as it was
    '[r.item for r in ledger]', 'sum(1 for r in ledger)', 'any(r.item == "zz" for r in ledger)', '[r.status for r in ledger]',
    'next((r.item for r in ledger if r.item == "Late"), "none")', 'len([r for r in ledger if r.item != "x"]) == 3',
    '[[q.item for q in ledger] for r in ledger]', 'all(r.item != "" for r in ledger) and len(ledger) == 3',
    'amount > 50 and amount > "50"', 'description == "APLPAY ALFA STORE #123"', 'month == "12"', '(x := "2025-01-01") and date > x',
]


def safe_value(v, depth=0):
    """None if the value is safe, else a description of the unsafe part."""
    if depth > 6:
        return 'too deep'
    if v is None or isinstance(v, (bool, int, float, str, datetime.date, bytes, complex)) or v is Ellipsis:
        if isinstance(v, str):
            low = v.lower()
            for bad in ('<built-in', '<function', '<class', '<module', ' object at 0x', '<generator', '<bound method', '<method'):
                if bad in low:
                    return 'string exposes interpreter internals: %r' % v[:80]
        return None
    if isinstance(v, (list, tuple, set, frozenset)):
        for x in v:
            r = safe_value(x, depth + 1)
            if r:
                return r
        return None
    if isinstance(v, dict):
        for k, x in v.items():
            r = safe_value(k, depth + 1) or safe_value(x, depth + 1)
            if r:
                return r
        return None
    if isinstance(v, types.GeneratorType):
        return 'generator object handed to the caller'
    return 'value of type %s' % type(v).__name__


warnings.simplefilter('ignore')
_events = []
_armed = [False]
_BAD_EVENTS = ('open', 'exec', 'os.', 'subprocess.', 'socket.', 'ctypes.', 'shutil.', 'marshal.', 'pickle.', 'builtins.input',
               'builtins.breakpoint', 'sys._getframe', 'object.__setattr__', 'object.__delattr__', 'code.__new__',
               'function.__new__', 'urllib.', 'http.', 'ftplib.', 'smtplib.', 'webbrowser.', 'tempfile.', 'glob.', 'pathlib.',
               'import')


def _hook(event, args):
    if not _armed[0]:
        return
    if event == 'compile':
        _events.append(('compile', _armed[0]))
        return
    for b in _BAD_EVENTS:
        if event == b or (b.endswith('.') and event.startswith(b)):
            _events.append((event, _armed[0], repr(args)[:120]))
            return


_hook_installed = [False]


def install_hook():
    if not _hook_installed[0]:
        # warm up lazy imports inside tally itself so that they are not attributed to expressions
        from tally import expr_parser as EP
        for e in ('fuzzy("STARBUCKS")', 'regex("a")', 'extract("(a)")', 'date > "2020-01-01"', 'regex_replace(description, "a", "b")'):
            try:
                EP.evaluate_transaction(e, dict(TXN), dict(VARS), DS)
            except Exception:
                pass
        try:
            EP.evaluate_filter('stddev(payments) > 1 and cv < 1', [{'amount': 1.0, 'date': datetime.datetime(2025, 1, 1)}])
        except Exception:
            pass
        sys.addaudithook(_hook)
        _hook_installed[0] = True


VIEW_TXNS = [{'amount': 5.0, 'date': datetime.datetime(2025, 1, 15), 'category': 'Food', 'subcategory': 'X', 'merchant': 'M', 'tags': ['a']},
             {'amount': 7.5, 'date': datetime.datetime(2025, 2, 3), 'category': 'Food', 'subcategory': 'X', 'merchant': 'M', 'tags': ['b']}]
VIEW_PRIMITIVES = ['payments', 'months', 'category', 'subcategory', 'merchant', 'tags', 'cv', 'total', 'true', 'false']
VIEW_FNS = ['sum', 'count', 'avg', 'max', 'min', 'stddev', 'abs', 'round', 'by', 'period', 'max_val', 'min_val']


def module_public_names():
    """Public names of (side-effect free) standard modules: what a lookup that falls through to a module would expose."""
    import collections, decimal, difflib, fractions, functools, itertools, json, math, operator, re, statistics, string
    names = set()
    for m in (statistics, math, operator, itertools, functools, collections, re, datetime, json, difflib, string, decimal, fractions):
        names.update(n for n in dir(m) if not n.startswith('_') and n.isidentifier())
    return sorted(names)


def run_one(src, view=False, raw_view=False):
    """Load and evaluate one expression text under the audit hook; returns dict(cls, detail, events, mutated)."""
    from tally import expr_parser as EP
    install_hook()
    txn = copy.deepcopy(TXN)
    ds = copy.deepcopy(DS)
    vars_ = copy.deepcopy(VARS)
    del _events[:]
    out = {'cls': None, 'detail': None}
    _armed[0] = 'parse'
    tree = None
    try:
        try:
            tree = EP.parse_expression(src)
        except EP.UnsafeNodeError as e:
            out['cls'] = 'rej'
        except EP.ExpressionError as e:
            out['cls'] = 'rej-syntax'
        except Exception as e:
            out['cls'] = 'raw'
            out['detail'] = 'parse_expression raised %s: %s' % (type(e).__name__, str(e)[:80])
        if out['cls'] is not None and out['cls'] != 'raw' and src in EP._expression_cache:
            out['cached_rejected'] = True
        if tree is not None:
            before = ast.dump(tree)
            _armed[0] = 'eval'
            try:
                if view and raw_view:
                    # the VALUE of a view expression (evaluate_filter would hide it behind bool())
                    v = EP.evaluate(src, EP.create_context(transactions=copy.deepcopy(VIEW_TXNS), num_months=2, variables=dict(vars_)))
                elif view:
                    v = EP.evaluate_filter(src, [{'amount': 5.0, 'date': datetime.datetime(2025, 1, 15), 'category': 'Food',
                                                  'subcategory': 'X', 'merchant': 'M', 'tags': ['a']}], variables=dict(vars_))
                else:
                    v = EP.evaluate_transaction(src, txn, vars_, ds)
                out['cls'] = 'val'
                bad = safe_value(v)
                if bad:
                    out['unsafe'] = bad
                out['type'] = type(v).__name__
            except EP.ExpressionError:
                out['cls'] = 'err'
            except RecursionError:
                out['cls'] = 'err'
            except BaseException as e:         # SystemExit / KeyboardInterrupt from exit(), quit() ... must not kill the worker
                out['cls'] = 'raw'
                out['detail'] = '%s: %s' % (type(e).__name__, str(e)[:80])
            if ast.dump(tree) != before:
                out['mutated'] = 'ast'
            if not view:
                # the same transaction as the statement readers build it: its date is a datetime.datetime (with a time of day).
                # Whatever the evaluation makes of it, the caller's transaction comes out as it went in
                txn2 = copy.deepcopy(TXN)
                if isinstance(txn2.get('date'), datetime.date) and not isinstance(txn2['date'], datetime.datetime):
                    txn2['date'] = datetime.datetime.combine(txn2['date'], datetime.time(10, 30, 15))
                keep = copy.deepcopy(txn2)
                try:
                    EP.evaluate_transaction(src, txn2, copy.deepcopy(VARS), copy.deepcopy(DS))
                except BaseException:
                    pass
                if txn2 != keep or type(txn2.get('date')) is not type(keep.get('date')):
                    out['mutated'] = 'transaction (date given as datetime)'
    finally:
        _armed[0] = False
    ev = [e for e in _events if not (e[0] == 'compile' and e[1] == 'parse')]
    if ev:
        out['events'] = ev[:5]
    if txn != TXN:
        out['mutated'] = 'transaction'
    if ds != DS:
        out['mutated'] = 'data_sources'
    if vars_ != VARS:
        out['mutated'] = 'variables'
    return out


def engine_probe(srcs):
    """The same texts as dynamic tag, field: and let: of a rule - what reaches tags / extra_fields must be safe too."""
    from tally.merchant_engine import parse_merchants, MerchantParseError
    fails, n = [], 0
    for src in srcs:
        for pos, text in (('tag', '[P]\nmatch: true\ncategory: C\ntags: {%s}\n' % src),
                          ('field', '[P]\nmatch: true\ncategory: C\nfield: f = %s\n' % src),
                          ('let+tag', '[P]\nlet: v = %s\nmatch: true\ncategory: C\ntags: {v}\nfield: g = v\n' % src)):
            n += 1
            try:
                eng = parse_merchants(text)
            except MerchantParseError:
                continue
            try:
                r = eng.match(copy.deepcopy(TXN), data_sources=copy.deepcopy(DS))
            except Exception as e:
                fails.append(({'site': 'MerchantEngine.match', 'clause': 'not-an-expression-error', 'position': pos},
                              {'rules_text': text, 'error': repr(e)}, '%s position, %r: match raised %r' % (pos, src, e)))
                continue
            bad = safe_value(sorted(r.tags)) or safe_value(r.extra_fields)
            if bad:
                fails.append(({'site': 'MerchantEngine.match', 'clause': 'unsafe-value', 'position': pos},
                              {'rules_text': text, 'tags': sorted(r.tags), 'extra_fields': repr(r.extra_fields)},
                              '%s position, %r: %s' % (pos, src, bad)))
    return n, fails[:40]


def judge(src, res, allowed, origin):
    """C03's direct oracle (+ the outcome class the spec allows for TLC-generated access patterns)."""
    bad = []
    if res.get('events'):
        bad.append(('audit-event', 'evaluation triggered %s' % (res['events'],)))
    if res.get('unsafe'):
        bad.append(('unsafe-value', res['unsafe']))
    if res.get('mutated'):
        bad.append(('mutation', 'evaluation changed the %s' % res['mutated']))
    if res['cls'] == 'raw':
        bad.append(('not-an-expression-error', res['detail']))
    if res.get('cached_rejected'):
        bad.append(('rejected-text-cached', 'a rejected expression entered the parse cache'))
    if allowed is not None and res['cls'] not in allowed and res['cls'] != 'raw':
        bad.append(('outcome-class', 'outcome %s, the design allows %s' % (res['cls'], sorted(allowed))))
    return bad


def attr_names():
    from tally import expr_parser as EP
    typs = [str, bytes, dict, list, set, float, int, bool, datetime.date, type(abs), type, types.GeneratorType, EP.TransactionContext,
            type(None), complex, type(Ellipsis), types.FunctionType, types.MethodType, object]
    allnames = set()
    for t in typs:
        allnames.update(dir(t))
    allnames.update(['ctx', '_scope', 'evaluate', 'data_sources', 'variables', 'field', 'gi_frame', 'f_globals', 'f_back', 'f_builtins',
                     '__globals__', '__builtins__', '__code__', '__closure__', '__func__', '__self__', '__wrapped__', 'tb_frame'])
    dunder = sorted(n for n in allnames if n.startswith('__') and n.endswith('__'))
    other = sorted(n for n in allnames if not (n.startswith('__') and n.endswith('__')) and n.isidentifier())
    return dunder, other


def concretise_state(st, dunder, other, rnd, quick):
    """One Confine state -> list of (source text, allowed outcome classes)."""
    shape, recv, cls, out = st['shape'], st['recv'], st['cls'], set(plain(st['out']))
    srcs = []
    if shape == 'kind':
        snip = KIND_SNIPPETS.get(cls)
        if snip:
            allowed = {'val', 'err'} if 'ok' in out else {'rej', 'rej-syntax'}
            srcs.append((snip, allowed))
            srcs.append(('(%s) and true' % snip if not snip.startswith('*') else 'max(%s)' % snip, allowed | ({'rej-syntax'})))
        return srcs
    if shape in ('name', 'call'):
        view = st.get('ev') == 'view'
        own_fns = VIEW_FNS if view else WHITELISTED_FNS
        own_prims = VIEW_PRIMITIVES if view else ['description', 'amount', 'date', 'month', 'year', 'day', 'weekday', 'source', 'true', 'false']
        legit = set(own_fns) | set(own_prims) | {'big', 'lim', 'orders', 'ledger', 'location', 'field', 'txn'}
        names = {'primitive': own_prims,
                 'variable': ['big', 'lim', 'BIG'], 'data_source': ['orders'], 'whitelisted_fn': own_fns,
                 'python_builtin': [n for n in PY_BUILTINS if n != 'abs_' and n not in legit], 'dunder_name': DUNDER_NAMES,
                 'module_public': [n for n in module_public_names() if n.lower() not in legit],
                 'unknown': ['nosuch', 'self', 'ctx', 'os', 'sys'] + (['txn', 'field'] if not view else ['description', 'amount', 'orders'])}[cls]
        tag = 'VIEW:' if view else ''
        for n in names:
            if shape == 'name':
                if cls == 'whitelisted_fn':
                    continue
                srcs.append((tag + n, out))
            else:
                if cls in ('primitive', 'variable', 'data_source'):
                    srcs.append((tag + '%s(1)' % n, {'err'}))
                else:
                    argsets = ('', '1', '"x"', 'payments', 'merchant, category', '"a", "b"') if view else \
                        ('', '1', '"x"', 'description', 'txn', '"os"', 'orders', '"a", "b"')
                    for args in argsets:
                        srcs.append((tag + '%s(%s)' % (n, args), out))
        return srcs
    attrs = {'txn_known': TXN_KNOWN, 'field_builtin': FIELD_BUILTIN, 'field_captured': ['kind', 'memo', 'KIND'],
             'row_key': ['item', 'n', 'AMOUNT'], 'str_method_ok': STR_OK, 'str_method_other': [n for n in dir(str) if not n.startswith('__') and n not in STR_OK],
             'dunder': dunder, 'other': other}[cls]
    # names that ARE in the receiver's own table belong to another attribute class of the model
    own = {'txn': 'txn_known', 'field': ('field_builtin', 'field_captured'), 'row': 'row_key', 'str': 'str_method_ok'}.get(recv)
    if cls != own and not (isinstance(own, tuple) and cls in own):
        legit = {'txn': TXN_KNOWN, 'field': FIELD_BUILTIN + ['kind', 'memo'], 'row': ['item', 'n', 'amount']}.get(recv, [])
        if shape == 'method' and recv == 'str':
            legit = STR_OK
        attrs = [a for a in attrs if a.lower() not in legit]
    for r in RECV[recv]:
        rp = r if r[0].isalpha() or r[0] in '"[(' else '(' + r + ')'
        if r in ('5', '1j', '...'):
            rp = '(' + r + ')'
        for a in attrs:
            if shape == 'attr':
                srcs.append(('%s.%s' % (rp, a), out))
            elif shape == 'method':
                for args in ('', '"x"', '"a", "b"', '1, 2, 3'):
                    srcs.append(('%s.%s(%s)' % (rp, a, args), out))
            elif shape == 'sub_int':
                for ix in ('0', '-1', '99'):
                    srcs.append(('%s[%s]' % (rp, ix), {'val', 'err'} if recv in ('list', 'str', 'exotic_const') else {'err'}))
                break
            else:
                srcs.append(('%s["%s"]' % (rp, a), out if recv == 'row' else ({'err', 'val'} if False else {'err'})))
    return srcs


def worker(item):
    srcs, origin = item
    fails = []
    n = 0
    classes = {}
    for src, allowed in srcs:
        if src.startswith('VIEW:'):            # a state of the view evaluator's name / function table: judged on the raw value
            src = src[5:]
            res = run_one(src, view=True, raw_view=True)
            n += 1
            classes[res['cls']] = classes.get(res['cls'], 0) + 1
            for clause, what in judge(src, res, allowed, origin):
                fails.append(({'site': 'view-evaluator', 'clause': clause, 'origin': origin},
                              {'expr': src, 'result': {k: str(v) for k, v in res.items()}, 'allowed': sorted(allowed) if allowed else None},
                              'view filter %r: %s' % (src, what)))
            continue
        for view in (False, True):
            if view and origin != 'payload':
                continue
            res = run_one(src, view=view)
            n += 1
            classes[res['cls']] = classes.get(res['cls'], 0) + 1
            for clause, what in judge(src, res, allowed if not view else None, origin):
                fails.append(({'site': 'view-evaluator' if view else 'transaction-evaluator', 'clause': clause, 'origin': origin},
                              {'expr': src, 'result': {k: str(v) for k, v in res.items()}, 'allowed': sorted(allowed) if allowed else None},
                              '%r: %s' % (src, what)))
    return n, classes, fails[:40]


def splice(rnd, payloads):
    a, b = rnd.choice(payloads), rnd.choice(payloads)
    k = rnd.randrange(6)
    if k == 0:
        return '%s and %s' % (a, b)
    if k == 1:
        return '[%s for r in orders if %s]' % (a, b)
    if k == 2:
        i = rnd.randrange(1, max(2, len(a)))
        return a[:i] + b[rnd.randrange(len(b)):]
    if k == 3:
        return 'next(%s for x in orders)' % a.replace('txn', 'x')
    if k == 4:
        return '(v := %s) and v%s' % (a, rnd.choice(['.__class__', '()', '[0]', '.__dict__', '']))
    return '%s if %s else %s' % (a, b, a)


def run(ck):
    quick = ck.tier == 'quick'
    ck.assumptions += ['confinement is observed through Python audit events (open, import, exec, compile outside parsing, os.*, '
                       'subprocess.*, socket.*, ctypes.*, object.__setattr__ ...), the type of every value returned, string results '
                       'scanned for reprs of interpreter objects, and deep equality of transaction / rows / variables / AST',
                       'bytes / complex / Ellipsis constants written literally by the user count as values the user supplied']
    res = tlc.run('Confine', 'MC_Confine.cfg', dump=None)
    tmp = tempfile.mkdtemp(prefix='c03_')
    try:
        dump = os.path.join(tmp, 'c.dump')
        res = tlc.run('Confine', 'MC_Confine.cfg', dump=dump)
        ck.expect_model_ok('Confine', res)
        states = [plain(s) for s in tlaval.parse_dump(dump)]
    finally:
        import shutil
        shutil.rmtree(tmp, ignore_errors=True)
    neg = tlc.run('Confine', 'MC_Confine_neg.cfg')
    ck.expect_model_violation('Confine/neg', neg)
    dunder, other = attr_names()
    rnd = random.Random(ck.seed)
    items = []
    nsrc = 0
    for st in states:
        srcs = concretise_state(st, dunder, other, rnd, quick)
        nsrc += len(srcs)
        for k in range(0, len(srcs), 400):
            items.append((srcs[k:k + 400], 'confine-table'))
    ck.extra['attribute_names'] = {'dunder': len(dunder), 'other': len(other)}
    # payload corpus and splices (not from TLC)
    pay = [(p, None) for p in PAYLOADS]
    nspl = 6000 if quick else 100000
    spl = [(splice(rnd, PAYLOADS), None) for _ in range(nspl)]
    for k in range(0, len(pay), 100):
        items.append((pay[k:k + 100], 'payload'))
    for k in range(0, len(spl), 500):
        items.append((spl[k:k + 500], 'splice'))
    probe_srcs = [r for rs in RECV.values() for r in rs] + [p for p in PAYLOADS if ',' not in p and '{' not in p and '}' not in p]
    for n, fails in par.pmap(engine_probe, [probe_srcs[k:k + 40] for k in range(0, len(probe_srcs), 40)]):
        ck.case(n=n)
        ck.trace(n)
        for sig, case, what in fails:
            ck.violation(sig, case, what)
    total = {}
    for n, classes, fails in par.pmap(worker, items):
        ck.case(n=n)
        ck.trace(n)
        for c, k in classes.items():
            total[c] = total.get(c, 0) + k
        for sig, case, what in fails:
            ck.violation(sig, case, what)
    for st in states:
        ck.case(json.dumps(st, sort_keys=True), nontrivial=True, n=0)
    for p in PAYLOADS:
        ck.case(p, nontrivial=True, n=0)
    ck.extra['outcome_classes'] = total
    if not total.get('val') or not total.get('err') or not total.get('rej'):
        raise core.Machinery('some outcome class never occurred: %s' % total)
    ck.sample({'payload': PAYLOADS[0], 'outcome': run_one(PAYLOADS[0])['cls']})
    ck.sample({'access_pattern_state': states[len(states) // 2]})
    ck.extra['rule'] = ('every (access shape x receiver class x attribute class) state of Confine.tla concretised with the real attribute '
                        'names of str/bytes/dict/list/set/float/int/bool/date/builtin/type/generator/TransactionContext on every receiver expression; the name and function tables of BOTH evaluators against builtins, dunder names and the public names of 13 standard modules; every AST node kind; %d escape payloads (both evaluators) '
                        'and random splices of them' % len(PAYLOADS))
    ck.exhaustive = True


def replay(ck, path):
    case = json.load(open(path))['case']
    print(case['expr'], run_one(case['expr']))
