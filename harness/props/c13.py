"""C13 – the report's in-browser classification equals the command-line classification."""
import json
import math
import os
import random
import re
import subprocess
import tempfile

import core
import par
import tlc
import tlaval
from props.totals_common import BUCKETS, decode, encode, run_trace_spec

JS_KEYS = {'income': 'income', 'investment': 'investment', 'transfer_in': 'transferIn',
           'transfer_out': 'transferOut', 'spending': 'spending', 'credits': 'credits'}


def js_block():
    """The classification block of the embedded script, read from the working tree."""
    path = os.path.join(core.repo_src(), 'tally', 'spending_report.js')
    src = open(path).read()
    m = re.search(r'//\s*TRANSACTION CLASSIFICATION.*?\n//\s*=+\n', src)
    if not m:
        raise core.Machinery('classification banner not found in spending_report.js')
    rest = src[m.end():]
    m2 = re.search(r'\n//\s*=+\s*\n', rest)
    block = rest[:m2.start()] if m2 else rest
    for fn in ('categorizeAmount', 'isExcludedFromSpending', 'calculateCashFlow'):
        if ('function ' + fn) not in block:
            raise core.Machinery('function %s not found in the JS classification block' % fn)
    return block


DRIVER = r'''
const fs = require('fs');
const cases = JSON.parse(fs.readFileSync(process.argv[2], 'utf8'));
const out = [];
for (const c of cases) {
  let amount = c.amount;
  if (c.negzero) amount = -0;
  let args;
  if (c.tagmode === 'missing') args = [amount];
  else if (c.tagmode === 'null') args = [amount, null];
  else args = [amount, c.tags];
  let r;
  try {
    const v = categorizeAmount.apply(null, args);
    r = {vec: v, excluded: isExcludedFromSpending(args[1]),
         cash: calculateCashFlow(c.cf[0], c.cf[1], c.cf[2])};
  } catch (e) { r = {error: String(e)}; }
  out.push(r);
}
process.stdout.write(JSON.stringify(out));
'''


def run_js(cases):
    block = js_block()
    d = tempfile.mkdtemp(prefix='c13_')
    try:
        with open(os.path.join(d, 'run.js'), 'w') as f:
            f.write(block + '\n' + DRIVER)
        with open(os.path.join(d, 'cases.json'), 'w') as f:
            json.dump(cases, f)
        p = subprocess.run(['node', os.path.join(d, 'run.js'), os.path.join(d, 'cases.json')],
                           stdout=subprocess.PIPE, stderr=subprocess.PIPE, text=True, timeout=600)
        if p.returncode != 0:
            # a JS block that does not even load is a behaviour of the code under test
            return None, p.stderr[-2000:]
        return json.loads(p.stdout), None
    finally:
        import shutil
        shutil.rmtree(d, ignore_errors=True)


def harvest_tag_words():
    """Every word the tool's own templates, help texts and documentation present as a tag.  Whatever they say about
    it, a word other than income / investment / transfer is an ORDINARY tag for both classifiers."""
    words = []
    roots = [os.path.join(core.repo_src(), 'tally'), os.path.join(os.path.dirname(core.repo_src()), 'docs')]
    for root in roots:
        for dp, _, fns in os.walk(root):
            for fn in sorted(fns):
                if not fn.endswith(('.py', '.md', '.rules', '.txt', '.js')):
                    continue
                try:
                    text = open(os.path.join(dp, fn), encoding='utf-8', errors='replace').read()
                except OSError:
                    continue
                for m in re.finditer(r'(?m)^[#\s]*tags:[ \t]*([A-Za-z_][A-Za-z0-9_, \t-]*)$', text):
                    words += [w.strip() for w in m.group(1).split(',')]
                sec = re.search(r'Special Tags(.*?)(?:\n[^#\n]|\n#\s*Example)', text, re.S)
                if sec:
                    words += re.findall(r'(?m)^#\s+([a-z_]+)\s+- ', sec.group(1))
    out = []
    for w in words:
        if w and re.fullmatch(r'[A-Za-z_][A-Za-z0-9_-]*', w) and w.lower() not in ('income', 'investment', 'transfer') and w not in out:
            out.append(w)
    return out[:24]


def run_py(cases):
    from tally import classification as C
    out = []
    for c in cases:
        amount = -0.0 if c.get('negzero') else c['amount']
        try:
            if c['tagmode'] == 'missing':
                tags = None     # Python has no default argument: "missing" = the caller's txn.get('tags') is None
            elif c['tagmode'] == 'null':
                tags = None
            else:
                tags = c['tags']
            out.append({'vec': C.categorize_amount(amount, tags), 'excluded': C.is_excluded_from_spending(tags),
                        'cash': C.calculate_cash_flow(*c['cf'])})
        except Exception as e:
            out.append({'error': repr(e)})
    return out


def _norm_vec(v, keymap, unit):
    out = {}
    for b in BUCKETS:
        x = v[keymap[b]] if keymap else v[b]
        y = x * unit
        if abs(y - round(y)) > 1e-6:
            return None
        out[b] = int(round(y))
    return out


def run(ck):
    quick = ck.tier == 'quick'
    rnd = random.Random(ck.seed)
    ck.assumptions += ['the JS block is executed by node v20, not by a browser; the Vue application around it is not run',
                       'a missing/null tag list is compared with Python tags=None']
    tmp = tempfile.mkdtemp(prefix='c13_')
    try:
        dump = os.path.join(tmp, 'cl.dump')
        res = tlc.run('MC_Classify', 'MC_Classify.cfg', dump=dump)
        ck.expect_model_ok('MC_Classify', res)
        states = list(tlaval.parse_dump(dump))
    finally:
        import shutil
        shutil.rmtree(tmp, ignore_errors=True)
    # ---- spec -> code: every exported case into both implementations -------------------
    cases, expect = [], []
    for st in states:
        c, o = st['case'], st['out']
        tags = [decode(t) for t in c['tags']]
        variants = [('list', False)]
        if not tags:
            variants += [('null', False), ('missing', False)]
        if c['amt'] == 0:
            variants += [(v[0], True) for v in list(variants)]
        for tagmode, negzero in variants:
            cf = [rnd.randint(0, 4000) / 4.0 for _ in range(3)]
            # totals that are exactly zero are totals too (a view without income, without refunds, without spending)
            z = rnd.randrange(8)
            if z < 3:
                cf[z] = 0.0
            elif z == 3:
                cf[0] = cf[2] = 0.0
            cases.append({'amount': c['amt'] / 4.0, 'tags': tags, 'tagmode': tagmode, 'negzero': negzero, 'cf': cf})
            expect.append({'vec': dict(o['vec']), 'excluded': o['excluded'], 'cash4': int(round((cf[0] - cf[1] + cf[2]) * 4))})
    js, err = run_js(cases)
    if js is None:
        ck.violation({'site': 'spending_report.js', 'clause': 'block does not execute'}, {'stderr': err},
                     'the JS classification block failed to run under node')
        return
    py = run_py(cases)
    for c, e, j, p in zip(cases, expect, js, py):
        ck.case(n=1)
        ck.trace(1)
        key = (c['amount'], tuple(c['tags']), c['tagmode'], c['negzero'])
        ck.case(key, nontrivial=bool(c['tags']) and c['amount'] != 0, n=0)
        for side, o, km in (('js', j, JS_KEYS), ('py', p, None)):
            if 'error' in o:
                ck.violation({'site': side, 'clause': 'exception'}, {'case': c, 'error': o['error']},
                             '%s classification raised on %r' % (side, c))
                continue
            v = _norm_vec(o['vec'], km, 4)
            diffs = []
            if v != e['vec']:
                diffs.append('categorize')
            if bool(o['excluded']) != e['excluded']:
                diffs.append('excluded')
            if int(round(o['cash'] * 4)) != e['cash4']:
                diffs.append('cash_flow')
            if diffs:
                ck.violation({'site': side, 'clause': diffs[0]},
                             {'case': c, 'expected': e, 'observed': o, 'side': side},
                             '%s side disagrees with Totals!Categorize on %s for amount=%r tags=%r' % (
                                 side, diffs, c['amount'], c['tags']))
    ck.sample({'case': cases[len(cases) // 2], 'spec': expect[len(cases) // 2], 'js': js[len(cases) // 2],
               'py': py[len(cases) // 2]})
    # ---- code -> spec: independently generated inputs through both sides, validated by Trace_Totals ---------
    n = 4000 if quick else 60000
    pool = ['income', 'Income', 'INCOME', 'iNCOME', 'investment', 'Investment', 'INVESTMENT', 'transfer', 'TRANSFER',
            'Transfer', 'food', 'x', '', 'incomes', ' income', 'İNCOME', 'İncome', 'ıncome', 'inveſtment', 'TRANSFER ',
            'ﬁle', 'ǅ', 'ß', 'ẞ', 'Σ', 'ς', 'K', 'İ',
            # ordinary tags that merely START or END with a special word (a tag is special only as a whole)
            'income-tax', 'Transfer-Fee', 'investment.fees', 'investment property', 'wire_transfer', 'non-income', 're:investment',
            'transfer/out', 'income tax', 'INCOME-2024']
    documented = harvest_tag_words()
    ck.extra['documented_tag_words'] = documented
    pool += documented + [w.upper() for w in documented[:6]]
    tcases = []
    for i in range(n):
        k = rnd.choice([0, 1, 1, 2, 3, 4])
        tags = [rnd.choice(pool) for _ in range(k)]
        cents = rnd.choice([0, 1, -1, rnd.randint(-10**8, 10**8), rnd.randint(-1000, 1000)])
        cf = [rnd.randint(0, 10**6) for _ in range(3)]
        z = rnd.randrange(8)
        if z < 3:
            cf[z] = 0
        elif z == 3:
            cf[0] = cf[2] = 0
        tcases.append({'amount': cents / 100.0, 'cents': cents, 'tags': tags, 'tagmode': 'list', 'negzero': False,
                       'cf': [x / 100.0 for x in cf], 'cfc': cf})
    # arbitrary floats: differential only (the spec works on exact sub-units)
    fcases = []
    for i in range(n // 2):
        mag = rnd.choice([1e-9, 1e-3, 1.0, 1e3, 1e9, 1e15])
        fcases.append({'amount': rnd.uniform(-1, 1) * mag, 'tags': [rnd.choice(pool) for _ in range(rnd.randint(0, 3))],
                       'tagmode': 'list', 'negzero': False, 'cf': [0.0 if rnd.random() < 0.2 else rnd.random() * mag for _ in range(3)]})
    js, err = run_js(tcases + fcases)
    py = run_py(tcases + fcases)
    recs = []
    for i, (c, j, p) in enumerate(zip(tcases, js, py)):
        if 'error' in j or 'error' in p:
            ck.violation({'site': 'js' if 'error' in j else 'py', 'clause': 'exception'}, {'case': c, 'js': j, 'py': p},
                         'classification raised on recorded case')
            continue
        vj, vp = _norm_vec(j['vec'], JS_KEYS, 100), _norm_vec(p['vec'], None, 100)
        if vj is None or vp is None:
            ck.violation({'site': 'js/py', 'clause': 'non-integral'}, {'case': c, 'js': j, 'py': p}, 'bucket value is not the amount')
            continue
        recs.append({'id': 'k%d' % i, 'kind': 'classify', 'amt': c['cents'], 'tags': [encode(t) for t in c['tags']],
                     'cf': c['cfc'],
                     'py': {'vec': vp, 'excluded': bool(p['excluded']), 'cash': int(round(p['cash'] * 100))},
                     'js': {'vec': vj, 'excluded': bool(j['excluded']), 'cash': int(round(j['cash'] * 100))}})
    tam = json.loads(json.dumps(recs[0]))
    tam['id'] = 'TAMPER'
    tam['js']['excluded'] = not tam['js']['excluded']
    rej = run_trace_spec(ck, 'Trace_Totals/classify', recs + [tam])
    if 'TAMPER' not in rej and recs[0]['id'] not in rej:      # (a flip of an already rejected record may be right)
        raise core.Machinery('Trace_Totals accepted a tampered classify record')
    rej.pop('TAMPER', None)
    ck.trace(len(recs))
    ck.case(n=len(recs))
    byid = {('k%d' % i): c for i, c in enumerate(tcases)}
    for rid, clauses in rej.items():
        if any(c.startswith('MODEL') for c in clauses):
            raise core.Machinery('Trace_Totals model inconsistency: %s' % clauses)
        side = sorted(clauses)[0].split('.')[0]
        ck.violation({'site': side, 'clause': sorted(clauses)[0].split('.', 1)[1]},
                     {'case': byid[rid], 'failing_clauses': sorted(clauses)},
                     'recorded classification rejected by Trace_Totals: %s' % sorted(clauses))
    for c, j, p in zip(fcases, js[len(tcases):], py[len(tcases):]):
        ck.case(n=1)
        bad = None
        if ('error' in j) != ('error' in p):
            bad = 'exception on one side only'
        elif 'error' not in j:
            for b in BUCKETS:
                a, bb = j['vec'][JS_KEYS[b]], p['vec'][b]
                if a != bb:
                    bad = 'bucket %s: js=%r py=%r' % (b, a, bb)
            if bool(j['excluded']) != bool(p['excluded']):
                bad = 'excluded differs'
            if j['cash'] != p['cash'] and not (abs(j['cash'] - p['cash']) <= 1e-9 * max(1, abs(p['cash']))):
                bad = 'cash flow differs'
        if bad:
            ck.violation({'site': 'js-vs-py', 'clause': bad.split(':')[0]}, {'case': c, 'js': j, 'py': p},
                         'browser and command line disagree: ' + bad)
    ck.extra['rule'] = ('MC: 7 amounts x 82 tag lists (every subset of the special tags x 3 letter cases x with/without an '
                        'ordinary tag x order, near misses), plus null/missing tag list and -0 variants; traces: random cents '
                        'amounts and float amounts with tag pool incl. non-ASCII case-mapping characters and every word that tally presents as a tag in its templates and help. non-trivial = '
                        'non-empty tag list and non-zero amount')
    ck.exhaustive = False


def replay(ck, path):
    case = json.load(open(path))['case']
    c = case['case']
    js, err = run_js([c])
    py = run_py([c])
    print('case', c, '\njs', js, '\npy', py, '\nexpected', case.get('expected'))
