"""C07 – classification depends only on current rules and the transaction, not history (spec module Process)."""
import copy
import datetime
import json
import os
import random
import shutil
import tempfile

import core
import par
import simtrace
import tlc
from props.totals_common import run_trace_spec

# ---------------------------------------------------------------- concrete world -----------------------------
R1 = '''# rules one
big = amount > 40
ach = field.kind == "ACH"
field.memo2 = trim(field.nosuchcolumn)
field.description = regex_replace(field.description, "^APLPAY\\\\s+", "")

[Coffee]
match: startswith("ALFA")
category: Food
subcategory: Coffee
tags: r1, {field.kind}
field: note = "ALFA-Note"

[Large]
match: big
tags: large

[Ach]
match: ach
tags: viaach

[Charlie]
let: z = amount * 2
match: contains("CHARLIE") and z > 50
category: Shopping
field: item = [r.item for r in orders if r.amount == txn.amount]

[Ordered]
match: (hits := [r for r in orders if r.amount == txn.amount]) and len(hits) > 0 and (z := 1) > 0
tags: ordered

[Dated]
match: len([r for r in orders if r.amount == txn.amount and r.when >= "2025-01-01"]) > 0
tags: dated

[Numbered]
let: num = extract("#(\\d+)")
let: tail = substring(0, 6)
let: hits2 = [r for r in orders if r.item == num]
match: num == "123"
tags: numbered, {tail}
'''
R2 = '''# rules two: same rule names and expression texts, different meaning
big = amount > 400

[Coffee]
match: startswith("ALFA")
category: Drinks
tags: r2
field: note = "alfa-note"

[Large]
match: big
tags: large

[Charlie]
let: z = amount * 3
match: contains("CHARLIE") and z > 50
category: Fun
subcategory: Toys

[Apple]
match: contains("APLPAY")
category: Wallet

[Hits]
let: hits = [r for r in orders if r.amount > 1000]
match: len(hits) > 0
category: Refunded

[Shop Tag]
match: contains("SHOP") and amount > 0
tags: shoptag

[Store Tag]
match: contains("STORE")
tags: storetag
'''
# (R1 and R2 have the same NUMBER of rules, and different literals at the same positions: whatever an engine object remembers
#  per rule position across parse() calls shows up)
# R3 / R4: read with rule_mode most_specific (first line, decoded by _load); identical rule names and match expressions,
# only the priorities differ - so anything remembered per expression text across loads (a specificity, a compiled matcher,
# a winner) shows up as a stale decision
R3 = '''# mode: most_specific
field.description = regex_replace(field.description, "^APLPAY\\\\s+", "")

[Coffee]
match: startswith("ALFA")
category: Food
subcategory: Coffee
priority: 80

[Alfa Store]
match: contains("ALFA STORE")
category: Shopping
tags: r3

[Charlie]
match: contains("CHARLIE")
category: Fun
priority: 0

[Shop]
match: contains("SHOP")
category: Shopping
priority: 30
'''
R4 = '''# mode: most_specific
field.description = regex_replace(field.description, "^APLPAY\\\\s+", "")

[Coffee]
match: startswith("ALFA")
category: Food
subcategory: Coffee
priority: 20

[Alfa Store]
match: contains("ALFA STORE")
category: Shopping
tags: r4

[Charlie]
match: contains("CHARLIE")
category: Fun
priority: 60

[Shop]
match: contains("SHOP")
category: Shopping
priority: 30
'''
# (a file the loader rejects: its expression uses a construct outside the language, next to an ordinary regex escape; it is
#  rejected the second time it is loaded exactly as it is the first time)
RBAD = '''[Coffee]
match: regex("ALFA\\s+STORE") and description in ["x", "APLPAY ALFA STORE #123"]
category: Food

[Bare]
category: Food
'''
# The CSV files carry the same NUMBER of rules and the same merchant NAMES, in the same order, as R1 resp. R2 (the natural case: the
# legacy file a .rules file was once migrated from, edited since): whatever they have in common with a rule set loaded earlier,
# they are classified by what THEY say.
def _names(rules_text):
    import re as _re
    return _re.findall(r'^\[(.+)\]\s*$', rules_text, _re.M)


def _csv_like(rules_text, rows):
    """A legacy CSV with as many rules as `rules_text` and the same merchant names in the same order: the given rows (pattern,
    category, subcategory, tags) for the first names, rows that match nothing for the rest."""
    names = _names(rules_text)
    out = ['Pattern,Merchant,Category,Subcategory,Tags', '# legacy rules']
    for k, name in enumerate(names):
        pat, cat, sub, tags = rows[k] if k < len(rows) else ('ZZZQ%d' % k, 'CsvNever', 'Two', '')
        out.append('%s,%s,%s,%s,%s' % (pat, name, cat, sub, tags))
    return '\n'.join(out) + '\n'


# (the first rule of K1 only tags, with a plain lower-case tag, and matches every transaction of the world: whatever a later
#  matching rule adds for one transaction must not stay with this rule for the next)
K1 = _csv_like(R1, [('\\d\\d', '', '', 'num'), ('ALFA', 'CsvFood', 'One', 'k1'), ('ZZZQ1', 'CsvNever', 'One', ''),
                    ('CHARLIE[amount>20]', 'CsvShop', 'One', '')])
K2 = _csv_like(R2, [('CHARLIE', 'CsvTwo', 'Two', 'k2|legacy'), ('APLPAY\\s+ALFA', 'CsvTwo', 'Two', '')])
CONTENT = {'R1': R1, 'R2': R2, 'R3': R3, 'R4': R4, 'RBAD': RBAD, 'K1': K1, 'K2': K2}
MISSING = {'RMISSING', 'KMISSING'}
ROK = ['R1', 'R2', 'R3', 'R4']

TXNS = {
    't1': dict(description='APLPAY ALFA STORE #123', amount=50.0, date=datetime.date(2025, 3, 15),
               field={'kind': 'ACH', 'memo': 'PROJ:x1'}, source='Card', location='WA'),
    't2': dict(description='Charlie Shop 99', amount=30.0, date=datetime.date(2024, 12, 31),
               field=None, source='Bank', location=None),
    # two statement rows can agree in everything a statement always has (description, amount, date, source, location) and
    # still be different transactions: t3 is t1 with other captured columns, t4 is t2 looked up in other supplemental data
    't3': dict(description='APLPAY ALFA STORE #123', amount=50.0, date=datetime.date(2025, 3, 15),
               field={'kind': 'wire', 'memo': 'other'}, source='Card', location='WA'),
    't4': dict(description='Charlie Shop 99', amount=30.0, date=datetime.date(2024, 12, 31),
               field=None, source='Bank', location=None, ds='alt'),
}
# (a supplemental row's date cell is a date when it could be read as one and the cell's text otherwise: the SAME comparison meets
#  a date for one transaction and a text for the next)
DATA_SOURCES = {'orders': [{'item': 'Widget', 'amount': 30.0, 'when': datetime.date(2025, 2, 1)}, {'item': 'Gadget', 'amount': 50.0, 'when': 'Pending'}]}
DATA_SOURCES_ALT = {'orders': [{'item': 'Paperback', 'amount': 30.0, 'when': 'n/a'}, {'item': 'Tent', 'amount': 2000.0, 'when': datetime.date(2024, 5, 5)}]}


def _ds(t):
    return DATA_SOURCES_ALT if t.get('ds') == 'alt' else DATA_SOURCES


# One run of a command hands the SAME supplemental-data object to every classification (cmd_run loads it once): the harness does
# too - one live object per data set and process, compared with the pristine constant after every call (and replaced if a call
# changed it)
_LIVE_DS = {}


def _live_ds(t):
    key = 'alt' if t.get('ds') == 'alt' else 'std'
    if key not in _LIVE_DS:
        _LIVE_DS[key] = copy.deepcopy(_ds(t))
    return _LIVE_DS[key]


def _ds_intact(t):
    key = 'alt' if t.get('ds') == 'alt' else 'std'
    ok = _LIVE_DS.get(key) == _ds(t)
    if not ok:
        _LIVE_DS[key] = copy.deepcopy(_ds(t))
    return ok
EXPRS = {
    'e1': 'contains("ALFA") and amount > 20',
    'e2': 'regex("ch.rlie") or extract("#(\\\\d+)") == "123"',
    # cache-key hazards: texts that differ only in letter case / inner blanks but mean different things
    'e3': 'description.replace("ALFA", "x")',
    'e4': 'description.replace("Alfa", "x")',
    'e5': '"a b" + description',
    'e6': '"a  b" + description',
    # names bound by := in one evaluation (successful or failing) and read free by a later one
    'e7': '(amt2 := amount * 2) > 50 and (lim2 := 5) > 0',
    'e8': 'amt2 > 10 or lim2 > 1',
    'e9': '(big2 := amount) > 0 and (description := "zz") == "zz" and amount < "x"',
    'e10': 'big2 > 1 or description == "zz"',
    # patterns that differ only in the letter case of an escape class mean different things
    'e11': 'regex("shop \\\\d") or regex("STORE \\\\S\\\\d")',
    'e12': 'regex("shop \\\\D") or regex("STORE \\\\s\\\\D")',
    'e13': 'extract("(\\\\w+)$")',
    'e14': 'extract("(\\\\W+)$")',
    # outside the language (keyword argument, list display) next to a regex escape: refused every time it is evaluated
    'e15': 'regex("ALFA\\\\s+STORE") and round(amount, ndigits=0) == 50',
    'e16': 'regex("ALFA\\\\s+STORE") and amount in [50.0, 5.0]',
}


def _write(dirpath, p, c):
    path = os.path.join(dirpath, p)
    if c in MISSING:
        if os.path.exists(path):
            os.unlink(path)
    else:
        with open(path, 'w') as f:
            f.write(CONTENT[c])
    return path


def _classify(rules, transforms, tname):
    from tally.merchant_utils import normalize_merchant
    t = TXNS[tname]
    field = copy.deepcopy(t['field'])
    ds = _live_ds(t)
    rules_before = copy.deepcopy([tuple(r[:4]) + (list(r[6]) if len(r) > 6 else None,) for r in rules])
    r = normalize_merchant(t['description'], rules, amount=t['amount'], txn_date=t['date'], field=field,
                           data_source=t['source'], transforms=transforms, location=t['location'], data_sources=ds)
    mi = r[3] or {}
    obs = [r[0], r[1], r[2], sorted(mi.get('tags', [])), json.dumps(mi.get('extra_fields', {}), sort_keys=True, default=str)]
    mutated = []
    if not _ds_intact(t):
        mutated.append('data_sources')
    if rules_before != [tuple(r[:4]) + (list(r[6]) if len(r) > 6 else None,) for r in rules]:
        mutated.append('rules')
    if (field or {}) != (t['field'] or {}):
        allowed = {tp[0][6:] for tp in (transforms or [])}
        changed = {k for k in set(field or {}) | set(t['field'] or {}) if (field or {}).get(k) != (t['field'] or {}).get(k)}
        if not changed <= allowed:
            mutated.append('field:' + ','.join(sorted(changed - allowed)))
    return obs, mutated


def _load(path, cli_order=True):
    """One load as the commands perform it: cmd_run / explain / discover / diag ask for the transforms FIRST and for the rules
    second; library callers may do it the other way round (cli_order=False)."""
    from tally.merchant_utils import get_all_rules, get_transforms
    mode = 'first_match'
    if path and os.path.exists(path):
        with open(path) as f:
            if f.readline().startswith('# mode: most_specific'):
                mode = 'most_specific'
    if cli_order:
        transforms = get_transforms(path, match_mode=mode) if path else []
        rules = get_all_rules(path, match_mode=mode)
    else:
        rules = get_all_rules(path, match_mode=mode)
        transforms = get_transforms(path, match_mode=mode) if path else []
    return rules, transforms


def _engine_match(c, tname):
    from tally.merchant_engine import parse_merchants
    t = dict(TXNS[tname])
    t['field'] = copy.deepcopy(t['field'])
    dsrc = copy.deepcopy(_ds(t))
    t.pop('ds', None)
    eng = parse_merchants(CONTENT[c], 'most_specific' if CONTENT[c].startswith('# mode: most_specific') else 'first_match')
    r = eng.match(t, data_sources=dsrc)
    return [r.merchant, r.category, r.subcategory, sorted(r.tags), json.dumps(r.extra_fields, sort_keys=True, default=str)]


def _obj_new():
    from tally.merchant_engine import MerchantEngine
    return MerchantEngine()


def _obj_match(eng, tname):
    t = dict(TXNS[tname])
    t['field'] = copy.deepcopy(t['field'])
    dsrc = _live_ds(t)
    t.pop('ds', None)
    r = eng.match(t, data_sources=dsrc)
    return [r.merchant, r.category, r.subcategory, sorted(r.tags), json.dumps(r.extra_fields, sort_keys=True, default=str)]


def _evaluate(e, tname):
    from tally import expr_parser
    t = dict(TXNS[tname])
    dsrc = _ds(t)
    t.pop('ds', None)
    try:
        return repr(expr_parser.evaluate_transaction(EXPRS[e], t, data_sources=dsrc))
    except expr_parser.ExpressionError as ex:
        return 'ExpressionError'


def _fresh_ref(item):
    """Runs in a freshly forked interpreter: the reference for one (kind, content-or-expr, txn)."""
    kind, x, tname = item
    d = tempfile.mkdtemp(prefix='c07ref_')
    try:
        if kind == 'classify':
            if x == 'empty':
                rules, transforms = _load(None)
            else:
                ext = 'rules' if x.startswith('R') else 'csv'
                path = _write(d, 'f.' + ext, x)
                rules, transforms = _load(path)
            return (kind, x, tname), _classify(rules, transforms, tname)[0]
        if kind == 'match':
            return (kind, x, tname), _engine_match(x, tname)
        if kind == 'objmatch':
            eng = _obj_new()
            eng.parse(CONTENT[x])
            return (kind, x, tname), _obj_match(eng, tname)
        return (kind, x, tname), _evaluate(x, tname)
    finally:
        shutil.rmtree(d, ignore_errors=True)


def reference_table():
    items = []
    for c in ['empty'] + ROK + ['K1', 'K2']:
        for t in TXNS:
            items.append(('classify', c, t))
    for c in ROK:
        for t in TXNS:
            items.append(('match', c, t))
            items.append(('objmatch', c, t))
    for e in EXPRS:
        for t in TXNS:
            items.append(('eval', e, t))
    return dict(par.fresh_map(_fresh_ref, items))


def _run_ops(item, ref):
    """Runs in a freshly forked interpreter: execute one behaviour (list of ops), return events + mismatches."""
    name, disk0, ops = item
    d = tempfile.mkdtemp(prefix='c07run_')
    events = []
    try:
        paths = {}
        for p, c in disk0.items():
            paths[p] = _write(d, p, c)
        rules, transforms = [], []
        engobj = _obj_new()         # ONE engine object for the whole behaviour: parse() may be called on it again and again
        for opi, op in enumerate(ops):
            o = op['op']
            ev = dict(op)
            try:
                if o == 'write':
                    _write(d, op['p'], op['c'])
                elif o == 'load':
                    if op['p'] == 'none':
                        rules, transforms = _load(None)
                    else:
                        rules, transforms = _load(paths[op['p']], cli_order=opi % 3 != 2)
                elif o == 'classify':
                    ev['obs'], ev['mutated'] = _classify(rules, transforms, op['t'])
                elif o == 'match':
                    ev['obs'] = _engine_match(op['c'], op['t'])
                elif o == 'eval':
                    ev['obs'] = _evaluate(op['e'], op['t'])
                elif o == 'objparse':
                    engobj.parse(CONTENT[op['c']])
                elif o == 'objmatch':
                    ev['obs'] = _obj_match(engobj, op['t'])
                elif o == 'clear':
                    from tally.merchant_utils import clear_engine_cache
                    clear_engine_cache()
            except Exception as ex:
                ev['exception'] = repr(ex)
            events.append(ev)
    finally:
        shutil.rmtree(d, ignore_errors=True)
    return name, disk0, events


def _ops_from_states(states):
    ops = []
    for st in states[1:]:
        l = dict(st['last'])
        ops.append(l)
    return dict(states[0]['disk']), ops


def _judge(ck, name, disk0, events, ref, origin):
    """Compare the events of one executed behaviour with the fresh-process reference (the spec says which rule set
    must have decided: the one the last Load returned)."""
    disk = dict(disk0)
    passed = 'empty'
    objc = None
    hist = []
    for ev in events:
        o = ev['op']
        hist.append({k: v for k, v in ev.items() if k not in ('obs', 'mutated')})
        if 'exception' in ev:
            ck.violation({'site': o, 'clause': 'exception'}, {'behaviour': hist, 'disk0': disk0, 'exception': ev['exception']},
                         '%s raised %s' % (o, ev['exception']))
            return False
        if o == 'write':
            disk[ev['p']] = ev['c']
        elif o == 'load':
            c = 'none' if ev['p'] == 'none' else disk[ev['p']]
            passed = c if c in ROK + ['K1', 'K2'] else 'empty'
            hist[-1]['loads_content'] = c
        elif o == 'classify':
            if 'by' in ev and origin == 'tlc' and ev['by'] != passed:
                raise core.Machinery('harness and spec disagree on passed: %s vs %s' % (ev['by'], passed))
            want = ref[('classify', passed, ev['t'])]
            if ev['obs'] != want:
                prev_loads = [h.get('loads_content') for h in hist if h['op'] == 'load']
                stale = next((c for c in reversed(prev_loads[:-1]) if c in ROK and
                              ref[('classify', c, ev['t'])] == ev['obs']), None)
                sig = {'site': 'normalize_merchant', 'clause': 'stale-engine' if stale else 'result',
                       'current_kind': 'csv' if passed.startswith('K') else ('rules' if passed.startswith('R') else 'none')}
                ck.violation(sig, {'behaviour': hist, 'disk0': disk0, 'expected': want, 'observed': ev['obs'],
                                   'current_rules': passed, 'stale_from': stale},
                             'classification of %s under most recently loaded rule set %s is %s, fresh process gives %s%s'
                             % (ev['t'], passed, ev['obs'], want, (' (= result under earlier %s)' % stale) if stale else ''))
                return False
            if ev['mutated']:
                ck.violation({'site': 'normalize_merchant', 'clause': 'mutates:' + ev['mutated'][0]},
                             {'behaviour': hist, 'disk0': disk0}, 'classifying mutated %s' % ev['mutated'])
                return False
        elif o == 'match':
            if ev['obs'] != ref[('match', ev['c'], ev['t'])]:
                ck.violation({'site': 'MerchantEngine.match', 'clause': 'result'},
                             {'behaviour': hist, 'disk0': disk0, 'expected': ref[('match', ev['c'], ev['t'])], 'observed': ev['obs']},
                             'engine match differs from fresh process')
                return False
        elif o == 'objparse':
            objc = ev['c']
        elif o == 'objmatch':
            if 'by' in ev and origin == 'tlc' and ev['by'] != objc:
                raise core.Machinery('harness and spec disagree on the engine object content: %s vs %s' % (ev['by'], objc))
            want = ref[('objmatch', objc, ev['t'])] if objc else None
            if ev['obs'] != want:
                ck.violation({'site': 'MerchantEngine.parse+match', 'clause': 'reused-engine-object'},
                             {'behaviour': hist, 'disk0': disk0, 'expected': want, 'observed': ev['obs'], 'parsed_last': objc},
                             'an engine object that parsed %s last matches %s as %s; a fresh engine that parsed only %s gives %s'
                             % (objc, ev['t'], ev['obs'], objc, want))
                return False
        elif o == 'eval':
            if ev['obs'] != ref[('eval', ev['e'], ev['t'])]:
                ck.violation({'site': 'evaluate_transaction', 'clause': 'result'},
                             {'behaviour': hist, 'disk0': disk0, 'expected': ref[('eval', ev['e'], ev['t'])], 'observed': ev['obs']},
                             'expression value differs from fresh process')
                return False
    return True


def _random_behaviour(rnd, n):
    disk0 = {'a.rules': rnd.choice(ROK + ['RBAD', 'RMISSING']), 'b.rules': rnd.choice(ROK + ['RBAD', 'RMISSING']),
             'c.csv': rnd.choice(['K1', 'K2', 'KMISSING'])}
    ops = []
    for _ in range(n):
        r = rnd.random()
        if r < 0.15:
            p = rnd.choice(list(disk0))
            c = rnd.choice(ROK + ['RBAD', 'RMISSING'] if p.endswith('.rules') else ['K1', 'K2', 'KMISSING'])
            ops.append({'op': 'write', 'p': p, 'c': c})
        elif r < 0.45:
            ops.append({'op': 'load', 'p': rnd.choice(list(disk0) + ['none'])})
        elif r < 0.75:
            ops.append({'op': 'classify', 't': rnd.choice(list(TXNS))})
        elif r < 0.82:
            ops.append({'op': 'match', 'c': rnd.choice(ROK), 't': rnd.choice(list(TXNS))})
        elif r < 0.88:
            ops.append({'op': 'objparse', 'c': rnd.choice(ROK)})
        elif r < 0.93:
            if any(x['op'] == 'objparse' for x in ops):
                ops.append({'op': 'objmatch', 't': rnd.choice(list(TXNS))})
        else:
            ops.append({'op': 'eval', 'e': rnd.choice(list(EXPRS)), 't': rnd.choice(list(TXNS))})
    return disk0, ops


def run(ck):
    quick = ck.tier == 'quick'
    ck.assumptions += ['rule-file semantics is uninterpreted in Process.tla: the reference result for (rule set, transaction) '
                       'comes from the real code run in a freshly forked interpreter',
                       'fixed concrete world: 2 valid .rules contents with identical rule names/expression texts but different '
                       'meaning, 1 unparsable .rules, 2 legacy CSV contents, missing files, 4 transactions (two pairs that agree in description/amount/date/source/location and differ in captured columns resp. supplemental data), 14 expressions']
    # 1. model: the intended protocol satisfies C07; the two deviant protocols are refuted (non-vacuity)
    res = tlc.run('MC_Process', 'MC_Process_intended.cfg', coverage=True)
    ck.expect_model_ok('MC_Process/intended', res)
    for impl in ('pinned', 'bypath'):
        ck.expect_model_violation('MC_Process/' + impl, tlc.run('MC_Process', 'MC_Process_%s_neg.cfg' % impl), 'HistoryIndependent')
    ck.expect_model_ok('MC_Process/obj', tlc.run('MC_Process', 'MC_Process_obj.cfg'))
    ck.expect_model_violation('MC_Process/staleaux', tlc.run('MC_Process', 'MC_Process_staleaux_neg.cfg'), 'ObjHistoryIndependent')
    ref = reference_table()
    ck.sample({'fresh_process_reference': {'%s/%s/%s' % k: v for k, v in list(ref.items())[:4]}})
    # 2. spec -> code: behaviours generated by TLC, executed in one interpreter each
    tmp = tempfile.mkdtemp(prefix='c07_')
    try:
        num = 400 if quick else 6000
        sim = tlc.run('MC_Process', 'MC_Process_sim.cfg', simulate='file=%s/tr,num=%d' % (tmp, num), depth=16, workers=1,
                      seed=ck.seed + 1)
        if sim.error or sim.violated:
            raise core.Machinery('simulation failed: %s %s' % (sim.error, sim.violated))
        items = []
        for f, (labels, states) in simtrace.behaviours(tmp):
            disk0, ops = _ops_from_states(states)
            items.append((os.path.basename(f), disk0, ops))
    finally:
        shutil.rmtree(tmp, ignore_errors=True)
    if len(items) < num:
        raise core.Machinery('TLC wrote %d behaviours, expected %d' % (len(items), num))
    seen_actions = set()
    results = par.fresh_map(_run_ops, items, extra=(None,))
    for name, disk0, events in results:
        ck.case(n=1)
        ck.trace(1)
        kinds = [e['op'] for e in events]
        seen_actions.update(kinds)
        loads = [e for e in events if e['op'] == 'load']
        ck.case(json.dumps([{k: v for k, v in e.items() if k in ('op', 'p', 'c', 't', 'e')} for e in events]),
                nontrivial=len(loads) >= 2 and 'classify' in kinds, n=0)
        _judge(ck, name, disk0, events, ref, 'tlc')
    if not {'write', 'load', 'classify', 'match', 'eval', 'objparse', 'objmatch'} <= seen_actions:
        raise core.Machinery('simulated behaviours never took some action: %s' % seen_actions)
    ck.sample({'tlc_behaviour': [{k: v for k, v in e.items() if k != 'mutated'} for e in results[0][2][:6]]})
    # 3. code -> spec: random histories (not from TLC), recorded and validated by Trace_Process
    rnd = random.Random(ck.seed)
    n_hist = 300 if quick else 5000
    hists = []
    for i in range(n_hist):
        disk0, ops = _random_behaviour(rnd, rnd.randint(3, 25))
        hists.append(('h%d' % i, disk0, ops))
    # the scenario C07 is about, for every ordered pair of contents: load, classify, EDIT THE SAME FILE, load again, classify
    # (op positions chosen so that both load orders - transforms first / rules first - occur for the second load)
    k = 0
    for x in ROK + ['RBAD']:
        for y in ROK:
            if x == y:
                continue
            for pad in (0, 1):
                ops = [{'op': 'load', 'p': 'a.rules'}, {'op': 'classify', 't': 't1'}] + [{'op': 'eval', 'e': 'e1', 't': 't2'}] * pad + \
                      [{'op': 'write', 'p': 'a.rules', 'c': y}, {'op': 'load', 'p': 'a.rules'}, {'op': 'classify', 't': 't1'}, {'op': 'classify', 't': 't2'}]
                hists.append(('edit%d' % k, {'a.rules': x, 'b.rules': 'RMISSING', 'c.csv': 'KMISSING'}, ops))
                k += 1
    # the same on ONE engine object: parse x, match, parse y, match (every ordered pair; with and without a match in between)
    for x in ROK:
        for y in ROK:
            if x == y:
                continue
            for mid in (['t1'], ['t1', 't2', 't3'], []):
                ops = [{'op': 'objparse', 'c': x}] + [{'op': 'objmatch', 't': t} for t in mid] + [{'op': 'objparse', 'c': y}] + \
                      [{'op': 'objmatch', 't': t} for t in ('t1', 't2', 't3', 't4')]
                hists.append(('obj%d' % k, {'a.rules': 'RMISSING', 'b.rules': 'RMISSING', 'c.csv': 'KMISSING'}, ops))
                k += 1
    results = par.fresh_map(_run_ops, hists, extra=(None,))
    # value table: every distinct observation gets an integer id so TLC compares ids
    ids = {}

    def vid(x):
        return ids.setdefault(json.dumps(x, sort_keys=True), len(ids) + 1)
    reftab = {'%s|%s|%s' % k: vid(v) for k, v in ref.items()}
    recs = []
    byname = {}
    for name, disk0, events in results:
        byname[name] = (disk0, events)
        evs = []
        for e in events:
            x = {'op': e['op'], 'p': e.get('p', ''), 'c': e.get('c', ''), 't': e.get('t', ''), 'e': e.get('e', ''),
                 'obs': vid(e['obs']) if 'obs' in e else 0,
                 'bad': ('exception' in e) or bool(e.get('mutated'))}
            evs.append(x)
        recs.append({'id': name, 'disk0': disk0, 'events': evs})
    header = {'id': 'REF', 'ref': reftab}
    tam = json.loads(json.dumps(next(r for r in recs if any(e['op'] == 'classify' for e in r['events']))))
    tam['id'] = 'TAMPER'
    for e in tam['events']:
        if e['op'] == 'classify':
            e['obs'] = e['obs'] + 1000
    rej = run_trace_spec(ck, 'Trace_Process', [header] + recs + [tam], module='Trace_Process', cfg='Trace_Process.cfg')
    if 'TAMPER' not in rej:
        raise core.Machinery('Trace_Process accepted a tampered history')
    rej.pop('TAMPER')
    ck.trace(len(recs))
    ck.case(n=len(recs))
    for name, (disk0, events) in byname.items():
        ok = _judge(ck, name, disk0, events, ref, 'random')
        if ok and name in rej:
            raise core.Machinery('Trace_Process rejects %s (%s) but the direct judge accepts it' % (name, rej[name]))
        if not ok and name not in rej:
            raise core.Machinery('direct judge rejects %s but Trace_Process accepts it' % name)
        kinds = [e['op'] for e in events]
        ck.case(name + json.dumps(kinds), nontrivial=kinds.count('load') >= 2 and 'classify' in kinds, n=0)
    ck.extra['rule'] = ('behaviours: TLC -simulate over Process.tla (depth 16) and seeded random histories of 3..25 operations '
                        '{write, load(.rules/.csv/missing/unparsable/None), classify, engine match, evaluate, clear, parse / match on one long-lived engine object}; each is run in '
                        'ONE freshly forked interpreter and every result compared with a fresh-process reference; '
                        'non-trivial = at least two loads and a classify')
    ck.exhaustive = False


def replay(ck, path):
    case = json.load(open(path))['case']
    ops = [{k: v for k, v in h.items() if k != 'loads_content'} for h in case['behaviour']]
    ref = reference_table()
    name, disk0, events = par.fresh_map(_run_ops, [('replay', case['disk0'], ops)], extra=(None,))[0]
    print(json.dumps(events, indent=1, default=str))
    _judge(ck, name, disk0, events, ref, 'random')
