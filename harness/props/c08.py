"""C08 – a rule that fails to evaluate is skipped; it never aborts classification
(spec modules Expr [outcome Err], Engine [ErrorIsAbsence], MC_Expr with ill-typed wraps, Trace_Expr)."""
import datetime
import json
import os
import random
import shutil
import tempfile

import cli
import core
import exprabs as X
import par
import tlc
from exprenvs import ENVS
from props import c04, engine_common
from props.engine_common import plain
from props.totals_common import run_trace_spec

# expressions the loader accepts but that cannot be evaluated (for some or all transactions)
ILL = ['amount > "x"', 'contains(5)', '-description == 1', 'len(amount) > 0', 'next(r.n for r in nolines) > 0',
       'max(r.n for r in nolines) > 0', 'description + 1 == 2', 'field.nope == "x"', 'unknownvar', 'regex("(")',
       'regex_replace(description, "(", "") == ""', 'orders[9].n == 1', 'date - 1 > 0', 'any([x for x in 5])',
       'sum(description) > 1', 'amount in description', 'split(" ", "x") == ""', 'substring("a", "b") == ""',
       'txn.bogus == 1', 'nosuchfn(1)', 'abs("x") > 1', 'description.nosuch()', 'amount.lower() == "x"',
       'month % "x" == 0', '1 / description > 0', 'orders.n > 1', 'min() > 1', 'extract(5) == ""', 'date > "not a date"',
       'anyof(1, 2)', 'startswith(amount, "1")', 'normalized(amount)', 'lim[0] == 1', '"a" < 1', 'sum(r.item for r in orders) > 1',
       'all(r.nope for r in orders)', 'len(r for r in orders) > 0', 'round("x") > 0', 'trim(1, 2) == ""',
       # the whole expression is a bare generator / comprehension: it fails only when the caller materialises it
       '(d for d in amount)', '(r.n for r in month)', '(r.nope for r in orders)', '[d for d in amount]', '(x for x in unknownvar)',
       '(r.n + "x" for r in orders)', '(r for r in orders if r.nope)', '(a for a in orders for b in a.n)',
       # a valid pattern with a replacement the regex engine rejects (group reference without a group, dangling backslash)
       'regex_replace(description, "O", "\\\\1") == ""', 'regex_replace(description, "zzz", "\\\\g<name>") == ""',
       'regex_replace(description, "O", "x\\\\") == ""', 'extract(description, "(?P<n>O)(?P<n>R)") == ""', 'regex("O{2,1}")',
       'regex("(?<=O+)X")', 'split(description, "", 0) == ""']

GOOD_BEFORE = '[Before]\nmatch: contains("ALFA")\ncategory: Food\ntags: b4\n'
GOOD_AFTER = '[After]\nmatch: contains("STORE")\ncategory: Shop\nsubcategory: Misc\ntags: aft\n'
TXNS = [
    {'description': 'ALFA STORE 12', 'amount': 50.25, 'date': datetime.date(2025, 12, 31), 'field': {'kind': 'ACH'},
     'source': 'Card', 'location': 'WA'},
    {'description': 'ZULU STORE', 'amount': -3.0, 'date': datetime.date(2024, 2, 29), 'field': None, 'source': 'Bank', 'location': None},
    {'description': 'nothing here', 'amount': 1.0, 'date': datetime.date(2025, 1, 1), 'field': {}, 'source': 'Card', 'location': None},
]
DS = {'orders': [{'item': 'Widget', 'amount': 30.0, 'n': 1}], 'nolines': []}


def files_for(ill):
    """(position, text with the failing element, text without it)"""
    out = []
    bad_rule = '[Bad]\nmatch: %s\ncategory: BadCat\ntags: bad\n' % ill
    bad_tag_rule = '[BadTag]\nmatch: %s\ntags: badtag\n' % ill
    for name, rule in (('match', bad_rule), ('match-tagonly', bad_tag_rule)):
        out.append((name + '/first', rule + '\n' + GOOD_BEFORE + '\n' + GOOD_AFTER, GOOD_BEFORE + '\n' + GOOD_AFTER))
        out.append((name + '/middle', GOOD_BEFORE + '\n' + rule + '\n' + GOOD_AFTER, GOOD_BEFORE + '\n' + GOOD_AFTER))
        out.append((name + '/last', GOOD_BEFORE + '\n' + GOOD_AFTER + '\n' + rule, GOOD_BEFORE + '\n' + GOOD_AFTER))
    let_rule = '[Let]\nlet: v = %s\nmatch: v or contains("ZULU")\ncategory: LetCat\n'
    out.append(('let', (let_rule % ill) + '\n' + GOOD_AFTER, '[Let]\nlet: v = false\nmatch: v or contains("ZULU")\ncategory: LetCat\n\n' + GOOD_AFTER))
    fld = '[Fld]\nmatch: contains("STORE")\ncategory: FCat\nfield: ok = "yes"\n%s'
    out.append(('field', fld % ('field: bad = %s\n' % ill), fld % ''))
    tag = '[Tg]\nmatch: contains("STORE")\ncategory: TCat\ntags: keep%s\n'
    if ',' not in ill and '{' not in ill:
        out.append(('tag', tag % (', {%s}' % ill), tag % ''))
    out.append(('global', 'g = %s\n\n[G]\nmatch: g\ncategory: GCat\n\n%s' % (ill, GOOD_AFTER), GOOD_AFTER))
    out.append(('global-unused', 'g = %s\n\n%s' % (ill, GOOD_AFTER), GOOD_AFTER))
    out.append(('transform', 'field.description = %s\n\n%s\n%s' % (ill, GOOD_BEFORE, GOOD_AFTER), GOOD_BEFORE + '\n' + GOOD_AFTER))
    # a transform may target a captured column that this statement does not have (a source without captures has NO `field`
    # at all): whatever part of the transform step fails - evaluating the right-hand side or storing the value - the
    # transform is skipped for that transaction
    out.append(('transform-custom', 'field.payee = %s\n\n%s\n%s' % (ill, GOOD_BEFORE, GOOD_AFTER), GOOD_BEFORE + '\n' + GOOD_AFTER))
    okx = 'field.payee = extract(field.description, "([A-Z]+)")\n'
    out.append(('transform+custom', okx + 'field.description = %s\n\n%s\n%s' % (ill, GOOD_BEFORE, GOOD_AFTER),
                okx + '\n' + GOOD_BEFORE + '\n' + GOOD_AFTER))
    return out


def _classify_all(text, mode, tmpdir):
    """Every public classification path on the concrete file: engine.match, get_all_rules+normalize_merchant,
    parse_generic_csv.  Returns list of observations or ('EXC', repr)."""
    from tally.merchant_engine import parse_merchants, MerchantParseError
    from tally.merchant_utils import get_all_rules, get_transforms, normalize_merchant
    from tally.parsers import parse_generic_csv
    from tally.format_parser import parse_format_string
    obs = {}
    try:
        eng = parse_merchants(text, mode)
    except MerchantParseError as e:
        return 'REJECTED: %s' % e
    try:
        res = []
        for t in TXNS:
            r = eng.match(dict(t, field=dict(t['field']) if t['field'] else t['field']), data_sources=DS)
            res.append([r.matched, r.merchant if r.matched else None, r.category, r.subcategory, sorted(r.tags),
                        json.dumps(r.extra_fields, sort_keys=True, default=str)])
        obs['engine'] = res
    except Exception as e:
        obs['engine'] = 'EXC:' + repr(e)
    path = os.path.join(tmpdir, 'm.rules')
    with open(path, 'w') as f:
        f.write(text)
    try:
        rules = get_all_rules(path, match_mode=mode)
        transforms = get_transforms(path, match_mode=mode)
        res = []
        for t in TXNS:
            m, c, s, info = normalize_merchant(t['description'], rules, amount=t['amount'], txn_date=t['date'],
                                               field=dict(t['field']) if t['field'] else t['field'], data_source=t['source'],
                                               transforms=transforms, location=t['location'], data_sources=DS)
            res.append([m, c, s, sorted((info or {}).get('tags', []))])
        obs['normalize'] = res
    except Exception as e:
        obs['normalize'] = 'EXC:' + repr(e)
    try:
        csvp = os.path.join(tmpdir, 'd.csv')
        with open(csvp, 'w') as f:
            f.write('Date,Description,Amount,Kind\n')
            for t in TXNS:
                f.write('%s,%s,%s,%s\n' % (t['date'].strftime('%m/%d/%Y'), t['description'], t['amount'], (t['field'] or {}).get('kind', '')))
        spec = parse_format_string('{date:%m/%d/%Y},{description},{amount},{kind}')
        txns = parse_generic_csv(csvp, spec, rules, source_name='Card', transforms=transforms, data_sources=DS)
        obs['parse_generic_csv'] = [[t['raw_description'], t['merchant'], t['category'], t['subcategory'], sorted(t['tags'])] for t in txns]
    except Exception as e:
        obs['parse_generic_csv'] = 'EXC:' + repr(e)
    try:
        # the same statement read by a source WITHOUT captured columns: its transactions carry no `field`
        spec = parse_format_string('{date:%m/%d/%Y},{description},{amount},{_}')
        txns = parse_generic_csv(csvp, spec, rules, source_name='Card', transforms=transforms, data_sources=DS)
        obs['parse_generic_csv_plain'] = [[t['raw_description'], t['merchant'], t['category'], t['subcategory'], sorted(t['tags'])] for t in txns]
    except Exception as e:
        obs['parse_generic_csv_plain'] = 'EXC:' + repr(e)
    return obs


def engine_case(item):
    ill, mode = item
    d = tempfile.mkdtemp(prefix='c08_')
    out = []
    try:
        for pos, with_text, without_text in files_for(ill):
            a = _classify_all(with_text, mode, d)
            b = _classify_all(without_text, mode, d)
            out.append((ill, mode, pos, with_text, a, b))
    finally:
        shutil.rmtree(d, ignore_errors=True)
    return out


def ill_replay(states, seed):
    """MC_Expr states of the ill-typed universe: the real evaluator must give a value or ExpressionError - never another
    exception - and must agree with the spec wherever the spec defines the outcome."""
    n, fails, nt = 0, [], 0
    for st in states:
        e = plain(st['e'])
        val = plain(st['val'])
        env = ENVS[st['ei'] - 1]
        src = c04.to_src(e)
        obs = c04.real_eval(src, env)
        n += 1
        if val.get('t') == 'err':
            nt += 1
        if obs is None:
            continue
        if obs.get('t') == 'raw':
            fails.append(({'site': 'evaluate_transaction', 'clause': 'raw-exception', 'exc': obs['exc']},
                          {'expr': src, 'env': st['ei'], 'observed': obs},
                          'evaluating %r raises %s instead of an expression error' % (src, obs['exc'])))
        elif val.get('t') != 'oou' and not c04.same(val, obs):
            fails.append(({'site': 'evaluate_transaction', 'clause': 'value-vs-error', 'spec': val.get('t'), 'code': obs.get('t')},
                          {'expr': src, 'env': st['ei'], 'observed': obs, 'expected': c04.strip_extras(val)},
                          '%r: code gives %s, Expr!Eval gives %s' % (src, obs, c04.strip_extras(val))))
    return n, nt, fails[:30]


def confused(rnd, depth):
    """type-confused random expressions: syntactically valid, typing ignored"""
    if depth <= 0:
        return rnd.choice(['amount', 'description', 'date', 'month', 'orders', 'nolines', 'field.kind', 'field.nope', 'lim', 'big',
                           '5', '0', '"x"', '""', 'true', 'None', 'unknownvar', 'txn.location', 'orders[0]', '[1, 2]' if False else '[r.n for r in orders]'])
    d = depth - 1
    k = rnd.randrange(13)
    a, b = confused(rnd, d), confused(rnd, d)
    if k == 12:         # a bare generator / comprehension, possibly the whole expression
        s = '%s for r in %s%s' % (a.replace('amount', 'r.n'), b, rnd.choice(['', '', ' if r.n > 1', ' if r.nope']))
        return rnd.choice(['(%s)', '[%s]']) % s
    if k == 0:
        return '(%s %s %s)' % (a, rnd.choice('+-*/%'), b)
    if k == 1:
        return '(%s %s %s)' % (a, rnd.choice(['<', '<=', '>', '>=', '==', '!=', 'in', 'not in']), b)
    if k == 2:
        return '(%s %s %s)' % (a, rnd.choice(['and', 'or']), b)
    if k == 3:
        return '(not %s)' % a
    if k == 4:
        return '(-%s)' % a
    if k == 5:
        return '%s(%s)' % (rnd.choice(['contains', 'regex', 'startswith', 'normalized', 'extract', 'trim', 'uppercase', 'abs',
                                        'len', 'sum', 'any', 'all', 'next', 'min', 'max', 'exists', 'round', 'anyof', 'nosuch']), a)
    if k == 6:
        return '%s(%s, %s)' % (rnd.choice(['contains', 'regex', 'split', 'substring', 'strip_prefix', 'extract', 'min', 'max',
                                            'sum', 'next', 'regex_replace']), a, b)
    if k == 7:
        return '%s[%s]' % (a if a[0] not in '(-' else '(' + a + ')', b)
    if k == 8:
        return '%s.%s' % (a if a[0].isalpha() else '(' + a + ')', rnd.choice(['n', 'item', 'kind', 'nope']))
    if k == 9:
        return '%s.%s(%s)' % (a if a[0].isalpha() else '(' + a + ')', rnd.choice(['lower', 'upper', 'strip', 'startswith', 'replace', 'nosuch']),
                              rnd.choice(['', b]))
    if k == 10:
        return '%s(%s for r in %s)' % (rnd.choice(['sum', 'any', 'all', 'next', 'min', 'max', 'len']), a.replace('amount', 'r.n'), b)
    return '(%s if %s else %s)' % (a, b, confused(rnd, d))


def confused_worker(item):
    seed, n = item
    from tally import expr_parser as EP
    rnd = random.Random(seed)
    recs, srcs, bad = [], {}, []
    total = 0
    for k in range(n):
        src = confused(rnd, rnd.randint(1, 3))
        try:
            EP.parse_expression(src)
        except EP.ExpressionError:
            continue                      # not accepted by the loader: outside C08
        except Exception as e:
            bad.append((src, 'parse_expression raised %r' % e))
            continue
        try:
            a = X.abstract_expr(src)
        except (X.Unrepresentable, SyntaxError):
            a = None
        for ei, env in enumerate(c04.REAL_ENVS[:3]):
            total += 1
            obs = c04.real_eval(src, env)
            if obs is not None and obs.get('t') == 'raw':
                bad.append((src, 'environment %d: raises %s' % (ei, obs['exc'])))
            if a is not None and obs is not None and obs.get('t') != 'raw':
                rid = 'c%d_%d_%d' % (seed, k, ei)
                recs.append({'id': rid, 'kind': 'eval', 'ast': a, 'env': X.abstract_env(env['txn'], env['vars'], env['rows']), 'obs': obs})
                srcs[rid] = src

    class Shim:
        def add_tlc(self, name, res):
            self.res = res
            if res.error:
                raise core.Machinery('Trace_Expr failed: ' + res.error[-2000:])
    sh = Shim()
    rej = run_trace_spec(sh, 'Trace_Expr', recs, module='Trace_Expr', cfg='Trace_Expr.cfg', timeout=3000) if recs else {}
    disagreements = [(srcs[r], sorted(c)) for r, c in rej.items()]
    return total, len(recs), bad, disagreements, sh.res if recs else None


def cli_case(ill):
    """A budget with two sources whose rules contain a failing expression: `tally up` must finish, keep both sources and
    report the same figures as without that rule."""
    d = tempfile.mkdtemp(prefix='c08cli_')
    try:
        settings = ('year: 2025\ndata_sources:\n  - name: Card\n    file: data/card.csv\n    format: "{date:%m/%d/%Y},{description},{amount}"\n'
                    '  - name: Bank\n    file: data/bank.csv\n    format: "{date:%Y-%m-%d},{description},{-amount}"\n'
                    'merchants_file: config/merchants.rules\nviews_file: config/views.rules\n')
        views = '[Big]\nfilter: total > 10\n\n[BadView]\nfilter: %s\n' % ill
        good = GOOD_BEFORE + '\n' + GOOD_AFTER
        bad = GOOD_BEFORE + '\n[Bad]\nmatch: %s\ncategory: BadCat\n\n' % ill + GOOD_AFTER
        res = {}
        for name, rules, vw in (('with', bad, views), ('without', good, '[Big]\nfilter: total > 10\n')):
            root = os.path.join(d, name)
            cli.materialise(root, {'config/settings.yaml': settings, 'config/merchants.rules': rules, 'config/views.rules': vw,
                                   'data/card.csv': 'Date,Description,Amount\n01/05/2025,ALFA STORE,12.50\n02/06/2025,ZULU STORE,3.00\n',
                                   'data/bank.csv': 'Date,Description,Amount\n2025-03-01,PAYROLL,-100.00\n2025-03-02,ALFA CAFE,-4.00\n'})
            r = cli.run_tally(['up', '--format', 'json', '-v'], cwd=root)
            summ = cli.run_tally(['up', '--format', 'summary'], cwd=root)
            res[name] = {'rc': r['rc'], 'json': cli.parse_json_out(r['out']), 'err': r['err'][-300:],
                         'counts': sorted(l.strip() for l in r['out'].splitlines() if 'transactions' in l and ':' in l),
                         'summary_rc': summ['rc'], 'summary_err': summ['err'][-300:]}
        return ill, res
    finally:
        shutil.rmtree(d, ignore_errors=True)


VIEW_ILL = ['sum(by("month")) > limit', 'total > "x"', 'nosuch > limit', 'max(by("bogus")) > 1', 'tags > limit', 'payments.count > limit',
            'category == "Food" and sum(by("month")) > limit', 'months >= 2 and total[0] > limit']


def views_case(ill):
    """A view whose filter cannot be evaluated (for some or all merchants) and that declares a view-local variable: every OTHER
    view must list exactly the merchants it lists when the failing view is not in the file."""
    from tally.analyzer import analyze_transactions, classify_by_sections
    from tally.section_engine import parse_sections
    d = datetime.datetime
    txns = []
    for name, cat, pays in (('Grocer', 'Food', [(1, 5, 150.0), (2, 6, 150.0)]), ('Cinema', 'Fun', [(1, 9, 600.0)]), ('Kiosk', 'Food', [(2, 2, 20.0)])):
        for mo, day, amt in pays:
            txns.append({'date': d(2025, mo, day), 'description': name, 'raw_description': name.upper(), 'amount': amt, 'merchant': name,
                         'category': cat, 'subcategory': '', 'source': 'Card', 'tags': []})
    others = '[Over Limit]\nfilter: total > limit\n\n[Under Limit]\nfilter: not (total > limit)\n\n[Twice]\nthreshold = limit * 2\nfilter: total > threshold\n'
    bad = '[Bad]\nlimit = 500\nthreshold = 1\nfilter: %s\n\n' % ill
    out = {}
    for key, text in (('with-first', 'limit = 100\n\n' + bad + others), ('with-last', 'limit = 100\n\n' + others + '\n' + bad), ('without', 'limit = 100\n\n' + others)):
        try:
            cfg = parse_sections(text)
        except Exception as e:
            return ill, 'REJECTED: %s' % e
        stats = analyze_transactions([dict(t) for t in txns])
        try:
            res = classify_by_sections(stats['by_merchant'], cfg, stats['num_months'])
        except Exception as e:
            out[key] = 'EXC:' + repr(e)
            continue
        out[key] = {n: sorted(m for m, _ in ms) for n, ms in res.items() if n != 'Bad'}
    return ill, out


def run(ck):
    quick = ck.tier == 'quick'
    ck.assumptions += ['"accepted by the loader" = parse_merchants / parse_sections / parse_expression do not reject the text',
                       'the outcome without the failing rule is obtained from the real code run on the file with that rule (binding, '
                       'field, tag, variable, transform) removed - the statement of C08 itself']
    # 1. model: ErrorIsAbsence on the engine universe (both modes) and the ill-typed expression universe
    engine_common.run_universe(ck, [('rich2', 'MC_Engine_rich.cfg')], 'judge_c08')
    # code -> spec: random files with failing expressions in every position, validated by Trace_Engine (a rule that cannot be
    # evaluated on its own must be absent from the whole-file result)
    from props import engine_tracecheck
    engine_tracecheck.run(ck, 'c08', 1600 if quick else 16000)
    # the same for views: random views files in which half of the global / a quarter of the view-local declarations cannot be
    # evaluated; Views!MemberOf (a failing declaration is None for that merchant, a failing filter excludes just that merchant
    # from just that view) must agree with the real listing
    from props import c10
    c10.trace_views(ck, 3200 if quick else 32000, p_fail=0.5)
    tmp = tempfile.mkdtemp(prefix='c08_')
    try:
        dump = os.path.join(tmp, 'ill.dump')
        res = tlc.run('MC_Expr', 'MC_Expr_ill.cfg', dump=dump, timeout=3000)
        ck.expect_model_ok('MC_Expr/ill-typed', res)
        for n, nt, fails in par.map_dump(dump, ill_replay, extra=(ck.seed,)):
            ck.case(n=n)
            ck.trace(n)
            ck.extra['spec_err_states_replayed'] = ck.extra.get('spec_err_states_replayed', 0) + nt
            for sig, case, what in fails:
                ck.violation(sig, case, what)
    finally:
        shutil.rmtree(tmp, ignore_errors=True)
    # 2. concrete failing expressions in every position of a rule file, both modes, three public paths
    items = [(ill, mode) for ill in ILL for mode in ('first_match', 'most_specific')]
    for group in par.pmap(engine_case, items):
        for ill, mode, pos, text, a, b in group:
            ck.case(n=1)
            ck.trace(1)
            ck.case((ill, mode, pos), nontrivial=True, n=0)
            if isinstance(a, str) or isinstance(b, str):
                if isinstance(b, str):
                    raise core.Machinery('reference file rejected: %s' % b)
                continue        # the loader rejects the text: not an accepted file
            for path in a:
                if isinstance(a[path], str):
                    ck.violation({'site': path, 'clause': 'aborts', 'position': pos.split('/')[0], 'exc': a[path].split('(')[0][4:]},
                                 {'rules_text': text, 'mode': mode, 'error': a[path]},
                                 '%s aborts with %s on a rules file whose %s is %r' % (path, a[path], pos, ill))
                elif a[path] != b[path]:
                    ck.violation({'site': path, 'clause': 'differs-from-file-without-it', 'position': pos.split('/')[0]},
                                 {'rules_text': text, 'mode': mode, 'with': a[path], 'without': b[path]},
                                 '%s: failing %s %r changes the outcome: %s vs %s' % (path, pos, ill, a[path], b[path]))
    ck.sample({'failing_expression': ILL[0], 'positions': [p for p, _, _ in files_for(ILL[0])]})
    # 2b. failing VIEW filters (with view-local variables): the other views are what they are without the failing view
    for ill, out in par.pmap(views_case, VIEW_ILL):
        ck.case(n=3)
        ck.trace(3)
        ck.case(('view', ill), nontrivial=True, n=0)
        if isinstance(out, str):
            continue                       # the views reader rejects the text: not an accepted file
        for key in ('with-first', 'with-last'):
            if isinstance(out[key], str):
                ck.violation({'site': 'classify_by_sections', 'clause': 'aborts', 'position': 'view'}, {'filter': ill, 'error': out[key]},
                             'classify_by_sections aborts on a view whose filter is %r: %s' % (ill, out[key]))
            elif out[key] != out['without']:
                ck.violation({'site': 'classify_by_sections', 'clause': 'differs-from-file-without-it', 'position': 'view/' + key.split('-')[1]},
                             {'filter': ill, 'with': out[key], 'without': out['without']},
                             'a view whose filter %r cannot be evaluated changes the other views: %s vs %s' % (ill, out[key], out['without']))
    # 3. type-confused random expressions through the real evaluator, validated by Trace_Expr
    shards = 4 if quick else 16
    dis = 0
    for total, nrec, bad, disagreements, tlcres in par.pmap(confused_worker, [(ck.seed * 77 + s, 600 if quick else 6000) for s in range(shards)]):
        if tlcres is not None:
            ck.add_tlc('Trace_Expr/confused', tlcres)
        ck.case(n=total)
        ck.trace(nrec)
        dis += len(disagreements)
        for src, what in bad:
            ck.violation({'site': 'evaluate_transaction', 'clause': 'raw-exception', 'exc': what.split()[-1]},
                         {'expr': src, 'what': what}, 'type-confused expression %r: %s' % (src, what))
        for src, cl in disagreements[:3]:
            ck.extra.setdefault('value_disagreements_on_ill_typed_input_not_judged', []).append([src, cl])
    ck.extra['n_value_disagreements_on_ill_typed_input_not_judged'] = dis
    # 4. the command line: both sources survive, figures equal
    cases = ILL[:6] if quick else ILL
    for ill, res in par.pmap(cli_case, cases):
        ck.case(n=1)
        ck.trace(1)
        w, wo = res['with'], res['without']
        if wo['rc'] != 0 or wo['json'] is None:
            raise core.Machinery('reference budget fails: %s' % wo['err'])
        if w['rc'] != 0 or w['json'] is None or w['summary_rc'] != 0:
            ck.violation({'site': 'tally up', 'clause': 'exit-status'}, {'ill': ill, 'with': w},
                         '`tally up` fails (rc=%s/%s) on a budget whose rules/views contain %r: %s %s' % (w['rc'], w['summary_rc'], ill, w['err'], w['summary_err']))
        elif w['counts'] != wo['counts'] or w['json']['summary'] != wo['json']['summary']:
            ck.violation({'site': 'tally up', 'clause': 'source-lost-or-figures-differ'}, {'ill': ill, 'with': w['counts'], 'without': wo['counts']},
                         '`tally up` with failing rule %r: per-source counts %s vs %s' % (ill, w['counts'], wo['counts']))
    ck.extra['rule'] = ('%d expressions the loader accepts but that cannot be evaluated, each as match (categorising and tag-only; first, '
                        'middle, last), let, field, dynamic tag, global variable (used and unused) and transform, in both modes, through '
                        'MerchantEngine.match, normalize_merchant and parse_generic_csv, compared with the file without it; the engine '
                        'universe with error outcomes; the ill-typed MC_Expr universe; type-confused random expressions; tally up on '
                        'two-source budgets') % len(ILL)
    ck.exhaustive = False


def replay(ck, path):
    case = json.load(open(path))['case']
    print(json.dumps(case, indent=1)[:3000])
