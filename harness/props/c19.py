"""C19 – every rule that discover suggests matches the transaction it was suggested for (spec module Discover)."""
import json
import os
import random
import shutil
import tempfile

import cli
import core
import par
import tlaval
import tlc
from props.engine_common import plain

WORDS = {
    'W': ['ALFA', 'Bravo', 'market', 'STORE', 'Zulu', 'Émile'],
    'M': ['A.B', 'C+', '(X)', 'A|B', '$5', 'W*', 'WHAT?', '[Q]', 'C\\D', '^UP', '{X}', 'SUB#2', '#ONE', 'NO.#7', 'A#B'],
    'Q': ["JOE'S", 'O"K', "'N'", '"THE"', '6"', "5'", '"'],
    'N2': ['12', '7', '123'],
    'N4': ['1234', '98101', '0012345', '2025'],
    'H': ['#123', '#9', '#00042'],
    'ST': ['WA', 'ca', 'Ny'],
    'S': ['&', '-', '/', '*', '+', '--', '@', '|'],
}
PREFIXES = ['SQ *', 'TST*', 'APLPAY ', 'PP*', 'GOOGLE *', 'SP ', 'sq *', 'Tst* ']


def concretise(shapes, rnd):
    words = []
    prefix = ''
    for i, s in enumerate(shapes):
        if s == 'P':
            prefix = rnd.choice(PREFIXES)
        else:
            words.append(rnd.choice(WORDS[s]))
    sep = rnd.choice([' ', ' ', '  '])
    return (prefix + sep.join(words)).strip() or 'X'


def check_suggestion(desc, rule_text):
    """The suggested rule, given a category, must load and match the description it was suggested for."""
    from tally.merchant_engine import parse_merchants, MerchantParseError
    text = rule_text.replace('CATEGORY', 'Food').replace('SUBCATEGORY', 'Misc').replace('SUBFood', 'Misc')
    try:
        eng = parse_merchants(text)
    except MerchantParseError as e:
        return 'does-not-load', str(e)
    try:
        r = eng.match({'description': desc, 'amount': 5.0})
    except Exception as e:
        return 'match-raises', repr(e)
    if not r.matched:
        return 'does-not-match-own-description', text
    return None, text


def describe(desc):
    f = []
    if len(desc.split()) > 1:
        f.append('multi-word')
    if any(c in desc for c in '.*+?^${}()|[]\\'):
        f.append('metachar')
    if '"' in desc:
        f.append('double-quote')
    if ' #' in desc and not desc.rstrip().split()[-1].startswith('#'):
        f.append('store-number-in-the-middle')
    return f


def inprocess(item):
    descs_shapes, seed = item
    from tally.commands.discover import suggest_pattern, suggest_merchant_name, suggest_merchants_rule
    rnd = random.Random(seed)
    n, fails = 0, []
    for shapes in descs_shapes:
        for _ in range(3):
            desc = concretise(shapes, rnd)
            n += 1
            try:
                rule = suggest_merchants_rule(suggest_merchant_name(desc), suggest_pattern(desc), tags=rnd.choice([None, ['refund']]))
            except Exception as e:
                fails.append(({'site': 'suggest', 'clause': 'exception'}, {'description': desc, 'error': repr(e)}, 'suggesting a rule for %r raised %r' % (desc, e)))
                continue
            clause, detail = check_suggestion(desc, rule)
            if clause:
                fails.append(({'site': 'suggest_merchants_rule', 'clause': clause, 'features': describe(desc)},
                              {'description': desc, 'shapes': list(shapes), 'suggested_rule': rule, 'detail': detail},
                              'the rule suggested for %r %s: %s' % (desc, clause.replace('-', ' '), rule.replace('\n', ' | '))))
    return n, fails[:40]


def cli_batch(item):
    descs, = item
    d = tempfile.mkdtemp(prefix='c19_')
    try:
        rows = ['Date,Description,Amount']
        for k, desc in enumerate(descs):
            rows.append('01/%02d/2025,"%s",%d.50' % (1 + k % 28, desc.replace('"', '""'), 3 + k))
        cli.materialise(d, {'config/settings.yaml': 'year: 2025\ndata_sources:\n  - name: Card\n    file: data/card.csv\n    format: "{date:%m/%d/%Y},{description},{amount}"\nmerchants_file: config/merchants.rules\n',
                            'config/merchants.rules': '# empty\n', 'data/card.csv': '\n'.join(rows) + '\n'})
        r = cli.run_tally(['discover', '--format', 'json', '--limit', '0'], cwd=d)
        try:
            items = json.loads(r['out'][r['out'].index('['):])
        except ValueError:
            return descs, 'discover output is not JSON (rc=%s): %s %s' % (r['rc'], r['out'][:200], r['err'][:200]), None, None
        before = cli.up_classification(d)
        rules = '\n\n'.join(i['suggested_rule'].replace('CATEGORY', 'Food').replace('SUBFood', 'Misc') for i in items)
        with open(os.path.join(d, 'config', 'merchants.rules'), 'w') as f:
            f.write(rules + '\n')
        after = cli.up_classification(d)
        text = cli.run_tally(['discover'], cwd=d)
        return descs, items, before, (after, text['out'][-300:])
    finally:
        shutil.rmtree(d, ignore_errors=True)


def run(ck):
    quick = ck.tier == 'quick'
    ck.assumptions += ['descriptions are built from word shapes (plain, metacharacter, quote, short / long number, store number, state code, '
                       'processor prefix, stand-alone separator) with several concrete spellings each; words of the "plain" shape have at least three letters',
                       'budgets without field transforms (discover reports the raw description, rules match the transformed one)']
    ck.expect_model_violation('Discover/pinned', tlc.run('Discover', 'MC_Discover_neg.cfg'), 'Closure')
    tmp = tempfile.mkdtemp(prefix='c19_')
    try:
        dump = os.path.join(tmp, 'd.dump')
        res = tlc.run('Discover', 'MC_Discover4.cfg', dump=dump, timeout=3000)
        ck.expect_model_ok('Discover/intended', res)
        shapes = set()
        for st in tlaval.parse_dump(dump):
            for d in st['unknown']:
                shapes.add(tuple(d))
    finally:
        shutil.rmtree(tmp, ignore_errors=True)
    shapes = sorted(shapes)
    ck.extra['description_shapes'] = len(shapes)
    chunks = [shapes[k:k + 60] for k in range(0, len(shapes), 60)]
    for n, fails in par.pmap(inprocess, [(c, ck.seed * 13 + i) for i, c in enumerate(chunks)]):
        ck.case(n=n)
        ck.trace(n)
        for sig, case, what in fails:
            ck.violation(sig, case, what)
    for s in shapes:
        ck.case(s, nontrivial=len(s) >= 2, n=0)
    # the command: discover -> append -> rerun
    rnd = random.Random(ck.seed)
    batches = []
    for _ in range(6 if quick else 60):
        ds = []
        for s in rnd.sample(shapes, 40):
            d = concretise(s, rnd)
            if d not in ds:
                ds.append(d)
        batches.append((ds,))
    for descs, items, before, after in par.pmap(cli_batch, batches):
        ck.case(n=len(descs))
        ck.trace(1)
        if isinstance(items, str):
            ck.violation({'site': 'tally discover', 'clause': 'no-json'}, {'descriptions': descs, 'detail': items}, items)
            continue
        listed = {i['raw_description'] for i in items}
        if listed != set(descs):
            ck.violation({'site': 'tally discover', 'clause': 'unknown-list'}, {'missing': sorted(set(descs) - listed), 'extra': sorted(listed - set(descs))},
                         'discover lists %d descriptions, the budget has %d uncategorised ones' % (len(listed), len(set(descs))))
        for i in items:
            clause, detail = check_suggestion(i['raw_description'], i['suggested_rule'])
            if clause:
                ck.violation({'site': 'tally discover', 'clause': clause, 'features': describe(i['raw_description'])},
                             {'description': i['raw_description'], 'suggested_rule': i['suggested_rule'], 'detail': detail},
                             'discover suggests a rule for %r that %s' % (i['raw_description'], clause.replace('-', ' ')))
        aft, text = after
        if isinstance(aft, str) or isinstance(before, str):
            ck.violation({'site': 'tally up', 'clause': 'rerun-fails'}, {'descriptions': descs, 'after': aft if isinstance(aft, str) else None, 'before': before if isinstance(before, str) else None},
                         'after appending the suggested rules `tally up` fails: %s' % (aft if isinstance(aft, str) else before))
            continue
        unk_before = sum(1 for v in before.values() if v[1] == 'Unknown')
        unk_after = sum(1 for v in aft.values() if v[1] == 'Unknown')
        if unk_before and not unk_after < unk_before:
            ck.violation({'site': 'discover-loop', 'clause': 'unknown-list-does-not-shrink'}, {'before': unk_before, 'after': unk_after, 'descriptions': descs[:10]},
                         'appending every suggested rule leaves %d of %d descriptions Unknown' % (unk_after, unk_before))
        elif unk_after:
            still = sorted(k for k, v in aft.items() if v[1] == 'Unknown')[:5]
            ck.violation({'site': 'discover-loop', 'clause': 'suggestion-did-not-take', 'features': describe(still[0])},
                         {'still_unknown': still}, 'after appending every suggested rule these are still Unknown: %s' % still)
    ck.sample({'shapes': list(shapes[len(shapes) // 2]), 'description': concretise(shapes[len(shapes) // 2], rnd)})
    ck.extra['rule'] = ('every description of <= %d words over 9 word shapes (TLC state space of Discover.tla), three spellings each, through '
                        'suggest_pattern / suggest_merchant_name / suggest_merchants_rule + parse_merchants.match; batches of 40 descriptions '
                        'through the real `tally discover`, the suggestions appended, `tally up` rerun. non-trivial = multi-word description'
                        % 4)
    ck.exhaustive = True


def replay(ck, path):
    from tally.commands.discover import suggest_pattern, suggest_merchant_name, suggest_merchants_rule
    case = json.load(open(path))['case']
    d = case['description']
    rule = suggest_merchants_rule(suggest_merchant_name(d), suggest_pattern(d))
    print(rule, check_suggestion(d, rule))
