"""C19 – every rule that discover suggests matches the transaction it was suggested for (spec module Discover)."""
import json
import os
import random
import shutil
import tempfile

import cli
import core
import par
import tlaval
import tlc
from props.engine_common import plain

WORDS = {
    'W': ['ALFA', 'Bravo', 'market', 'STORE', 'Zulu', 'Émile',
          # letters whose upper-case form is another, longer text (ß -> SS, the ligature fi -> FI, 'n -> 'N): mixed-case exports have them
          'Strauß', 'Weißer', 'ﬁne', 'ŉ',
          # long words (reference-style descriptions, merchant names run together): length is not a reason to cut a pattern short
          'INTERNATIONALHOUSEKEEPINGSVC', 'CONSOLIDATEDCOMMUNICATIONS', 'DEPARTMENTOFMOTORVEHICLES', 'Northwestmutuallifeinsur'],
    'M': ['A.B', 'C+', '(X)', 'A|B', '$5', 'W*', 'WHAT?', '[Q]', 'C\\D', '^UP', '{X}', 'SUB#2', '#ONE', 'NO.#7', 'A#B',
          # what some exports leave in the description column: HTML character references are just characters of the description
          # brackets that do not pair up inside the words the pattern keeps (the closing one was cut off with a store number / id)
          '(WHSE', '[REF', 'ACME(PENDING', 'X)(', ']OK[', '{ID',
          'MOTORVEHICLES(DMV)', 'BILLPAY.COM/WEB-PAYMENTS', 'WWW.EXAMPLE-SHOP.COM/ORDERS?ID', 'ORIG.CO.NAME:ACME+PAYROLL*SVC',
          'AT&amp;T', 'B&amp;N', '&lt;CO&gt;', 'R&#38;D', 'MC&#39;S', '&quot;X&quot;', 'A&nbsp;B'],
    'Q': ["JOE'S", 'O"K', "'N'", '"THE"', '6"', "5'", '"'],
    'N2': ['12', '7', '123'],
    'N4': ['1234', '98101', '0012345', '2025'],
    'H': ['#123', '#9', '#00042'],
    'ST': ['WA', 'ca', 'Ny'],
    'S': ['&', '-', '/', '*', '+', '--', '@', '|'],
}
PREFIXES = ['SQ *', 'TST*', 'APLPAY ', 'PP*', 'GOOGLE *', 'SP ', 'sq *', 'Tst* ']


def concretise(shapes, rnd):
    words = []
    prefix = ''
    for i, s in enumerate(shapes):
        if s == 'P' and i == 0:
            prefix = rnd.choice(PREFIXES)
        elif s == 'P':
            words.append(rnd.choice(PREFIXES).strip())      # a processor tag in the middle is part of the description like any word
        else:
            words.append(rnd.choice(WORDS[s]))
    sep = rnd.choice([' ', ' ', '  '])
    return (prefix + sep.join(words)).strip() or 'X'


def check_suggestion(desc, rule_text):
    """The suggested rule, given a category, must load and match the description it was suggested for."""
    from tally.merchant_engine import parse_merchants, MerchantParseError
    text = rule_text.replace('CATEGORY', 'Food').replace('SUBCATEGORY', 'Misc').replace('SUBFood', 'Misc')
    try:
        eng = parse_merchants(text)
    except MerchantParseError as e:
        return 'does-not-load', str(e)
    try:
        r = eng.match({'description': desc, 'amount': 5.0})
    except Exception as e:
        return 'match-raises', repr(e)
    if not r.matched:
        return 'does-not-match-own-description', text
    return None, text


def describe(desc):
    f = []
    if len(desc.split()) > 1:
        f.append('multi-word')
    if any(c in desc for c in '.*+?^${}()|[]\\'):
        f.append('metachar')
    if '"' in desc:
        f.append('double-quote')
    if ' #' in desc and not desc.rstrip().split()[-1].startswith('#'):
        f.append('store-number-in-the-middle')
    return f


_UNI_RANGES = [(0x20, 0x7e), (0xa1, 0xff), (0x100, 0x17f), (0x370, 0x3ff), (0x400, 0x45f), (0x2000, 0x206f), (0xff10, 0xff5a), (0x300, 0x36f),
               (0x1e00, 0x1eff), (0xfb00, 0xfb06), (0x2100, 0x214f), (0x5d0, 0x5ea), (0x4e00, 0x4e20), (0x1c4, 0x1cc), (0x1f0, 0x1f3)]


def unicode_fuzz(item):
    """Descriptions over many scripts (Latin with diacritics, Greek, Cyrillic, Hebrew, CJK, full-width forms, combining marks, ligatures,
    letter-like symbols, general punctuation): whatever a bank writes, the suggested rule loads and matches it."""
    seed, count = item
    from tally.commands.discover import suggest_pattern, suggest_merchant_name, suggest_merchants_rule
    rnd = random.Random(seed)
    n, fails = 0, []
    for _ in range(count):
        words = []
        for _w in range(rnd.choice([1, 2, 3, 4])):
            words.append(''.join(chr(rnd.randint(*rnd.choice(_UNI_RANGES))) for _c in range(rnd.choice([1, 2, 3, 5, 8]))))
        desc = ' '.join(words).strip()
        if not desc or '\n' in desc or '\r' in desc:
            continue
        n += 1
        try:
            rule = suggest_merchants_rule(suggest_merchant_name(desc), suggest_pattern(desc))
        except Exception as e:
            fails.append(({'site': 'suggest', 'clause': 'exception', 'features': ['unicode']}, {'description': desc, 'error': repr(e)},
                          'suggesting a rule for %r raised %r' % (desc, e)))
            continue
        clause, detail = check_suggestion(desc, rule)
        if clause:
            fails.append(({'site': 'suggest_merchants_rule', 'clause': clause, 'features': ['unicode']},
                          {'description': desc, 'codepoints': ['U+%04X' % ord(c) for c in desc], 'suggested_rule': rule, 'detail': detail},
                          'the rule suggested for %r %s: %s' % (desc, clause.replace('-', ' '), rule.replace('\n', ' | '))))
    return n, fails[:20]


def inprocess(item):
    descs_shapes, seed = item
    from tally.commands.discover import suggest_pattern, suggest_merchant_name, suggest_merchants_rule
    rnd = random.Random(seed)
    n, fails = 0, []
    for shapes in descs_shapes:
        for _ in range(3):
            desc = concretise(shapes, rnd)
            n += 1
            try:
                rule = suggest_merchants_rule(suggest_merchant_name(desc), suggest_pattern(desc), tags=rnd.choice([None, ['refund']]))
            except Exception as e:
                fails.append(({'site': 'suggest', 'clause': 'exception'}, {'description': desc, 'error': repr(e)}, 'suggesting a rule for %r raised %r' % (desc, e)))
                continue
            clause, detail = check_suggestion(desc, rule)
            if clause:
                fails.append(({'site': 'suggest_merchants_rule', 'clause': clause, 'features': describe(desc)},
                              {'description': desc, 'shapes': list(shapes), 'suggested_rule': rule, 'detail': detail},
                              'the rule suggested for %r %s: %s' % (desc, clause.replace('-', ' '), rule.replace('\n', ' | '))))
    return n, fails[:40]


def cli_batch(item):
    descs, = item
    d = tempfile.mkdtemp(prefix='c19_')
    try:
        rows = ['Date,Description,Amount']
        for k, desc in enumerate(descs):
            rows.append('01/%02d/2025,"%s",%d.50' % (1 + k % 28, desc.replace('"', '""'), 3 + k))
        cli.materialise(d, {'config/settings.yaml': 'year: 2025\ndata_sources:\n  - name: Card\n    file: data/card.csv\n    format: "{date:%m/%d/%Y},{description},{amount}"\nmerchants_file: config/merchants.rules\n',
                            'config/merchants.rules': '# empty\n', 'data/card.csv': '\n'.join(rows) + '\n'})
        r = cli.run_tally(['discover', '--format', 'json', '--limit', '0'], cwd=d)
        try:
            items = json.loads(r['out'][r['out'].index('['):])
        except ValueError:
            return descs, 'discover output is not JSON (rc=%s): %s %s' % (r['rc'], r['out'][:200], r['err'][:200]), None, None
        before = cli.up_classification(d)
        rules = '\n\n'.join(i['suggested_rule'].replace('CATEGORY', 'Food').replace('SUBFood', 'Misc') for i in items)
        with open(os.path.join(d, 'config', 'merchants.rules'), 'w') as f:
            f.write(rules + '\n')
        after = cli.up_classification(d)
        text = cli.run_tally(['discover'], cwd=d)
        return descs, items, before, (after, text['out'][-300:])
    finally:
        shutil.rmtree(d, ignore_errors=True)


# ------------------------------------------------------------------------------- the guided journey (Journey.tla) ----
SHIMBIN = os.path.join(core.ROOT, 'shim', 'bin')
JOURNEY_SETTINGS = ('year: 2025\ndata_sources:\n  - name: Card\n    file: data/card.csv\n    format: "{date:%m/%d/%Y},{description},{amount}"\n'
                    'merchants_file: config/merchants.rules\nviews_file: config/views.rules\n')
JOURNEY_WORDS = ['NORTHWIND', 'CONTOSO', 'FABRIKAM', 'TAILSPIN', 'WINGTIP', 'LITWARE']


def _advice(text):
    import re
    if 'No config found' in text:
        return 'no-config', None
    if 'No data sources configured' in text:
        return 'no-sources', None
    m = re.search(r'(\d+) unknown merchants', text)
    if m:
        return 'unknowns', int(m.group(1))
    if 'All merchants categorized' in text:
        return 'done', 0
    return 'unrecognised', None


def journey_worker(item):
    """One behaviour of Journey.tla replayed with the real CLI.  Returns (steps, C19 failures, advice notes)."""
    name, hist = item
    d = tempfile.mkdtemp(prefix='c19j_')
    env = {'PATH': SHIMBIN + os.pathsep + os.environ.get('PATH', '')}
    fails, notes = [], []
    stage, unknown = 'empty', 0
    descs = []

    def check_advice(after):
        r = cli.run_tally(['workflow'], cwd=d, env_extra=env)
        got = _advice(r['out'])
        want = ('no-config', None) if stage == 'empty' else ('no-sources', None) if stage == 'starter' else \
            (('unknowns', unknown) if unknown > 0 else ('done', 0))
        if got != want:
            notes.append('after %s: tally workflow says %s, Journey!Advice is %s' % (after, got, want))
    try:
        check_advice('start')
        root = os.path.join(d, 'tally')
        for step in hist:
            a = step['a']
            if a == 'init':
                r = cli.run_tally(['init'], cwd=d, env_extra=env)
                if r['rc'] != 0:
                    notes.append('tally init exits %s: %s' % (r['rc'], r['err'][-200:]))
                stage = 'starter' if stage == 'empty' else stage
            elif a == 'sources':
                n = step['n']
                descs = ['%s SHOP %s' % (JOURNEY_WORDS[i], 'WEST' if i % 2 else 'EAST') for i in range(n)]
                rows = ['Date,Description,Amount', '01/03/2025,KNOWN CO,9.99'] + ['01/%02d/2025,%s,%d.25' % (5 + i, x, 10 + i) for i, x in enumerate(descs)]
                cli.materialise(root, {'config/settings.yaml': JOURNEY_SETTINGS, 'data/card.csv': '\n'.join(rows) + '\n'})
                with open(os.path.join(root, 'config', 'merchants.rules'), 'a') as f:
                    f.write('\n[Known]\nmatch: contains("KNOWN CO")\ncategory: Misc\n')
                stage, unknown = 'sources', n
            elif a == 'discover':
                k = step['k']
                r = cli.run_tally(['discover', '--format', 'json', '--limit', '0'], cwd=d, env_extra=env)
                try:
                    items = json.loads(r['out'][r['out'].index('['):])
                except ValueError:
                    fails.append(('discover-output', 'discover printed no JSON list with %d descriptions Unknown: %s' % (unknown, (r['out'] + r['err'])[:200])))
                    break
                if len(items) != unknown:
                    fails.append(('unknown-list', 'discover lists %d descriptions, %d are uncategorised' % (len(items), unknown)))
                take = items[:k]
                with open(os.path.join(root, 'config', 'merchants.rules'), 'a') as f:
                    for it in take:
                        f.write('\n' + it['suggested_rule'].replace('SUBCATEGORY', 'Misc').replace('CATEGORY', 'Food') + '\n')
                after = cli.up_classification(d)
                if isinstance(after, str):
                    fails.append(('rerun-fails', 'after appending %d suggestions `tally up` fails: %s' % (k, after)))
                    break
                still = sorted(x for x, v in after.items() if v[1] == 'Unknown')
                taken = {it['raw_description'] for it in take}
                if taken & set(still):
                    fails.append(('suggestion-did-not-take', 'still Unknown after its suggestion was appended: %s' % sorted(taken & set(still))))
                unknown = len(still)
            check_advice(a)
        return name, len(hist), fails, notes
    finally:
        shutil.rmtree(d, ignore_errors=True)


def run(ck):
    quick = ck.tier == 'quick'
    ck.assumptions += ['descriptions are built from word shapes (plain, metacharacter, quote, short / long number, store number, state code, '
                       'processor prefix, stand-alone separator) with several concrete spellings each; words of the "plain" shape have at least three letters',
                       'budgets without field transforms (discover reports the raw description, rules match the transformed one)']
    ck.expect_model_violation('Discover/pinned', tlc.run('Discover', 'MC_Discover_neg.cfg'), 'Closure')
    tmp = tempfile.mkdtemp(prefix='c19_')
    try:
        dump = os.path.join(tmp, 'd.dump')
        res = tlc.run('Discover', 'MC_Discover4.cfg', dump=dump, timeout=3000)
        ck.expect_model_ok('Discover/intended', res)
        shapes = set()
        for st in tlaval.parse_dump(dump):
            for d in st['unknown']:
                shapes.add(tuple(d))
    finally:
        shutil.rmtree(tmp, ignore_errors=True)
    shapes = sorted(shapes)
    ck.extra['description_shapes'] = len(shapes)
    chunks = [shapes[k:k + 60] for k in range(0, len(shapes), 60)]
    for n, fails in par.pmap(inprocess, [(c, ck.seed * 13 + i) for i, c in enumerate(chunks)]):
        ck.case(n=n)
        ck.trace(n)
        for sig, case, what in fails:
            ck.violation(sig, case, what)
    for s in shapes:
        ck.case(s, nontrivial=len(s) >= 2, n=0)
    for n, fails in par.pmap(unicode_fuzz, [(ck.seed * 101 + k, 500 if quick else 8000) for k in range(16)]):
        ck.case(n=n)
        ck.trace(n)
        ck.extra['unicode_descriptions'] = ck.extra.get('unicode_descriptions', 0) + n
        for sig, case, what in fails:
            ck.violation(sig, case, what)
    # the command: discover -> append -> rerun
    rnd = random.Random(ck.seed)
    batches = []
    for _ in range(6 if quick else 60):
        ds = []
        for s in rnd.sample(shapes, 40):
            d = concretise(s, rnd)
            if d not in ds:
                ds.append(d)
        batches.append((ds,))
    # descriptions that get the SAME suggested merchant name but different patterns: both suggestions must take
    batches.append((['ALFA #12 Bravo', 'ALFA Bravo', 'Zulu market DES:PAYMENT ID:1029', 'Zulu market DES:CASHOUT ID:5647', 'STORE 12 WA', 'STORE 12345',
                     'SQ *Bravo market', 'Bravo market 98101', 'TST* Émile STORE', 'Émile STORE #9 extra'],))
    for descs, items, before, after in par.pmap(cli_batch, batches):
        ck.case(n=len(descs))
        ck.trace(1)
        if isinstance(items, str):
            ck.violation({'site': 'tally discover', 'clause': 'no-json'}, {'descriptions': descs, 'detail': items}, items)
            continue
        listed = {i['raw_description'] for i in items}
        if listed != set(descs):
            ck.violation({'site': 'tally discover', 'clause': 'unknown-list'}, {'missing': sorted(set(descs) - listed), 'extra': sorted(listed - set(descs))},
                         'discover lists %d descriptions, the budget has %d uncategorised ones' % (len(listed), len(set(descs))))
        for i in items:
            clause, detail = check_suggestion(i['raw_description'], i['suggested_rule'])
            if clause:
                ck.violation({'site': 'tally discover', 'clause': clause, 'features': describe(i['raw_description'])},
                             {'description': i['raw_description'], 'suggested_rule': i['suggested_rule'], 'detail': detail},
                             'discover suggests a rule for %r that %s' % (i['raw_description'], clause.replace('-', ' ')))
        aft, text = after
        if isinstance(aft, str) or isinstance(before, str):
            ck.violation({'site': 'tally up', 'clause': 'rerun-fails'}, {'descriptions': descs, 'after': aft if isinstance(aft, str) else None, 'before': before if isinstance(before, str) else None},
                         'after appending the suggested rules `tally up` fails: %s' % (aft if isinstance(aft, str) else before))
            continue
        unk_before = sum(1 for v in before.values() if v[1] == 'Unknown')
        unk_after = sum(1 for v in aft.values() if v[1] == 'Unknown')
        if unk_before and not unk_after < unk_before:
            ck.violation({'site': 'discover-loop', 'clause': 'unknown-list-does-not-shrink'}, {'before': unk_before, 'after': unk_after, 'descriptions': descs[:10]},
                         'appending every suggested rule leaves %d of %d descriptions Unknown' % (unk_after, unk_before))
        elif unk_after:
            still = sorted(k for k, v in aft.items() if v[1] == 'Unknown')[:5]
            ck.violation({'site': 'discover-loop', 'clause': 'suggestion-did-not-take', 'features': describe(still[0])},
                         {'still_unknown': still}, 'after appending every suggested rule these are still Unknown: %s' % still)
    # the guided journey: behaviours of Journey.tla (init, configure sources, discover rounds) replayed with the real CLI
    import simtrace
    ck.expect_model_ok('Journey', tlc.run('Journey', 'MC_Journey.cfg'))
    ck.expect_model_violation('Journey/neg', tlc.run('Journey', 'MC_Journey_neg.cfg'), 'Neg_NeverUnknown')
    tmpj = tempfile.mkdtemp(prefix='c19sim_')
    try:
        numj = 24 if quick else 300
        sim = tlc.run('Journey', 'MC_Journey_sim.cfg', simulate='file=%s/tr,num=%d' % (tmpj, numj), depth=12, workers=1, seed=ck.seed + 19)
        if sim.error or sim.violated:
            raise core.Machinery('Journey simulation failed: %s %s' % (sim.error, sim.violated))
        journeys = []
        seenj = set()
        for f, (labels, states) in simtrace.behaviours(tmpj):
            hist = [dict(h) for h in states[-1]['hist']]
            key = json.dumps(hist, sort_keys=True)
            if key not in seenj and hist:
                seenj.add(key)
                journeys.append((os.path.basename(f), hist))
    finally:
        shutil.rmtree(tmpj, ignore_errors=True)
    notes = []
    for name, nsteps, jf, jn in par.pmap(journey_worker, journeys):
        ck.case(n=nsteps)
        ck.trace(1)
        for clause, what in jf:
            ck.violation({'site': 'journey', 'clause': clause}, {'journey': name, 'detail': what}, 'guided journey: ' + what)
        notes += jn
    ck.extra['journeys'] = len(journeys)
    # what `tally workflow` says is compared with Journey!Advice at every step; it is conformance information, not part of C19
    ck.extra['journey_advice_mismatches'] = len(notes)
    ck.extra['journey_advice_mismatch_examples'] = notes[:5]
    ck.sample({'shapes': list(shapes[len(shapes) // 2]), 'description': concretise(shapes[len(shapes) // 2], rnd)})
    ck.extra['rule'] = ('every description of <= %d words over 9 word shapes (TLC state space of Discover.tla), three spellings each, through '
                        'suggest_pattern / suggest_merchant_name / suggest_merchants_rule + parse_merchants.match; batches of 40 descriptions '
                        'through the real `tally discover`, the suggestions appended, `tally up` rerun; behaviours of Journey.tla (init, configure, discover rounds, `tally workflow` advice at every step) with the real CLI. non-trivial = multi-word description'
                        % 4)
    ck.exhaustive = True


def replay(ck, path):
    from tally.commands.discover import suggest_pattern, suggest_merchant_name, suggest_merchants_rule
    case = json.load(open(path))['case']
    d = case['description']
    rule = suggest_merchants_rule(suggest_merchant_name(d), suggest_pattern(d))
    print(rule, check_suggestion(d, rule))
