"""C02 – tags are the union over all matching rules; tag-only rules never categorize (spec module Engine)."""
import core
import tlc
from props import engine_common, engine_tracecheck


def run(ck):
    quick = ck.tier == 'quick'
    ck.assumptions += ['dynamic tags evaluate to text or fail (list-valued tag expressions are outside the statement)',
                       'tag letter case / surrounding blanks varied by the concretiser; expected tags are lower-cased, stripped']
    ck.expect_model_violation('MC_Engine/neg', tlc.run('MC_Engine', 'MC_Engine_neg.cfg'), 'Neg_TagOnlyNeverMatches')
    cfgs = [('rich2', 'MC_Engine_rich.cfg')]
    if not quick:
        cfgs.append(('plain3', 'MC_Engine_plain.cfg'))
    engine_common.run_universe(ck, cfgs, 'judge_c02')
    ck.extra['rule'] = ('the Engine universe in both rule modes; tags compared as sets with the union the spec computes on every '
                        'path; every rule without category is additionally deleted from the real file and merchant/category/'
                        'subcategory must not move. non-trivial = at least two matching rules and a non-empty tag set')
    # code -> spec: random files over the full concrete grammar, recorded from the real code, validated by Trace_Engine
    engine_tracecheck.run(ck, 'c02', 1600 if quick else 16000)
    ck.exhaustive = True
