"""Running TLC and reading what it says."""
import os
import re
import shutil
import subprocess
import tempfile
import time

JAR = '/opt/veriftools/tla/tla2tools.jar:/opt/veriftools/tla/CommunityModules-deps.jar'
SPEC_DIR = os.path.join(os.path.dirname(os.path.dirname(os.path.abspath(__file__))), 'spec')


class TLCResult:
    def __init__(self):
        self.ok = False
        self.generated = 0
        self.distinct = 0
        self.depth = 0
        self.violated = None        # name of violated invariant/property
        self.error = None           # machinery-level error text
        self.stdout = ''
        self.coverage = {}          # action name -> (distinct, taken)
        self.wall = 0.0
        self.printed = []           # PrintT lines

    def __repr__(self):
        return 'TLCResult(ok=%s gen=%d distinct=%d depth=%d violated=%s error=%s)' % (
            self.ok, self.generated, self.distinct, self.depth, self.violated,
            (self.error or '')[:200])


def run(module, cfg=None, workers=16, dump=None, simulate=None, depth=None, seed=None,
        env=None, timeout=3600, coverage=False, extra=(), deadlock=False, heap='8g',
        dfs_queue=False, cwd=None):
    """Run TLC on spec/<module>.tla with spec/<cfg>.  Returns TLCResult."""
    res = TLCResult()
    meta = tempfile.mkdtemp(prefix='tlcmeta_')
    cwd = cwd or SPEC_DIR
    cmd = ['java', '-XX:+UseParallelGC', '-Xmx' + heap, '-Xss64m',      # (deep RECURSIVE operators over long recorded files)
           '-Djava.io.tmpdir=' + meta]                                  # (TLC's own scratch directory goes away with the metadir)
    if dfs_queue:
        cmd.append('-Dtlc2.tool.queue.IStateQueue=StateDeque')
    cmd += ['-cp', JAR, 'tlc2.TLC', '-metadir', meta, '-noGenerateSpecTE',
            '-workers', str(workers)]
    if cfg:
        cmd += ['-config', cfg]
    if not deadlock:
        cmd += ['-deadlock']
    if coverage:
        cmd += ['-coverage', '1']
    if dump:
        cmd += ['-dump', dump]
    if simulate:
        cmd += ['-simulate', simulate]
    if depth:
        cmd += ['-depth', str(depth)]
    if seed is not None:
        cmd += ['-seed', str(seed)]
    cmd += list(extra)
    cmd.append(module)
    e = dict(os.environ)
    if env:
        e.update({k: str(v) for k, v in env.items()})
    t0 = time.time()
    try:
        p = subprocess.run(cmd, cwd=cwd, env=e, stdout=subprocess.PIPE, stderr=subprocess.STDOUT,
                           timeout=timeout, text=True, errors='replace')
        out = p.stdout
        rc = p.returncode
    except subprocess.TimeoutExpired as ex:
        out = (ex.stdout or b'').decode('utf8', 'replace') if isinstance(ex.stdout, bytes) else (ex.stdout or '')
        rc = -9
        res.error = 'TLC timeout after %ss' % timeout
    finally:
        shutil.rmtree(meta, ignore_errors=True)
    res.wall = time.time() - t0
    res.stdout = out
    m = None
    for m in re.finditer(r'(\d+) states generated, (\d+) distinct states found', out):
        pass
    if m:
        res.generated, res.distinct = int(m.group(1)), int(m.group(2))
    m = re.search(r'The depth of the complete state graph search is (\d+)', out)
    if m:
        res.depth = int(m.group(1))
    m = re.search(r'Invariant (\S+) is violated', out)
    if m:
        res.violated = m.group(1)
    m2 = re.search(r'Action property (\S+) is violated|Temporal properties were violated|'
                   r'property (\S+) is violated', out)
    if m2 and not res.violated:
        res.violated = m2.group(1) or m2.group(2) or 'temporal'
    m3 = re.search(r'Assumption .* is false|The postcondition is false|Postcondition (\S+) .*violated', out)
    if m3 and not res.violated:
        res.violated = 'POSTCONDITION'
    for line in out.splitlines():
        mm = re.match(r'^<(\w+) line \d+, col \d+ to line \d+, col \d+ of module (\w+)>: (\d+):(\d+)', line)
        if mm:
            res.coverage[mm.group(1)] = (int(mm.group(3)), int(mm.group(4)))
    res.ok = (rc == 0 and 'Model checking completed. No error has been found' in out) or \
             (rc == 0 and simulate is not None)
    if simulate is not None and rc == 0 and res.violated is None:
        res.ok = True
    if not res.ok and res.violated is None and res.error is None:
        # parse error / evaluation error
        tail = out[-3000:]
        res.error = 'TLC rc=%s: %s' % (rc, tail)
    return res


def printed_values(stdout):
    """Extract PrintT outputs (lines not part of TLC's own chatter) – crude: lines starting with '<<' or '[' or '"'."""
    vals = []
    for line in stdout.splitlines():
        s = line.strip()
        if s.startswith('<<') or s.startswith('[') or s.startswith('"') or s.startswith('{'):
            vals.append(s)
    return vals


def extract_tagged(stdout, tag):
    """Find every PrintT(<<"tag", ...>>) value in TLC's output (possibly pretty-printed over several lines)
    and return the parsed tuples."""
    import tlaval
    out = []
    pat = re.compile(r'<<\s*"%s"' % re.escape(tag))
    pos = 0
    while True:
        m = pat.search(stdout, pos)
        if not m:
            break
        i = m.start()
        depth = 0
        j = i
        in_str = False
        while j < len(stdout):
            c = stdout[j]
            if in_str:
                if c == '\\':
                    j += 1
                elif c == '"':
                    in_str = False
            elif c == '"':
                in_str = True
            elif stdout.startswith('<<', j):
                depth += 1
                j += 1
            elif stdout.startswith('>>', j):
                depth -= 1
                j += 1
                if depth == 0:
                    j += 1
                    break
            j += 1
        out.append(tlaval.parse_value(stdout[i:j]))
        pos = j
    return out
