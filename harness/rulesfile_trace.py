"""Code -> spec for the rule-file readers (C17): real and random rule / views texts, edited at the text level, read by the real
readers and recorded for spec/Trace_RulesFile.tla.

The abstraction function is a line tokeniser written from the statement of C17 and the format documentation: what a line IS does
not depend on indentation, trailing blanks, line-ending style or (merchants files) key letter case."""
import ast
import random
import re

MERCHANT_KEYS = {'match', 'category', 'subcategory', 'merchant', 'tags', 'priority', 'let', 'field'}
VIEW_KEYS = {'filter', 'description'}
# the documented expression language, as node kinds (reference: operators and / or / not, comparisons, + - * / %, unary minus,
# calls, attribute access, subscripts, conditional expressions, list comprehensions / generator expressions, :=)
_ALLOWED = {'Expression', 'BoolOp', 'BinOp', 'UnaryOp', 'Compare', 'Call', 'IfExp', 'And', 'Or', 'Not', 'Add', 'Sub', 'Mult', 'Div', 'Mod',
            'USub', 'Eq', 'NotEq', 'Lt', 'LtE', 'Gt', 'GtE', 'In', 'NotIn', 'Constant', 'Name', 'Load', 'Store', 'Attribute', 'ListComp',
            'comprehension', 'GeneratorExp', 'Subscript', 'Index', 'NamedExpr'}


def valid_expr(src):
    import warnings
    try:
        with warnings.catch_warnings():
            warnings.simplefilter('ignore')
            tree = ast.parse(src.strip(), mode='eval')
    except (SyntaxError, ValueError):
        return False
    return all(type(n).__name__ in _ALLOWED for n in ast.walk(tree))


def split_tags(val):
    out, cur, depth = [], [], 0
    for ch in val:
        if ch == '(':
            depth += 1
        elif ch == ')':
            depth -= 1
        if ch == ',' and depth == 0:
            out.append(''.join(cur).strip())
            cur = []
        else:
            cur.append(ch)
    out.append(''.join(cur).strip())
    return [x for x in out if x]


class Skip(Exception):
    """The text contains something the statement does not settle (duplicate single-valued properties, empty values ...)."""


_ASSIGN = re.compile(r'^(field\.[a-zA-Z_][a-zA-Z0-9_]*|[a-zA-Z_][a-zA-Z0-9_]*)\s*=\s*(.+)$')
_BIND = re.compile(r'^([a-zA-Z_][a-zA-Z0-9_]*)\s*=\s*(.+)$')


def tokenise(text, kind, intern):
    """text -> list of RulesFile.tla tokens."""
    toks = []
    in_section = False
    seen = set()          # single-valued keys / field names of the current section
    names = set()         # top-level variable names
    section_names = set()
    for raw in text.split('\n'):
        s = raw.strip()
        if not s:
            toks.append({'t': 'blank'})
            continue
        if s.startswith('#'):
            toks.append({'t': 'comment'})
            continue
        if s.startswith('['):
            if s.endswith(']') and s.count('[') == 1 and s.count(']') == 1:
                name = s[1:-1].strip()
                if not name:
                    raise Skip('empty header')
                toks.append({'t': 'header', 'n': intern(name)})
                in_section, seen, section_names = True, set(), set()
            elif re.match(r'^\[[^\[\]]+\]\s*\S', s):
                toks.append({'t': 'headerjunk'})
            else:
                raise Skip('odd bracket line')
            continue
        m = _ASSIGN.match(s)
        if kind == 'merchants':
            if not in_section and m:
                lhs, rhs = m.groups()
                good = valid_expr(rhs)
                if lhs.startswith('field.'):
                    toks.append({'t': 'transform', 'v': 'good' if good else 'badexpr'})
                else:
                    if lhs.lower() in names:
                        raise Skip('variable bound twice')
                    names.add(lhs.lower())
                    toks.append({'t': 'assign', 'var': intern(lhs.lower()), 'v': 'good' if good else 'badexpr'})
                continue
            if ':' in s:
                key, val = s.split(':', 1)
                key, val = key.strip().lower(), val.strip()
                if key not in MERCHANT_KEYS:
                    toks.append({'t': 'prop', 'key': 'bogus', 'v': 'good', 'id': 'x'})
                    continue
                if not in_section:
                    toks.append({'t': 'prop', 'key': key, 'v': 'good', 'id': 'x'})
                    continue
                v, vid = 'good', None
                if key in ('let', 'field'):
                    b = _BIND.match(val)
                    if not b:
                        v = 'malformed'
                    else:
                        if not valid_expr(b.group(2)):
                            v = 'badexpr'
                        if key == 'field':
                            if b.group(1).lower() in seen:
                                raise Skip('field bound twice')
                            seen.add(b.group(1).lower())
                        vid = intern('%s = %s' % (b.group(1).lower(), b.group(2)))
                else:
                    if key in seen:
                        raise Skip('duplicate single-valued property')
                    seen.add(key)
                    if not val:
                        raise Skip('empty value')
                    if key == 'match':
                        v = 'good' if valid_expr(val) else 'badexpr'
                        vid = intern(val)
                    elif key == 'priority':
                        if not re.fullmatch(r'[-+]?\d+', val):
                            v = 'malformed'
                        else:
                            vid = intern(str(int(val)))
                    elif key == 'tags':
                        tags = split_tags(val)
                        if not tags:
                            raise Skip('empty tags')
                        for t in tags:
                            if t.startswith('{') and t.endswith('}') and t[1:-1].strip() and not valid_expr(t[1:-1]):
                                v = 'badexpr'
                        vid = intern(', '.join(sorted(set(tags))))
                    else:
                        vid = intern(val)
                toks.append({'t': 'prop', 'key': key, 'v': v, 'id': vid or 'x'})
                continue
            if m:
                # name = expression inside a rule (merchants files have no such line)
                toks.append({'t': 'assign', 'var': intern(m.group(1).lower()), 'v': 'good' if valid_expr(m.group(2)) else 'badexpr'})
                continue
            toks.append({'t': 'garbage'})
            continue
        # ---- views files: "filter:" / "description:" lines, "name = expression" lines, nothing else
        fm = re.match(r'^(filter|description)\s*:\s*(.*)$', s)
        if fm:
            key, val = fm.group(1), fm.group(2).strip()
            if key in seen:
                raise Skip('duplicate single-valued property')
            seen.add(key)
            if not val:
                raise Skip('empty value')
            v = 'good'
            if key == 'filter' and not valid_expr(val):
                v = 'badexpr'
            toks.append({'t': 'prop', 'key': key, 'v': v, 'id': intern(val)})
            continue
        vm = re.match(r'^([a-zA-Z_][a-zA-Z0-9_]*)\s*=\s*(.+)$', s)
        if vm:
            scope = section_names if in_section else names
            if vm.group(1) in scope:
                raise Skip('variable bound twice')
            scope.add(vm.group(1))
            toks.append({'t': 'assign', 'var': intern(vm.group(1)), 'v': 'good' if valid_expr(vm.group(2)) else 'badexpr'})
            continue
        if re.match(r'^[A-Za-z_]+\s*:', s):
            toks.append({'t': 'prop', 'key': 'bogus', 'v': 'good', 'id': 'x'})
            continue
        toks.append({'t': 'garbage'})
    return toks


def observe(text, kind, intern):
    """The real reader's result in the vocabulary of RulesFile!Result."""
    if kind == 'merchants':
        from tally.merchant_engine import parse_merchants, MerchantParseError
        try:
            eng = parse_merchants(text)
        except MerchantParseError as e:
            return {'err': True, 'line': e.line_number or 0, 'msg': str(e)[:120]}
        rules = []
        for r in eng.rules:
            props = [['match', intern(r.match_expr)]]
            if r.category:
                props.append(['category', intern(r.category)])
            if r.subcategory:
                props.append(['subcategory', intern(r.subcategory)])
            if r.merchant != r.name:
                props.append(['merchant', intern(r.merchant)])
            if r.tags:
                props.append(['tags', intern(', '.join(sorted(r.tags)))])
            if r.priority != 50:
                props.append(['priority', intern(str(r.priority))])
            for n, e in r.let_bindings:
                props.append(['let', intern('%s = %s' % (n, e))])
            for n, e in r.fields.items():
                props.append(['field', intern('%s = %s' % (n, e))])
            rules.append({'name': intern(r.name), 'props': props, 'lets': [intern('%s = %s' % x) for x in r.let_bindings], 'vars': []})
        return {'err': False, 'line': 0, 'rules': rules, 'globals': [intern(x) for x in eng.variables], 'transforms': len(eng.transforms)}
    from tally.section_engine import parse_sections, SectionParseError
    try:
        cfg = parse_sections(text)
    except SectionParseError as e:
        return {'err': True, 'line': e.line_number or 0, 'msg': str(e)[:120]}
    rules = []
    for s in cfg.sections:
        props = [['filter', intern(s.filter_expr)]]
        if s.description:
            props.append(['description', intern(s.description)])
        rules.append({'name': intern(s.name), 'props': props, 'lets': [], 'vars': [intern(x) for x in s.variables]})
    return {'err': False, 'line': 0, 'rules': rules, 'globals': [intern(x) for x in cfg.global_variables], 'transforms': 0}


def drop_defaults(toks):
    """`merchant: <the rule's own name>` and `priority: 50` state the default: a reader's result does not show them."""
    out, cur = [], None
    for t in toks:
        if t['t'] == 'header':
            cur = t['n']
        if t['t'] == 'prop' and t['v'] == 'good' and ((t['key'] == 'merchant' and t['id'] == cur) or (t['key'] == 'priority' and t['id'] == '_50')):
            out.append({'t': 'comment'})
        else:
            out.append(t)
    return out


# ------------------------------------------------------------------------------------------- texts and edits ----
GARBAGE = ['this is not a rule line', '!!!', 'contains("ALFA")', '-- separator --', 'Pattern,Merchant,Category,Subcategory', 'ALFA,Alfa,Food,Grocery',
           '=====', '* bullet', 'match contains("X")', '(continued)']
BADVALS = {'match': ['contains("A"', 'amount >', 'lambda: 1', 'amount // 2 > 1', 'amount ** 2 > 4', 'amount is None', '[1, 2]'],
           'filter': ['total >', 'lambda: 1', 'months // 2 > 1', 'total ** 2 > 4', '(total'],
           # (a name may be bound again later in the rule: a malformed binding is malformed whatever follows)
           'let': ['z = amount >', 'no equals here', '= 5', '1x = 5', 'z = amount // 2', 'la = amount >', 'lb = (1', 'isBulk = 1 +'],
           'field': ['q = (', 'nofield', '= 1', 'q = ~1'],
           'priority': ['high', '5.5', '1e2'], 'tags': ['keep, {amount >}', '{contains(}', 'a, {amount // 2}']}


def base_texts():
    """tally's own files and examples (from the tree under test) - whatever parses today."""
    import glob
    import os
    import core
    out = {'merchants': [], 'views': []}
    try:
        from tally import cli as tcli
        out['merchants'].append(tcli.STARTER_MERCHANTS)
        out['views'].append(tcli.STARTER_VIEWS)
    except Exception:
        pass
    for f in glob.glob(os.path.join(core.REPO, 'config', '*.example')) + glob.glob(os.path.join(core.REPO, 'docs', '**', '*.rules'), recursive=True):
        try:
            t = open(f, encoding='utf8').read()
        except OSError:
            continue
        if 'filter:' in t:
            out['views'].append(t)
        elif 'match:' in t:
            out['merchants'].append(t)
    return out


def edit_text(text, kind, rnd, corrupt):
    lines = text.replace('\r\n', '\n').split('\n')
    out = []
    for ln in lines:
        s = ln.strip()
        is_prop = (':' in s and not s.startswith('#') and not s.startswith('[')) if kind == 'merchants' else bool(re.match(r'^(filter|description)\s*:', s))
        if is_prop and rnd.random() < 0.5:
            ln = rnd.choice(['  ', '    ', '\t', '']) + s
            if kind == 'merchants' and rnd.random() < 0.3:
                k, v = s.split(':', 1)
                ln = rnd.choice(['  ', '']) + rnd.choice([k.upper(), k.title(), k]) + rnd.choice([':', ': ', ' : ', ':   ']) + v.strip()
        elif s.startswith('[') and kind == 'merchants' and rnd.random() < 0.2:
            ln = '  ' + s
        if rnd.random() < 0.2:
            ln = ln + rnd.choice([' ', '   ', '\t'])
        out.append(ln)
        if rnd.random() < 0.12:
            out.append(rnd.choice(['', '   ', '# a comment', '#', '   # indented comment', '# match: contains("X")', '#[Not A Header]']))
    lines = out
    # permute the distinct (non-let) properties of one section
    heads = [k for k, ln in enumerate(lines) if ln.strip().startswith('[')]
    if heads and rnd.random() < 0.5:
        h = rnd.choice(heads)
        end = min([x for x in heads if x > h] + [len(lines)])
        idx = [k for k in range(h + 1, end) if lines[k].strip() and not lines[k].strip().startswith('#')
               and not re.match(r'^\s*let\s*:', lines[k], re.I) and (kind == 'merchants' or re.match(r'^\s*(filter|description)\s*:', lines[k]))]
        vals = [lines[k] for k in idx]
        rnd.shuffle(vals)
        for k, v in zip(idx, vals):
            lines[k] = v
    what = None
    if corrupt:
        what = rnd.choice(['garbage', 'headerjunk', 'drop-required', 'unknown-prop', 'bad-value', 'prop-before-header', 'assign-in-rule', 'transform-in-rule'])
        body = [k for k, ln in enumerate(lines) if ln.strip() and not ln.strip().startswith('#')]
        if what == 'garbage':
            lines.insert(rnd.randrange(len(lines) + 1), rnd.choice(GARBAGE))
        elif what == 'headerjunk' and heads:
            h = rnd.choice(heads)
            lines[h] = lines[h].rstrip() + rnd.choice([' # note', ' extra', ' x'])
        elif what == 'drop-required':
            req = [k for k in body if re.match(r'^\s*(match|filter)\s*:', lines[k], re.I)]
            if req:
                del lines[rnd.choice(req)]
        elif what == 'unknown-prop' and heads:
            lines.insert(rnd.choice(heads) + 1, rnd.choice(['colour: blue', 'Categories: Food', 'regex: A.*', 'note: x']))
        elif what == 'bad-value' and heads:
            key = rnd.choice(['match', 'let', 'field', 'priority', 'tags'] if kind == 'merchants' else ['filter'])
            h = rnd.choice(heads)
            end = min([x for x in heads if x > h] + [len(lines)])
            same = [k for k in range(h + 1, end) if re.match(r'^\s*%s\s*:' % key, lines[k], re.I)]
            bad = '%s: %s' % (key, rnd.choice(BADVALS[key]))
            if same and key not in ('let', 'field'):
                lines[same[0]] = bad
            else:
                lines.insert(h + 1, bad)
        elif what == 'prop-before-header':
            lines.insert(0, rnd.choice(['category: Food', 'match: contains("A")'] if kind == 'merchants' else ['filter: total > 1', 'description: x']))
        elif what == 'assign-in-rule' and heads and kind == 'merchants':
            lines.insert(rnd.choice(heads) + 1, 'zz = amount > 5')
        elif what == 'transform-in-rule' and heads and kind == 'merchants':
            lines.insert(rnd.choice(heads) + 1, 'field.description = trim(field.description)')
    eol = '\r\n' if rnd.random() < 0.25 else '\n'
    return eol.join(lines), what


class Intern:
    def __init__(self):
        self.ids = {'50': '_50'}

    def __call__(self, s):
        return self.ids.setdefault(s, 'v%d' % len(self.ids))


def record_batch(seed, n, kind, bases):
    import engine_trace as ET
    import views_trace as VT
    rnd = random.Random(seed)
    recs, skipped = [], 0
    for k in range(n):
        r = rnd.random()
        if bases and r < 0.25:
            text = rnd.choice(bases)
        elif kind == 'merchants':
            text = ET.render(ET.gen_file(rnd, rnd.choice(['first_match', 'most_specific']), rnd.choice(['c01', 'c02', 'c08'])), None, rnd)
        else:
            text = VT.render(VT.gen_file(rnd, 0.1), rnd)
        text, what = edit_text(text, kind, rnd, corrupt=rnd.random() < 0.45)
        intern = Intern()
        try:
            toks = drop_defaults(tokenise(text, kind, intern))
        except Skip:
            skipped += 1
            continue
        obs = observe(text, kind, intern)
        recs.append({'id': 'rf:%s:%d:%d' % (kind[0], seed, k), 'file': toks, 'obs': {k2: v for k2, v in obs.items() if k2 != 'msg'},
                     '_text': text, '_corruption': what, '_msg': obs.get('msg'), '_kind': kind})
    return recs, skipped
