"""Cell vocabulary of Rows.tla with the concrete texts, and rendering of abstract tables to CSV bytes.

Every amount text has its reading under each decimal convention decided HERE from the statement of C05 (number written in
the cell; thousands separators, currency symbols, parenthesised negatives understood; anything else is not a number).
Texts whose reading is debatable (1e3, 1_0, malformed grouping such as 12.50 under a decimal comma) are simply not in the
vocabulary."""
import csv
import io

# id -> (text, value, formats)
DATES = {
    'd1': ('01/05/2025', (2025, 1, 5), ['f1']),
    'd2': ('12/31/2024', (2024, 12, 31), ['f1']),
    'd1p': ('  01/05/2025 ', (2025, 1, 5), ['f1']),
    'i1': ('2025-01-05', (2025, 1, 5), ['f2']),
    'i2': ('2024-02-29', (2024, 2, 29), ['f2']),
    'bad30': ('02/30/2025', None, []),
    'badiso': ('2025-02-30', None, []),
    'text': ('hello', None, []),
    'empty': ('', None, []),
    'blank': ('   ', None, []),
    'partial': ('01/05', None, []),
}
TEXTS = {
    'A': ('ALFA STORE', 'ALFA STORE'),
    'Bp': ('  BRAVO cafe ', 'BRAVO cafe'),
    'comma': ('ACME, Inc.', 'ACME, Inc.'),
    'quote': ('JOE "THE" DINER', 'JOE "THE" DINER'),
    'nl': ('LINE ONE\nLINE TWO', 'LINE ONE\nLINE TWO'),
    'nlend': ('TOTAL DUE\n', 'TOTAL DUE'),        # a quoted cell that ENDS with a line break (multi-line column titles do)
    'uni': ('Café Zürich №5 ✓', 'Café Zürich №5 ✓'),
    'semi': ('X;Y|Z', 'X;Y|Z'),
    'empty': ('', ''),
    'blank': ('   ', ''),
    'loc': ('Seattle WA', 'Seattle WA'),
    'k': ('kind-1', 'kind-1'),
    'pay': ('PAYROLL ACME', 'PAYROLL ACME'),
    'nv1': ('ALFA NEWSTORE', 'ALFA NEWSTORE'),
    'nv2': ('PAYROLL  EXTRA', 'PAYROLL  EXTRA'),      # a padded export: TWO blanks inside (a description is matched as it stands)
    'nv3': ('SOMETHING ELSE 9', 'SOMETHING ELSE 9'),
    'nv4': ('ALFA REFUND', 'ALFA REFUND'),
    # wallet-prefixed descriptions (a budget may strip the prefix with a field transform before rules are matched)
    'spl': ('SPLIT CO', 'SPLIT CO'),
    'apA': ('APLPAY ALFA STORE', 'APLPAY ALFA STORE'),
    'apX': ('APLPAY ZULU BAR', 'APLPAY ZULU BAR'),
    'nvp': ('APLPAY ALFA POPUP', 'APLPAY ALFA POPUP'),
    'nvq': ('APLPAY OMEGA 7', 'APLPAY OMEGA 7'),
}
# id -> (text under '.', cents | None, text under ',', cents | None)
AMOUNTS = {
    'p1250': ('12.50', 1250, '12,50', 1250),
    'm3': ('-3', -300, '-3', -300),
    'plus7': ('+7', 700, '+7', 700),
    'paren3': ('(3.00)', -300, '(3,00)', -300),
    'big': ('($1,234.56)', -123456, '(€1.234,56)', -123456),
    'thou': ('1,234.56', 123456, '1.234,56', 123456),
    'cur5': ('$5', 500, '€5', 500),
    'pad': ('  8.25 ', 825, ' 8,25  ', 825),
    'sp': ('£ 9.99', 999, '1 234,00', 123400),
    # whole thousands written with the thousands separator and no decimals: under a decimal comma the dot is NOT a decimal point
    'k1': ('1,234', 123400, '1.234', 123400),
    'k2m': ('-2,500', -250000, '-2.500', -250000),
    'zero': ('0', 0, '0', 0),
    'zero2': ('0.00', 0, '0,00', 0),
    'pzero': ('(0)', 0, '(0)', 0),
    'nzero': ('-0', 0, '-0,0', 0),
    'abc': ('abc', None, 'abc', None),
    'empty': ('', None, '', None),
    'blank': ('  ', None, '  ', None),
    'nan': ('nan', None, 'nan', None),
    'inf': ('inf', None, 'inf', None),
    'ninf': ('-inf', None, '-Infinity', None),
    'dots': ('12.5.0', None, '12,5,0', None),
    'usd': ('5 USD', None, '5 EUR', None),
    'dd': ('--5', None, '--5', None),
}


def tla_str(s):
    return '"' + s + '"'


def tla_vocab():
    """TLA+ text of the vocabulary (module MC_RowsData)."""
    out = []
    out.append('DateCells == {\n  ' + ',\n  '.join(
        '[id |-> "%s", val |-> %s, fmts |-> {%s}, blank |-> %s]' % (
            k, ('<<%d, %d, %d>>' % v[1]) if v[1] else '<<>>', ', '.join('"%s"' % f for f in v[2]),
            'TRUE' if v[0].strip() == '' else 'FALSE') for k, v in DATES.items()) + ' }\n')
    out.append('TextCells == {\n  ' + ',\n  '.join(
        '[id |-> "%s", blank |-> %s]' % (k, 'TRUE' if v[1] == '' else 'FALSE') for k, v in TEXTS.items()) + ' }\n')

    def rd(c):
        return '[ok |-> %s, cents |-> %d]' % ('TRUE' if c is not None else 'FALSE', c or 0)
    out.append('AmtCells == {\n  ' + ',\n  '.join(
        '[id |-> "%s", blank |-> %s, dot |-> %s, comma |-> %s]' % (k, 'TRUE' if v[0].strip() == '' else 'FALSE', rd(v[1]), rd(v[3]))
        for k, v in AMOUNTS.items()) + ' }\n')
    return '\n'.join(out)


# ----------------------------------------------------------------------------------------------- layouts ----------
# name -> (format string, template, column order of the abstract parts, cfg)
LAYOUTS = {
    'L1': dict(fmt='{date:%m/%d/%Y},{description},{amount}', template=None, cols=['date', 'desc', 'amt'],
               cfg=dict(fmt='f1', mode='desc', hasloc=False, hasextra=False)),
    'L2': dict(fmt='{_},{date:%Y-%m-%d},{amount},{description},{location}', template=None, cols=['skip', 'date', 'amt', 'desc', 'loc'],
               cfg=dict(fmt='f2', mode='desc', hasloc=True, hasextra=False)),
    'L3': dict(fmt='{date},{type},{merchant},{amount}', template='{merchant} ({type})', cols=['date', 'cap2', 'desc', 'amt'],
               cfg=dict(fmt='f1', mode='template', hasloc=False, hasextra=False)),
    'L4': dict(fmt='{date:%m/%d/%Y}, {description}, {*}, {amount}, {cardholder}', template=None, cols=['date', 'desc', 'skip', 'amt', 'extra'],
               cfg=dict(fmt='f1', mode='desc', hasloc=False, hasextra=True)),
}
SIGN_PREFIX = {'plain': '', 'negate': '-', 'abs': '+'}


def format_string(layout, sign):
    return LAYOUTS[layout]['fmt'].replace('{amount}', '{%samount}' % SIGN_PREFIX[sign])


def cell_text(part, row, dec):
    if part == 'skip':
        return 'zz'
    c = row[part]
    if part == 'date':
        return DATES[c][0]
    if part == 'amt':
        a = AMOUNTS[c]
        return a[0] if dec == 'dot' else a[2]
    return TEXTS[c][0]


def render(table, layout, dec, delimiter, header, quoting, eol, rnd=None):
    """abstract table -> file text.  delimiter: ',' ';' 'tab' or 'regex' (pipe-separated, read with a regex)."""
    cols = LAYOUTS[layout]['cols']
    rows = []
    # `header` is the has_header SETTING: the reader then drops the first record of the file, whatever it is (the table's
    # first row plays that part; realistic header rows are rows whose date cell is text)
    for r in table:
        cells = [cell_text(p, r, dec) for p in cols]
        if r['shape'] == 'emptyline':
            cells = []
        elif r['shape'] == 'short':
            cells = cells[:len(cols) - 1]
        elif r['shape'] == 'long':
            cells = cells + ['surplus', 'x']
        rows.append(cells)
    if delimiter == 'regex':
        return '\n'.join('|'.join(c for c in cells) for cells in rows) + '\n'
    d = {',': ',', ';': ';', 'tab': '\t'}[delimiter]
    buf = io.StringIO()
    w = csv.writer(buf, delimiter=d, quoting=quoting, lineterminator=eol)
    for cells in rows:
        w.writerow(cells)
    return buf.getvalue()


def regex_for(layout, open_ended=False):
    """A line pattern for the pipe rendering.  Two equivalent spellings: one that describes the whole line, and one that stops
    after the last column it needs (whatever follows on the line - a running balance, a remark - is not its business)."""
    n = len(LAYOUTS[layout]['cols'])
    if open_ended:
        return 'regex:' + r'\|'.join(['([^|]*)'] * n)
    return 'regex:^' + r'\|'.join(['([^|]*)'] * n) + r'(?:\|.*)?$'


def representable(table, layout, dec, delimiter):
    """Can this table be written faithfully with this delimiter?  (the regex / pipe rendering has no quoting)"""
    cols = LAYOUTS[layout]['cols']
    for r in table:
        if r['shape'] == 'emptyline':
            continue
        for p in cols:
            t = cell_text(p, r, dec)
            if delimiter == 'regex' and ('|' in t or '\n' in t):
                return False
            if delimiter == 'regex' and p == cols[0] and t.strip() == '' and False:
                return False
    return True
