"""Running the real tally CLI (from /repo's working tree) in a fresh process, optionally under the effect shim."""
import json
import os
import subprocess
import tempfile

import core

SHIM = os.path.join(core.ROOT, 'shim')
PY = '/venv/bin/python'


def run_tally(args, cwd, root=None, crash_at=0, fault_at=0, torn=None, timeout=120, env_extra=None, stdin=None):
    """Returns dict(rc, out, err, effects).  root: directory whose mutations are traced (enables the shim)."""
    env = {k: v for k, v in os.environ.items() if not k.startswith('TALLY_')}
    env['PYTHONPATH'] = core.repo_src()
    env['PYTHONDONTWRITEBYTECODE'] = '1'
    env['PYTHONHASHSEED'] = '0'
    env['NO_COLOR'] = '1'
    env['COLUMNS'] = '200'
    logpath = None
    if root:
        fd, logpath = tempfile.mkstemp(prefix='fxlog_', suffix='.ndjson')
        os.close(fd)
        env['PYTHONPATH'] = SHIM + os.pathsep + core.repo_src()
        env['TALLY_VERIF'] = '1'
        env['TALLY_VERIF_ROOT'] = root
        env['TALLY_VERIF_LOG'] = logpath
        if crash_at:
            env['TALLY_VERIF_CRASH_AT'] = str(crash_at)
        if fault_at:
            env['TALLY_VERIF_FAULT_AT'] = str(fault_at)
        if torn is not None:
            env['TALLY_VERIF_TORN'] = str(torn)
    if env_extra:
        env.update(env_extra)
    try:
        p = subprocess.run([PY, '-m', 'tally'] + list(args), cwd=cwd, env=env, stdout=subprocess.PIPE,
                           stderr=subprocess.PIPE, text=True, timeout=timeout, errors='replace',
                           stdin=subprocess.DEVNULL if stdin is None else None, input=stdin)
        rc, out, err = p.returncode, p.stdout, p.stderr
    except subprocess.TimeoutExpired as e:
        rc, out, err = -9, (e.stdout or ''), 'TIMEOUT'
    effects = []
    if logpath:
        with open(logpath) as f:
            for line in f:
                line = line.strip()
                if line:
                    effects.append(json.loads(line))
        os.unlink(logpath)
    return {'rc': rc, 'out': out, 'err': err, 'effects': effects}


def snapshot(root):
    """path -> bytes for every file under root; directories as path/ -> None."""
    snap = {}
    for dp, dns, fns in os.walk(root):
        rel = os.path.relpath(dp, root)
        for d in dns:
            snap[os.path.normpath(os.path.join(rel, d)) + '/'] = None
        for fn in fns:
            p = os.path.join(dp, fn)
            with open(p, 'rb') as f:
                snap[os.path.normpath(os.path.join(rel, fn))] = f.read()
    return snap


def materialise(root, files):
    """files: relpath -> str content (or None for a directory)."""
    for rel, content in files.items():
        p = os.path.join(root, rel)
        if content is None:
            os.makedirs(p, exist_ok=True)
        else:
            os.makedirs(os.path.dirname(p), exist_ok=True)
            if isinstance(content, bytes):
                with open(p, 'wb') as f:
                    f.write(content)
            else:
                with open(p, 'w', encoding='utf-8', newline='') as f:
                    f.write(content)


def parse_json_out(out):
    """`tally up --format json` may print migration chatter before the JSON object."""
    idx = out.find('\n{\n')
    if out.startswith('{'):
        idx = 0
    elif idx >= 0:
        idx += 1
    if idx < 0:
        return None
    try:
        return json.loads(out[idx:])
    except ValueError:
        # trailing chatter after the object: cut at the last closing brace at column 0
        end = out.rfind('\n}')
        try:
            return json.loads(out[idx:end + 2])
        except ValueError:
            return None


def up_classification(cwd, extra_args=(), config=None):
    """What `tally up` classifies: raw description -> [merchant, category, subcategory, tags]; or an error string."""
    args = ['up', '-q', '--format', 'json', '-v'] + list(extra_args)
    if config:
        args.append(config)
    r = run_tally(args, cwd=cwd)
    if r['rc'] != 0:
        return 'EXIT%d: %s' % (r['rc'], (r['err'].strip().splitlines() or ['?'])[0][:120])
    js = parse_json_out(r['out'])
    if js is None:
        return 'NOJSON: ' + r['out'][:200]
    res = {}
    for m in js['merchants']:
        for d in (m.get('raw_descriptions') or {m['name']: 1}):
            res[d] = [m['name'], m['category'], m['subcategory'], sorted(m.get('tags', []))]
    return res


def up_counts(cwd, extra_args=()):
    """What `tally up` files where, per merchant: "name|category|subcategory" -> [tags, count, total, raw descriptions with counts]."""
    r = run_tally(['up', '-q', '--format', 'json', '-v'] + list(extra_args), cwd=cwd)
    if r['rc'] != 0:
        return 'EXIT%d: %s' % (r['rc'], (r['err'].strip().splitlines() or ['?'])[0][:120])
    js = parse_json_out(r['out'])
    if js is None:
        return 'NOJSON: ' + r['out'][:200]
    return {'%s|%s|%s' % (m['name'], m['category'], m['subcategory']): [sorted(m.get('tags', [])), m.get('count'), round(m.get('total', 0), 2),
                                                                      dict(sorted((m.get('raw_descriptions') or {}).items()))] for m in js['merchants']}
