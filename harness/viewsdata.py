"""Concrete merchants / filters / variable declarations of the C10 universe (shared by the TLA+ data generator and the replay)."""
import datetime

D = datetime.date
MERCHANTS = [
    dict(name='Netflix', cat='Bills', sub='Streaming', tags=['recurring'],
         pays=[(D(2024, 11, 5), 15.0), (D(2024, 12, 5), 15.0), (D(2025, 1, 5), 15.0), (D(2025, 2, 5), 15.0)]),
    dict(name='Grocer', cat='Food', sub='Grocery', tags=[],
         pays=[(D(2025, 1, 3), 40.25), (D(2025, 1, 17), 60.5), (D(2025, 2, 9), 100.0)]),
    dict(name='BigBuy', cat='Shopping', sub='', tags=['big', 'Recurring'], pays=[(D(2025, 2, 20), 1200.0)]),
    dict(name='Refunds', cat='Food', sub='Grocery', tags=[], pays=[(D(2025, 1, 10), -20.0), (D(2025, 2, 10), 5.0)]),
    dict(name='Salary', cat='Income', sub='Pay', tags=['income'], pays=[(D(2025, 1, 31), -3000.0), (D(2025, 2, 28), -3000.0)]),
    dict(name='Lumpy', cat='Travel', sub='Air', tags=['x'], pays=[(D(2024, 12, 1), 10.0), (D(2025, 1, 15), 300.0), (D(2025, 2, 2), 20.0)]),
    dict(name='Cafe', cat='Food', sub='Coffee', tags=[], pays=[(D(2025, 1, 3), 4.5), (D(2025, 1, 3), 5.5), (D(2025, 1, 4), 6.0)]),
    dict(name='Moves', cat='Transfers', sub='', tags=['TRANSFER'], pays=[(D(2025, 1, 8), 500.0)]),
    dict(name='Flat', cat='Bills', sub='Power', tags=[], pays=[(D(2025, 1, 9), 50.0), (D(2025, 2, 9), 150.0)]),
    # tags differ from payment to payment (a tag-only rule fired on one of them): `tags` is the union over the payments
    dict(name='Gadget', cat='Shopping', sub='Tech', tags=['big'], paytags=[[], ['Big'], []],
         pays=[(D(2025, 1, 11), 20.0), (D(2025, 1, 25), 700.0), (D(2025, 2, 11), 25.0)]),
    # identical monthly totals that are not binary fractions (cv is exactly 0)
    dict(name='Cloud', cat='Bills', sub='Streaming', tags=[],
         pays=[(D(2024, 12, 7), 0.1), (D(2025, 1, 7), 0.1), (D(2025, 2, 7), 0.1)]),
    # calendar corners: a leap day next to the 15th of the same month, and the last day of a year
    # the same merchant paid from two accounts, statements loaded one after the other: payments NOT in date order
    dict(name='TwoCards', cat='Bills', sub='Power', tags=[],
         pays=[(D(2025, 1, 10), 60.0), (D(2025, 2, 10), 60.0), (D(2025, 1, 20), 50.0), (D(2025, 2, 20), 50.0), (D(2025, 1, 10), 5.0)]),
    dict(name='Leap', cat='Gym', sub='', tags=[], pays=[(D(2024, 2, 15), 30.0), (D(2024, 2, 29), 30.0), (D(2024, 12, 31), 31.0)]),
]
ATOMS = ['true', 'category == "food"', 'category != "Bills"', 'subcategory == "grocery"', 'merchant == "netflix"', 'months >= 3',
         'months == 1', 'total > 100', 'total < 0', 'total >= 1200', 'cv < 0.3', 'cv > 0.5', 'cv >= 0', '0.75 > cv', '"recurring" in tags',
         '"BIG" in tags', '"x" not in tags', 'sum(payments) > 100', 'count(payments) >= 3', 'avg(payments) > 50',
         'max(payments) >= 100', 'min(payments) < 0', 'max(sum(by("month"))) > 100', 'min(count(by("month"))) >= 2',
         'count(by("year")) == 2', 'max(count(by("day"))) >= 2', 'count(by("day")) >= 3', 'months >= max_val(2, period("month") * 0.5)',
         'total / months > 50', 'total / (months - 1) > 0', 'months >= period("year")', 'abs(total) > 10', 'g', 'v > 10',
         'g and v > 50', 'h', 'min_val(total, 100) == 100', '(total if months > 1 else 0) > 20', 'avg(sum(by("month"))) >= 100',
         'count(payments) == count(by("day"))', 'max(stddev(by("month"))) < 1']
ERR_ATOMS = ['nosuch > 1', 'total > "x"', 'sum(category) > 1', 'max(by("bogus")) > 1', 'max_val(1) > 0', 'tags > 1',
             'sum(by("month")) > 100', 'payments.count > 1', 'total[0] > 1', '-category == 1', 'months + "1" > 1']
CORE = ['true', 'category == "food"', 'months >= 3', 'total > 100', 'cv < 0.3', '"recurring" in tags', 'g', 'v > 10', 'nosuch > 1',
        'max(count(by("day"))) >= 2']
# (declarations see everything a filter sees: the merchant AND the analysis period - 5 months over 2 years here, which is
#  neither of the 12 months / 1 year a period-less evaluation would assume)
GLOBALS = [[], [('g', 'months >= 2')], [('g', 'nosuch + 1')], [('g', 'total / months'), ('h', 'g > 50')],
           [('g', 'months * 2 >= period("month")'), ('h', 'total / period("year") > 50')],
           # globals that read the merchant's payments ONLY through by(...) - no primitive is named - and one built from another
           [('peak', 'max(sum(by("month")))'), ('g', 'peak > 100'), ('h', 'count(by("year")) == 2')]]
LOCALS = [[], [('v', 'total / months')], [('v', 'avg(payments)'), ('w', 'v * 2')], [('g', 'false')],
          [('v', 'period("month") * 2')], [('v', 'total / period("year")'), ('g', 'months * 4 >= period("month")')]]
