"""Check context: evidence, known findings, violations, replay files."""
import hashlib
import json
import os
import sys
import time
import traceback

ROOT = os.path.dirname(os.path.dirname(os.path.abspath(__file__)))
REPO = os.environ.get('VERIF_REPO', '/repo')
# VERIF_OUT redirects evidence and replay files (used when a check is pointed at a scratch copy with VERIF_REPO, so that
# a mutation / seeded-change run never overwrites the evidence of the real tree)
_OUT = os.environ.get('VERIF_OUT') or ROOT
EVIDENCE_DIR = os.path.join(_OUT, 'evidence')
REPLAY_DIR = os.path.join(_OUT, 'replays')
FINDINGS = os.path.join(ROOT, 'known_findings.json')


class Machinery(Exception):
    """The check itself is broken (spec does not parse, vacuous run, harness crash): exit 2."""


def load_findings():
    try:
        with open(FINDINGS) as f:
            return json.load(f).get('findings', [])
    except FileNotFoundError:
        return []


def _match(entry_match, sig):
    for k, want in entry_match.items():
        got = sig.get(k)
        if isinstance(want, list):
            if isinstance(got, list):
                if not set(want) <= set(got):
                    return False
            elif got not in want:
                return False
        else:
            if got != want:
                return False
    return True


class Check:
    def __init__(self, pid, tier, seed, level='model_checking'):
        self.pid = pid
        self.tier = tier
        self.seed = seed
        self.level = level
        self.t0 = time.time()
        self.states = 0
        self.transitions = 0
        self.traces = 0
        self.evaluations = 0
        self.nontrivial = set()
        self.samples = []
        self.violations = []      # unlisted
        self.known_hit = {}       # finding id -> count
        self.assumptions = []
        self.extra = {}
        self.tlc_runs = []
        self.findings = [f for f in load_findings()
                         if f.get('property') == pid and f.get('status') == 'open']
        self.exhaustive = None
        self._printed_known = set()

    # ---- accounting -------------------------------------------------------------
    def add_tlc(self, name, res):
        if res.error:
            raise Machinery('TLC run %s failed: %s' % (name, res.error))
        self.states += res.distinct
        self.transitions += res.generated
        self.tlc_runs.append({'run': name, 'generated': res.generated, 'distinct': res.distinct,
                              'depth': res.depth, 'wall_s': round(res.wall, 2),
                              'violated': res.violated})

    def expect_model_ok(self, name, res):
        """A positive model configuration must pass; failing = machinery (never a verdict)."""
        self.add_tlc(name, res)
        if not res.ok or res.violated:
            raise Machinery('model %s: TLC reports %s (model-level failure is machinery, not a verdict)\n%s'
                            % (name, res.violated, res.stdout[-2500:]))

    def expect_model_violation(self, name, res, inv=None):
        """A negative configuration (pinned/buggy design variant) must be refuted by TLC (non-vacuity)."""
        self.add_tlc(name, res)
        if not res.violated or (inv and res.violated != inv):
            raise Machinery('negative model %s: expected TLC to refute %s, got %s\n%s'
                            % (name, inv, res.violated, res.stdout[-1500:]))

    def case(self, key=None, nontrivial=False, n=1):
        self.evaluations += n
        if nontrivial and key is not None:
            if len(self.nontrivial) < 2_000_000:
                self.nontrivial.add(key if isinstance(key, (str, int, tuple)) else json.dumps(key, sort_keys=True, default=str))

    def trace(self, n=1):
        self.traces += n

    def sample(self, s, cap=6):
        if len(self.samples) < cap:
            self.samples.append(s)

    # ---- verdicts -------------------------------------------------------------
    def violation(self, sig, case, what):
        """Report a behaviour of the REAL code that breaks the property.
        sig: dict of features identifying the failing site/input class (for known-finding matching).
        case: JSON-able dict sufficient to replay."""
        for f in self.findings:
            if _match(f.get('match', {}), sig):
                self.known_hit[f['id']] = self.known_hit.get(f['id'], 0) + 1
                if f['id'] not in self._printed_known:
                    self._printed_known.add(f['id'])
                    print('KNOWN-FINDING: property=%s %s [%s]' % (self.pid, f['what'], f['id']))
                    sys.stdout.flush()
                return False
        blob = json.dumps({'property': self.pid, 'sig': sig, 'what': what, 'case': case},
                          sort_keys=True, default=str, indent=1)
        h = hashlib.sha1(blob.encode()).hexdigest()[:12]
        os.makedirs(REPLAY_DIR, exist_ok=True)
        path = os.path.join(REPLAY_DIR, '%s-%s.json' % (self.pid, h))
        if len(self.violations) < 25:
            with open(path, 'w') as f:
                f.write(blob)
            print('VIOLATION property=%s replay=%s' % (self.pid, path))
            print('  what: %s' % what)
            print('  sig: %s' % json.dumps(sig, sort_keys=True, default=str))
            sys.stdout.flush()
        self.violations.append(path)
        return True

    # ---- output -------------------------------------------------------------
    def finish(self):
        wall = time.time() - self.t0
        cov = {
            'states': self.states,
            'transitions': self.transitions,
            'traces_validated_against_impl': self.traces,
            'evaluations': self.evaluations,
            'distinct_nontrivial': len(self.nontrivial),
            'samples': self.samples or ['(none)'],
            'tlc_runs': self.tlc_runs,
            'known_findings_hit': self.known_hit,
        }
        cov.update(self.extra)
        if self.exhaustive is not None:
            cov['exhaustive'] = self.exhaustive
        ev = {
            'property_id': self.pid,
            'tier': self.tier,
            'seed': self.seed,
            'level': self.level,
            'coverage': cov,
            'assumptions': self.assumptions,
            'wall_s': round(wall, 2),
            'violations': len(self.violations),
        }
        os.makedirs(EVIDENCE_DIR, exist_ok=True)
        with open(os.path.join(EVIDENCE_DIR, self.pid + '.json'), 'w') as f:
            json.dump(ev, f, indent=1, sort_keys=True, default=str)
        print('%s tier=%s seed=%d: states=%d transitions=%d impl_traces=%d evaluations=%d nontrivial=%d '
              'violations=%d known=%s wall=%.1fs' % (
                  self.pid, self.tier, self.seed, self.states, self.transitions, self.traces,
                  self.evaluations, len(self.nontrivial), len(self.violations),
                  dict(self.known_hit), wall))
        return 1 if self.violations else 0


def repo_src():
    return os.path.join(REPO, 'src')


def setup_repo_import():
    """Import tally from /repo's working tree (not from any installed copy)."""
    os.environ['PYTHONDONTWRITEBYTECODE'] = '1'
    sys.dont_write_bytecode = True
    p = repo_src()
    if p in sys.path:
        sys.path.remove(p)
    sys.path.insert(0, p)
    for m in list(sys.modules):
        if m == 'tally' or m.startswith('tally.'):
            del sys.modules[m]
    import tally  # noqa
    assert os.path.realpath(tally.__file__).startswith(os.path.realpath(p)), tally.__file__
