"""Code -> spec for the rule engine: random rule files over the FULL concrete grammar (nothing here comes from TLC),
run through the real engine, recorded for spec/Trace_Engine.tla.

What the generator knows about a rule is its STRUCTURE (category, subcategory, merchant, priority, how many pattern
functions, which constraint kinds, how long the pattern text) - from which it computes the ranking tuple of the statement
(C09) - never its truth on a transaction: that is observed by running the real code on the ONE-RULE file (same top-level
variables and transforms, only this rule).  Trace_Engine then requires the whole-file result to be Engine.tla's
combination of those per-rule observations."""
import datetime
import json
import os
import random
import tempfile

TOK = ['ALFA', 'BRAVO', 'CHARLIE', 'DELTA', 'ECHO', 'GOLF', 'HOTEL', 'KILO', 'LIMA', 'OSCAR', 'ROMEO', 'TANGO', 'ZULU']
KEYWORDS = ['amount', 'date', 'month', 'year', 'day', 'weekday', 'source', 'field.']
CATS = ['Food', 'Bills & Utilities', 'Travel']
SUBS = ['Sub One', 'Coffee', 'Fees #2']
STATIC_TAGS = ['ta', 'TB', ' Tc ', 'x-y', 'Recurring', 'ta']
DYN_TAGS = ['{field.proj}', '{ source }', '{ga}', '{gb}', '{extract(field.memo, "PROJ:(\\\\w+)")}', '{la}', '{nosuch}',
            '{split(field.memo, ":", 1)}', '{field.kind if amount > 100 else ""}', '{regex_replace(field.proj, "\\\\W", "")}',
            # braces INSIDE the expression (counted repetition): the tag is still one {expression}
            '{extract(field.memo, "PROJ:(\\\\w{2})")}', '{extract(description, "([A-Za-z]{4,5})")}']
AMOUNTS = [-250.5, -20.0, 0.0, 0.01, 5.0, 49.99, 50.0, 99.5, 100.0, 150.0, 1000.25]
DATES = [datetime.date(2024, 1, 15), datetime.date(2024, 2, 29), datetime.date(2024, 12, 31), datetime.date(2025, 3, 8),
         datetime.date(2025, 12, 21), None]
FIELDS = [None, {}, {'kind': 'ACH', 'memo': 'PROJ:X1 ref', 'proj': ' Px1 '}, {'kind': 'wire', 'memo': '', 'proj': ''},
          {'kind': 'ach', 'proj': 'Q-7'}, {'memo': 'PROJ:zz9', 'code': '77'},
          # values with runs of blanks / a tab inside: a {tag} carries the value as it is (trimmed, lower-cased)
          {'kind': 'ACH  Wire', 'memo': 'PROJ:Y2  two\tgaps', 'proj': 'P  9\tq'}]
SOURCES = ['Card', 'Bank', None]
LOCS = [None, 'Seattle WA']


class Atom:
    def __init__(self, text, pat=0, kinds=(), lits=(), strict=True):
        self.text = text
        self.pat = pat              # number of pattern-function calls
        self.kinds = set(kinds)     # constraint kinds used
        self.lits = list(lits)      # raw text of the quoted pattern literals
        self.strict = strict        # usable in most_specific files (ranking unambiguous between statement and text)


_THEME = [None]          # the tokens of the file being generated (a small theme makes several rules match one transaction)


def _lit(rnd, n=None):
    t = rnd.choice(_THEME[0] or TOK)
    if rnd.random() < 0.3:
        t = t.lower() if rnd.random() < 0.5 else t.title()
    return t


def _fn(rnd, name):
    """Function names are case-insensitive in the language: contains( / Contains( / CONTAINS( / startsWith( are one function."""
    r = rnd.random()
    if r < 0.8:
        return name
    return rnd.choice([name.upper(), name.title(), name[:5] + name[5:].title() if len(name) > 5 else name.title()])


def pattern_atom(rnd):
    a = _pattern_atom(rnd)
    for name in ('contains', 'startswith', 'regex', 'anyof', 'normalized'):
        if a.text.startswith(name + '('):
            a.text = _fn(rnd, name) + a.text[len(name):]
    return a


def _pattern_atom(rnd):
    k = rnd.randrange(9)
    a = _lit(rnd)
    if k == 8:
        if rnd.random() < 0.5:
            # a long list of alternatives: 100 and more characters of pattern text in one rule
            toks = [_lit(rnd) for _ in range(rnd.choice([3, 12, 18, 24]))]
            return Atom('anyof(%s)' % ', '.join('"%s"' % x for x in toks), 1, (), toks)
        toks = [_lit(rnd) for _ in range(rnd.choice([2, 14, 22]))]
        raw = '|'.join(toks)
        return Atom('regex("%s")' % raw, 1, (), [raw])
    if k == 0:
        return Atom('contains("%s")' % a, 1, (), [a])
    if k == 1:
        return Atom('startswith("%s")' % a, 1, (), [a])
    if k == 2:
        b = _lit(rnd)
        raw = '%s\\\\s+%s' % (a, b)
        return Atom('regex("%s")' % raw, 1, (), [raw])
    if k == 3:
        b = _lit(rnd)
        return Atom('anyof("%s", "%s")' % (a, b), 1, (), [a, b])
    if k == 4:
        raw = a[:2] + '-' + a[2:]
        return Atom('normalized("%s")' % raw, 1, (), [raw])
    if k == 5:
        return Atom('contains(description, "%s")' % a, 1, (), [a])
    if k == 6:
        raw = '\\\\b%s\\\\b' % a
        return Atom('regex("%s")' % raw, 1, (), [raw])
    return Atom("contains('%s')" % a, 1, (), [a])


def constraint_atom(rnd, strict):
    opts = [
        lambda: Atom('amount > %s' % rnd.choice(['100', '49.99', '0', '-50']), 0, ['amount']),
        lambda: Atom('amount <= %s' % rnd.choice(['100', '50', '0']), 0, ['amount']),
        lambda: Atom('abs(amount) < %s' % rnd.choice(['60', '200.5']), 0, ['amount']),
        lambda: Atom('%s < amount <= %s' % (rnd.choice(['0', '-100']), rnd.choice(['100', '150'])), 0, ['amount']),
        lambda: Atom('month == %s' % rnd.choice(['1', '2', '12'])
                     , 0, ['month']),
        lambda: Atom('year == %s' % rnd.choice(['2024', '2025']), 0, ['year']),
        lambda: Atom('day > %s' % rnd.choice(['14', '20', '28']), 0, ['day']),
        lambda: Atom('(amount > 40 and month >= 2)', 0, ['amount', 'month']),
    ]
    loose = [
        lambda: Atom('weekday >= 5', 0, ['weekday'], strict=False),
        lambda: Atom('source == "%s"' % rnd.choice(['Card', 'bank', 'Other']), 0, ['source'], strict=False),
        lambda: Atom('field.kind == "%s"' % rnd.choice(['ach', 'WIRE']), 0, ['field.'], strict=False),
        lambda: Atom('date >= "2024-02-01"', 0, ['date'], strict=False),
        lambda: Atom('"%s" in description' % _lit(rnd), 0, [], strict=False),
        lambda: Atom('description.startswith("%s")' % rnd.choice(TOK), 0, [], strict=False),
        lambda: Atom('exists(field.memo)', 0, ['field.'], strict=False),
        lambda: Atom('len(description) > 12', 0, [], strict=False),
    ]
    return rnd.choice(opts if strict else opts + loose)()


def failing_atom(rnd, strict):
    opts = [lambda: Atom('nosuchvar', 0, []), lambda: Atom('len(5) > 1', 0, []),
            lambda: Atom('regex("(")', 1, (), ['(']), lambda: Atom('next(r for r in nosuchsrc) == 1', 0, []),
            lambda: Atom('(1 / 0 > 0 or undefinedname)', 0, []), lambda: Atom('min(5) > 1', 0, [])]
    loose = [lambda: Atom('amount > "x"', 0, ['amount'], strict=False),
             lambda: Atom('field.nokey == "q"', 0, ['field.'], strict=False),
             lambda: Atom('contains(5)', 1, (), [], strict=False),
             lambda: Atom('description - 1 > 0', 0, [], strict=False),
             lambda: Atom('txn.nope == 1', 0, [], strict=False)]
    return rnd.choice(opts if strict else opts + loose)()


def var_atom(name):
    return Atom(name, 0, [])


def gen_cond(rnd, strict, names, depth=0, p_fail=0.08):
    """Returns (text, pat, kinds, lits)."""
    r = rnd.random()
    if depth >= 3 or r < 0.45 - 0.1 * depth + 0.25 * depth:
        q = rnd.random()
        if q < p_fail:
            a = failing_atom(rnd, strict)
        elif q < 0.55:
            a = pattern_atom(rnd)
        elif q < 0.85 or not names:
            a = constraint_atom(rnd, strict)
        else:
            a = var_atom(rnd.choice(names))
        return a.text, a.pat, set(a.kinds), list(a.lits)
    if r < 0.6 + 0.25 * depth and rnd.random() < 0.25:
        t, p, k, l = gen_cond(rnd, strict, names, depth + 1, p_fail)
        return '(not %s)' % t, p, k, l
    op = rnd.choice(['and', 'and', 'or'])
    t1, p1, k1, l1 = gen_cond(rnd, strict, names, depth + 1, p_fail)
    t2, p2, k2, l2 = gen_cond(rnd, strict, names, depth + 1, p_fail)
    text = '%s %s %s' % (t1, op, t2)
    if depth > 0 or rnd.random() < 0.3:
        text = '(' + text + ')'
    return text, p1 + p2, k1 | k2, l1 + l2


def gen_file(rnd, mode, focus):
    """focus: 'c01' (first_match, everything), 'c02' (many tags / tag-only rules, both modes), 'c08' (failing expressions
    everywhere), 'c09' (most_specific, ranking spread and ties)."""
    strict = mode == 'most_specific'
    p_fail = {'c08': 0.3}.get(focus, 0.08)
    glob = []
    for name in rnd.sample(['ga', 'gb'], rnd.randrange(3)):
        if rnd.random() < (0.5 if focus == 'c08' else 0.15):
            a = failing_atom(rnd, False)
        else:
            a = rnd.choice([pattern_atom, lambda r: constraint_atom(r, False)])(rnd)
        glob.append((name, a.text))
    xform = []
    if rnd.random() < 0.3:
        if rnd.random() < 0.4:
            xform.append(('field.description', 'regex_replace(description, "(", "")'))       # cannot be evaluated: skipped on its own
        xform.append(('field.description', 'regex_replace(description, "^APLPAY\\\\s+", "")'))
        if rnd.random() < 0.3:
            xform.append(('field.kind', 'uppercase(field.kind)'))
    n = rnd.choice([1, 2, 2, 3, 3, 4, 5, 6, 8]) if focus != 'c09' else rnd.choice([2, 3, 3, 4, 4, 5, 6])
    _THEME[0] = rnd.sample(TOK, 5) if (focus == 'c09' or rnd.random() < 0.3) else None
    dup_names = rnd.random() < 0.2
    rules = []
    shared = None
    for k in range(n):
        names = [g[0] for g in glob]
        lets = []
        for ln in rnd.sample(['la', 'lb', 'isBulk', 'Ref2'], rnd.choice([0, 0, 1, 2])):
            t, _, _, _ = gen_cond(rnd, False, names, depth=2, p_fail=max(p_fail, 0.15))
            if rnd.random() < 0.3:
                t = rnd.choice(['field.proj', 'field.memo', 'extract(field.memo, "PROJ:(\\\\w+)")', 'amount * 2'])
            lets.append((ln, t))
            names = names + [ln]
        if focus in ('c09', 'c08') and shared is not None and rnd.random() < 0.35:
            text, pat, kinds, lits = shared          # byte-identical expression in two rules: exact ties / priority decides; each
            # rule reads it with ITS OWN let: bindings (one rule's failure says nothing about the other's)
        elif focus == 'c09' and shared is not None and shared[3] and rnd.random() < 0.3 and ('"%s"' % shared[3][0]) in shared[0]:
            # the same structure with ONE literal exchanged (written in the other quote style): pattern count and constraint kinds tie,
            # the total length of the pattern text decides
            text, pat, kinds, lits = shared
            new = rnd.choice([t for t in (_THEME[0] or TOK)])
            text = text.replace('"%s"' % lits[0], "'%s'" % new, 1)
            lits = [new] + list(lits[1:])
        else:
            text, pat, kinds, lits = gen_cond(rnd, strict, names, p_fail=p_fail)
            # the outermost parentheses are optional
            shared = (text, pat, kinds, lits)
        is_cat = rnd.random() < (0.55 if focus == 'c02' else 0.75)
        tags = []
        ntags = rnd.choice([0, 0, 1, 2]) if focus != 'c02' else rnd.choice([0, 1, 2, 3])
        if not is_cat and ntags == 0:
            ntags = 1
        for _ in range(ntags):
            tags.append(rnd.choice(DYN_TAGS) if rnd.random() < 0.4 else rnd.choice(STATIC_TAGS))
        if not is_cat and all(t.startswith('{') for t in tags) and rnd.random() < 0.5:
            tags.append(rnd.choice(STATIC_TAGS))
        prio = None
        if rnd.random() < (0.5 if focus == 'c09' else 0.2):
            prio = rnd.choice([0, -10, 40, 50, 60, 100, 51])
        fields = []
        for fn in rnd.sample(['note', 'big', 'bad', 'marks', 'caps'], rnd.choice([0, 0, 0, 1, 2])):
            # (a field may evaluate to a list - of several values, of one, of none)
            fields.append((fn, {'note': 'extract(field.memo, "PROJ:(\\\\w+)")', 'big': 'amount > 100',
                                'bad': 'len(amount)', 'marks': '[c for c in description if c == "#"]',
                                'caps': '[c for c in description if c == "Z" or c == "Q"]'}[fn]))
        r = {'name': 'Shop' if dup_names else 'Rule %d' % (k + 1),
             'match': text,
             'cat': rnd.choice(CATS) if is_cat else '',
             'sub': rnd.choice(SUBS) if (rnd.random() < (0.5 if is_cat else 0.15)) else '',
             'merchant': ('Merch %d' % (k + 1)) if rnd.random() < 0.5 else '',
             'tags': tags, 'prio': prio, 'lets': lets, 'fields': fields,
             'spec': [50 if prio is None else prio, pat, len(kinds), sum(len(x) for x in lits)]}
        r['mer'] = r['merchant'] or r['name']
        rules.append(r)
    return {'mode': mode, 'globals': glob, 'xform': xform, 'rules': rules}


def render(f, order=None, rnd=None):
    """Rules text of file f with its rules in the given order (list of indices)."""
    out = []
    if rnd and rnd.random() < 0.5:
        out.append('# generated')
    for n, e in f['globals']:
        out.append('%s = %s' % (n, e))
    for lhs, e in f['xform']:
        out.append('%s = %s' % (lhs, e))
    out.append('')
    for k in (order if order is not None else range(len(f['rules']))):
        r = f['rules'][k]
        out.append('[%s]' % r['name'])
        props = []
        for ln, t in r['lets']:
            props.append('let: %s = %s' % (ln, t))            # lets keep their order and precede nothing in particular
        body = ['match: ' + r['match']]
        if r['cat']:
            body.append('category: ' + r['cat'])
        if r['sub']:
            body.append('subcategory: ' + r['sub'])
        if r['merchant']:
            body.append('merchant: ' + r['merchant'])
        if r['tags']:
            body.append('tags: ' + ', '.join(r['tags']))
        if r['prio'] is not None:
            body.append('priority: %d' % r['prio'])
        for fn, t in r['fields']:
            body.append('field: %s = %s' % (fn, t))
        if rnd:
            rnd.shuffle(body)
        out.extend(props + body)
        out.append('')
    return '\n'.join(out) + '\n'


def gen_txns(rnd, n, with_prefix, toks=TOK):
    txns = []
    for _ in range(n):
        words = [rnd.choice(toks) for _ in range(rnd.choice([1, 2, 2, 3, 4]))]
        if rnd.random() < 0.3:
            words = [w.lower() if rnd.random() < 0.5 else w.title() for w in words]
        desc = rnd.choice([' ', ' ', '  ', '-', ' * ']).join(words)
        if rnd.random() < 0.15:
            desc = desc.replace('A', 'A-', 1)
        if with_prefix and rnd.random() < 0.6:
            desc = 'APLPAY ' + desc
        f = rnd.choice(FIELDS)
        txns.append({'description': desc, 'amount': rnd.choice(AMOUNTS), 'date': rnd.choice(DATES),
                     'field': dict(f) if f is not None else None, 'source': rnd.choice(SOURCES), 'location': rnd.choice(LOCS)})
    return txns


def _copy(t):
    d = dict(t)
    d['field'] = dict(t['field']) if t['field'] is not None else None
    if d['date'] is None:
        del d['date']
    return d


def _xf(x):
    return json.dumps(x or {}, sort_keys=True, default=str)


def observe_file(f, order, txns, path, rnd, tmpdir):
    """The real code on the whole file (rules in `order`): one engine for all transactions, as in a real run."""
    from tally.merchant_engine import parse_merchants
    text = render(f, order, rnd)
    obs = []
    if path == 'engine':
        from tally.merchant_utils import apply_transforms
        eng = parse_merchants(text, f['mode'])
        for t in txns:
            tt = _copy(t)
            apply_transforms(tt, eng.transforms)
            r = eng.match(tt)
            idx = {id(x): i for i, x in enumerate(eng.rules)}
            obs.append({'matched': bool(r.matched), 'cat': r.category, 'sub': r.subcategory, 'mer': r.merchant if r.matched else '',
                        'tags': sorted(r.tags), 'xf': _xf(r.extra_fields),
                        'matching': [idx[id(x)] + 1 for x in r.all_matching_rules],
                        'win': idx[id(r.matched_rule)] + 1 if r.matched_rule is not None else 0,
                        'subwin': idx[id(r.subcategory_rule)] + 1 if r.subcategory_rule is not None else 0,
                        'desc': tt['description']})
    else:
        from tally.merchant_utils import get_all_rules, get_transforms, normalize_merchant
        p = os.path.join(tmpdir, 'm%d.rules' % rnd.randrange(3))
        with open(p, 'w', newline='') as fh:
            fh.write(text)
        transforms = get_transforms(p, match_mode=f['mode'])
        rules = get_all_rules(p, match_mode=f['mode'])
        for t in txns:
            m, c, s, info = normalize_merchant(t['description'], rules, amount=t['amount'], txn_date=t['date'],
                                               field=dict(t['field']) if t['field'] is not None else None,
                                               data_source=t['source'], transforms=transforms, location=t['location'])
            matched = c != 'Unknown' or s != 'Unknown' or bool(info and info.get('pattern'))
            obs.append({'matched': matched, 'cat': c, 'sub': s, 'mer': m if matched else '',
                        'tags': sorted((info or {}).get('tags', [])), 'xf': _xf((info or {}).get('extra_fields')),
                        'matching': [], 'win': 0, 'subwin': 0, 'unkname': None if matched else m})
    return text, obs


def _own_tags(rule, tt, observed):
    """The rule's tags for this transaction as the statement defines them (lower-cased, non-empty; an {expression} tag replaced
    by the value of the expression, dropped when empty or not evaluable), computed here - except when a dynamic tag reads a
    let: binding of the rule (then the one-rule observation is all there is)."""
    from tally import expr_parser
    out = set()
    for tag in rule['tags']:
        t = tag.strip()
        if not t:
            continue
        if not (t.startswith('{') and t.endswith('}')):
            out.add(t.lower())
            continue
        inner = t[1:-1].strip()
        if inner in ('la', 'lb', 'nosuch', 'ga', 'gb') or not inner:
            if inner in ('la', 'lb'):
                return observed
            if inner in ('ga', 'gb'):
                gv = dict(rule.get('_globals') or ())
                if inner not in gv:
                    continue
                try:
                    v = expr_parser.evaluate_transaction(gv[inner], tt)
                except expr_parser.ExpressionError:
                    continue
                if v is not None and v is not False and v != '' and v != 0:
                    sv = str(v).strip().lower()
                    if sv:
                        out.add(sv)
            continue
        try:
            v = expr_parser.evaluate_transaction(inner, tt)
        except expr_parser.ExpressionError:
            continue
        if v:
            sv = str(v).strip().lower()
            if sv:
                out.add(sv)
    return sorted(out)


def reference(f, k, t):
    """Rule k on its own (same variables and transforms): a fresh engine per (rule, transaction)."""
    from tally.merchant_engine import parse_merchants
    from tally.merchant_utils import apply_transforms
    g = dict(f, rules=[f['rules'][k]])
    eng = parse_merchants(render(g), f['mode'])
    tt = _copy(t)
    apply_transforms(tt, eng.transforms)
    r = eng.match(tt)
    if not r.all_matching_rules:
        return {'out': 'N', 'rtags': [], 'xf': '{}'}, tt['description']
    return {'out': 'T', 'rtags': _own_tags(dict(f['rules'][k], _globals=f['globals']), tt, sorted(r.tags)), 'xf': _xf(r.extra_fields) if f['rules'][k]['cat'] else '{}'}, tt['description']


def record_batch(seed, nfiles, focus, base_id=0):
    """Worker: returns (records, stats).  Each record is one (file variant, transaction)."""
    rnd = random.Random(seed)
    tmpdir = tempfile.mkdtemp(prefix='engtrace_')
    recs = []
    stats = {'files': 0, 'records': 0, 'multi_match': 0, 'failing_rule': 0, 'ties': 0, 'tagonly_match': 0}
    names = []
    try:
        for fi in range(nfiles):
            if focus == 'c01':
                mode = 'first_match'
            elif focus == 'c09':
                mode = 'most_specific'
            else:
                mode = rnd.choice(['first_match', 'most_specific'])
            f = gen_file(rnd, mode, focus)
            txns = gen_txns(rnd, rnd.choice([4, 6, 8]), bool(f['xform']), _THEME[0] or TOK)
            n = len(f['rules'])
            # classification is TOTAL: whatever a rule's expressions do for one transaction, match() / normalize_merchant return.
            # An exception of the implementation language escaping from them is reported as such (its file yields no records)
            start = len(recs)
            try:
                ref = [[None] * len(txns) for _ in range(n)]
                for k in range(n):
                    for j, t in enumerate(txns):
                        ref[k][j], _ = reference(f, k, t)
                orders = [list(range(n))]
                if n > 1:
                    orders.append(list(reversed(range(n))))
                    o = list(range(n))
                    rnd.shuffle(o)
                    orders.append(o)
                # the file without the rules that match nothing at all in this statement
                live = [k for k in range(n) if any(ref[k][j]['out'] == 'T' for j in range(len(txns)))]
                if live and len(live) < n:
                    orders.append(live)
                stats['files'] += 1
                for vi, order in enumerate(orders):
                    path = 'engine' if (vi + fi) % 3 else 'normalize'
                    text, obs = observe_file(f, order, txns, path, rnd, tmpdir)
                    for j, t in enumerate(txns):
                        rules = []
                        for k in order:
                            r = f['rules'][k]
                            rules.append({'cat': r['cat'], 'sub': r['sub'] if r['cat'] else '', 'mer': r['mer'], 'spec': r['spec'],
                                          'out': ref[k][j]['out'], 'rtags': ref[k][j]['rtags'], 'xf': ref[k][j]['xf'], 'rid': k + 1,
                                          'tagsub': bool(r['sub'] and not r['cat'])})
                        o = obs[j]
                        rid = '%s:%d:%d:%d:%d' % (focus, seed, fi, vi, j)
                        recs.append({'kind': 'match', 'id': rid, 'mode': mode, 'path': path, 'hasidx': path == 'engine',
                                     'rules': rules, 'obs': {k: o[k] for k in ('matched', 'cat', 'sub', 'mer', 'tags', 'xf', 'matching', 'win', 'subwin')},
                                     '_text': text, '_txn': dict(t, date=str(t['date'])), '_order': order})
                        m = [x for x in rules if x['out'] == 'T']
                        cm = [x for x in m if x['cat']]
                        stats['records'] += 1
                        stats['multi_match'] += len(cm) >= 2
                        stats['tagonly_match'] += any(not x['cat'] for x in m)
                        stats['ties'] += len(cm) >= 2 and len({tuple(x['spec']) for x in cm}) < len(cm)
                        if o.get('unkname') is not None:
                            names.append((o['unkname'], t['description'], bool(f['xform'])))
                        elif path == 'engine' and not o['matched']:
                            pass
                stats['failing_rule'] += sum(1 for r in f['rules'] if any(w in r['match'] for w in
                                                                         ('nosuchvar', 'len(5)', 'regex("(")', 'next(r', '1 / 0', 'min(5)',
                                                                          '"x"', 'nokey', 'contains(5)', 'description - 1', 'txn.nope')))
            except (IndexError, TypeError, KeyError, AttributeError, ZeroDivisionError, ValueError, AssertionError) as ex:
                del recs[start:]
                names.append(('!raised', '%s: %s' % (type(ex).__name__, ex), render(f, list(range(n)), None)))
    finally:
        import shutil
        shutil.rmtree(tmpdir, ignore_errors=True)
    return recs, stats, names


# ----------------------------------------------------------------------------------------------------------------------
# Legacy CSV rule files (merchant_categories.csv): the tuple loop of normalize_merchant.  Here a rule's truth on a transaction
# is NOT observed through tally: a CSV pattern is a Python regular expression searched case-insensitively in the description,
# and its modifiers are comparisons on the amount and the date - both evaluated by the harness itself.
def _csv_pattern(rnd, toks=TOK):
    a, b = rnd.choice(toks), rnd.choice(toks)
    forms = [a, '%s %s' % (a, b), '%s ?%s' % (a, b), '%s *%s' % (a, b), a + 'S?', a[:-1] + a[-1] + '{0,2}', '%s\\s*%s' % (a, b),
             '%s\\s+%s' % (a, b), '%s.*%s' % (a, b), '(%s|%s)' % (a, b), '^%s' % a, '%s$' % b, '%s\\b' % a, '[%s%s]%s' % (a[0], b[0], a[1:]),
             '%s-?%s' % (a[:2], a[2:]), '%s ?#?\\d*' % a, a.lower(), '%s\\d+' % a, '%s(?! %s)' % (a, b), '%s %s?' % (a, b),
             'X?%s' % a, '%s( %s)?' % (a, b), '%s *' % a, '%s ?\\*? ?%s' % (a, b)]
    return rnd.choice(forms)


CSV_MODS = [('', None), ('', None), ('[amount>100]', ('gt', 100)), ('[amount>=99.5]', ('ge', 99.5)), ('[amount<50]', ('lt', 50)),
            ('[amount<=0]', ('le', 0)), ('[amount=150]', ('eq', 150)), ('[amount:5-100]', ('range', 5, 100)), ('[amount<0]', ('lt', 0)),
            ('[month=12]', ('month', 12)), ('[month=2]', ('month', 2)), ('[date=2024-02-29]', ('date', datetime.date(2024, 2, 29))),
            ('[date:2024-01-01..2024-12-31]', ('drange', datetime.date(2024, 1, 1), datetime.date(2024, 12, 31))),
            ('[amount>0][month=1]', ('and', ('gt', 0), ('month', 1)))]


def _mod_true(m, amount, date):
    if m is None:
        return True
    k = m[0]
    if k == 'and':
        return _mod_true(m[1], amount, date) and _mod_true(m[2], amount, date)
    if k in ('month', 'date', 'drange'):
        if date is None:
            return False
        return date.month == m[1] if k == 'month' else date == m[1] if k == 'date' else m[1] <= date <= m[2]
    if k == 'gt':
        return amount > m[1]
    if k == 'ge':
        return amount >= m[1]
    if k == 'lt':
        return amount < m[1]
    if k == 'le':
        return amount <= m[1]
    if k == 'eq':
        return abs(amount - m[1]) < 0.005        # amounts of the universe are never within a cent of a threshold without being equal
    return m[1] <= amount <= m[2]


def gen_csv_file(rnd, toks=TOK):
    rules = []
    for k in range(rnd.choice([1, 2, 3, 4, 6])):
        pat = _csv_pattern(rnd, toks)
        mtext, mabs = rnd.choice(CSV_MODS)
        if rules and rnd.random() < 0.3:
            # the SAME pattern cell as an earlier row (two rule files merged, a merchant filed twice): every row is a rule of its own,
            # and the earlier one wins
            prev = rnd.choice(rules)
            pat, mtext, mabs = prev['pattern'], prev['mods'], prev['mabs']
        is_cat = rnd.random() < 0.75
        tags = [rnd.choice(['ta', 'TB', 'x-y', 'Recurring']) for _ in range(rnd.choice([0, 0, 1, 2]) if is_cat else rnd.choice([1, 2]))]
        rules.append({'pattern': pat, 'mods': mtext, 'mabs': mabs, 'mer': 'Merch %d' % (k + 1), 'cat': rnd.choice(CATS) if is_cat else '',
                      'sub': rnd.choice(SUBS) if is_cat and rnd.random() < 0.5 else '', 'tags': tags})
    return rules


def render_csv(rules, order=None):
    import csv as _csv
    import io
    buf = io.StringIO()
    w = _csv.writer(buf, lineterminator='\n')
    w.writerow(['Pattern', 'Merchant', 'Category', 'Subcategory', 'Tags'])
    for k in (order if order is not None else range(len(rules))):
        r = rules[k]
        w.writerow([r['pattern'] + r['mods'], r['mer'], r['cat'], r['sub'], '|'.join(r['tags'])])
    return buf.getvalue()


def record_csv_batch(seed, nfiles):
    import re
    from tally.merchant_utils import get_all_rules, normalize_merchant
    rnd = random.Random(seed)
    tmpdir = tempfile.mkdtemp(prefix='engtrace_')
    recs = []
    stats = {'files': 0, 'records': 0, 'multi_match': 0, 'failing_rule': 0, 'ties': 0, 'tagonly_match': 0}
    try:
        for fi in range(nfiles):
            toks = rnd.sample(TOK, 4)
            rules = gen_csv_file(rnd, toks)
            txns = gen_txns(rnd, rnd.choice([6, 10]), False, toks)
            n = len(rules)
            orders = [list(range(n))]
            if n > 1:
                orders.append(list(reversed(range(n))))
            stats['files'] += 1
            for vi, order in enumerate(orders):
                text = render_csv(rules, order)
                p = os.path.join(tmpdir, 'm%d.csv' % rnd.randrange(3))
                with open(p, 'w', newline='') as fh:
                    fh.write(text)
                loaded = get_all_rules(p)
                for j, t in enumerate(txns):
                    m, c, s, info = normalize_merchant(t['description'], loaded, amount=t['amount'], txn_date=t['date'],
                                                       data_source=t['source'], location=t['location'])
                    matched = c != 'Unknown' or s != 'Unknown' or bool(info and info.get('pattern'))
                    rr = []
                    for k in order:
                        r = rules[k]
                        hit = bool(re.search(r['pattern'], t['description'], re.IGNORECASE)) and _mod_true(r['mabs'], t['amount'], t['date'])
                        rr.append({'cat': r['cat'], 'sub': r['sub'] if r['cat'] else '', 'mer': r['mer'], 'spec': [50, 0, 0, 0],
                                   'out': 'T' if hit else 'N', 'rtags': sorted({x.lower() for x in r['tags']}) if hit else [], 'xf': '{}',
                                   'rid': k + 1, 'tagsub': False})
                    recs.append({'kind': 'match', 'id': 'csv:%d:%d:%d:%d' % (seed, fi, vi, j), 'mode': 'first_match', 'path': 'legacy_csv',
                                 'hasidx': False, 'rules': rr,
                                 'obs': {'matched': matched, 'cat': c, 'sub': s if (matched and s) or not matched else '', 'mer': m if matched else '',
                                         'tags': sorted((info or {}).get('tags', [])), 'xf': '{}', 'matching': [], 'win': 0, 'subwin': 0},
                                 '_text': text, '_txn': dict(t, date=str(t['date'])), '_order': order})
                    hits = [x for x in rr if x['out'] == 'T']
                    stats['records'] += 1
                    stats['multi_match'] += len([x for x in hits if x['cat']]) >= 2
                    stats['tagonly_match'] += any(not x['cat'] for x in hits)
    finally:
        import shutil
        shutil.rmtree(tmpdir, ignore_errors=True)
    return recs, stats, []
