"""Code -> spec recorder for the bank-specific readers parse_amex / parse_boa (spec/LegacyParsers.tla, Trace_LegacyParsers.tla).

Random statement files are written here, every cell / line part is abstracted by THIS module's own reading of the notations
(what is a date under %m/%d/%Y, which number a plain decimal numeral writes, what a trailing two-capital code is) and the real
readers are run on the file.  One record per file: r.rows (the abstraction), r.obs (what the code returned).

Outside the abstraction, never generated: numerals only float() understands (1e3, nan, inf, 1_000), cells with line breaks,
amex rows shorter than the header (the reader does not survive those: DESIGN.md §10.1)."""
import csv
import datetime
import io
import os
import random
import re
import shutil
import tempfile
from decimal import Decimal

DATES_OK = ['01/05/2025', '1/5/2025', '12/31/2024', '02/29/2024', '11/9/2025', '03/01/2025']
DATES_BAD = ['2025-01-05', '13/01/2025', '02/30/2025', '', '01/05/25', '02/29/2025', 'Jan 5 2025', '00/10/2025', '01-05-2025']
AMEX_AMT_OK = ['12.50', '-12.50', '0.5', '100', '+7', ' 12.5 ', '3.125', '-0.01', '1234.56', '.75', '5.']
AMEX_AMT_ZERO = ['0', '0.00', '-0.00', '0.000']
AMEX_AMT_BAD = ['1,234.56', '$5.00', '(5.00)', '', 'abc', '5.0.0', '--5', '5 USD', '1 000', '12,50']
DESCS = ['ALFA STORE', 'ALFA STORE SEATTLE WA', 'CAFE  NY ', 'x wa', 'WA', ' WA', 'BRAVO, "THE" CAFE', 'Émile Zola TX', 'STORE #123', 'a',
         'DELTA  AIR   LINES', 'TO SAVINGS  ', 'ECHO TXX', 'FOXTROT T X', 'GOLF\tCA', '']
BOA_DESCS = ['ALFA STORE', 'ALFA STORE SEATTLE WA', 'CHECKCARD 0105 CAFE NY', 'x wa', 'BRAVO "THE" CAFE', 'Émile Zola TX', 'STORE #123',
             'DELTA  AIR   LINES', 'a', 'PAYMENT - THANK YOU', 'REF 12345 ECHO', 'ZELLE TO BOB 5.5']
BOA_AMT_OK = ['12.50', '-12.50', '1,234.56', '-1,000.00', '7.05', '-.50', '.25']
BOA_AMT_ZERO = ['0.00', '-0.00']
BOA_AMT_SHAPE_BAD = ['12.5', '12', '$12.50', '12.500', '(12.50)', '+12.50', '12,50']
BOA_AMT_BAD = ['1-2.00', '--5.00', '-,-.00', '5-.00']
BOA_NOISE = ['', 'Date        Description        Amount   Balance', 'Page 1 of 2', 'Beginning balance on 01/01/2025   1,000.00',
             '01/05/2025', 'Total deposits  500.00', '   ']


def read_date(text):
    """%m/%d/%Y: one or two digits for month and day, four for the year, a real calendar date."""
    m = re.fullmatch(r'(\d{1,2})/(\d{1,2})/(\d{4})', text)
    if not m:
        return {'ok': False, 'v': ''}
    try:
        d = datetime.date(int(m.group(3)), int(m.group(1)), int(m.group(2)))
    except ValueError:
        return {'ok': False, 'v': ''}
    return {'ok': True, 'v': d.isoformat()}


def read_plain(text):
    """A plain decimal numeral (optional sign, digits, optional fraction; blanks around it): its value in thousandths."""
    m = re.fullmatch(r'\s*([+-]?)(\d+\.?\d*|\.\d+)\s*', text)
    if not m:
        return {'ok': False, 'm': 0}
    v = Decimal(m.group(2)) * 1000
    if v != v.to_integral_value():
        return None                      # finer than thousandths: outside the abstraction
    return {'ok': True, 'm': int(v) * (-1 if m.group(1) == '-' else 1)}


def read_loc(desc):
    t = desc.rstrip(' \t')
    if len(t) >= 3 and t[-3] in ' \t' and all('A' <= c <= 'Z' for c in t[-2:]):
        return t[-2:]
    return '-'


class Ids:
    def __init__(self):
        self.m = {}

    def of(self, text):
        return self.m.setdefault(text, 'd%d' % (len(self.m) + 1))

    def lookup(self, text):
        return self.m.get(text, '?')


def gen_amex(rnd, ids):
    cols = ['Date', 'Description', 'Amount']
    extra = rnd.sample(['Reference', 'Card Member', 'Category'], rnd.choice([0, 0, 1, 2]))
    header = cols + extra
    rnd.shuffle(header)
    shape = True
    if rnd.random() < 0.06:
        gone = rnd.choice(cols)
        header[header.index(gone)] = {'Date': 'Posted', 'Description': 'Payee', 'Amount': 'Amt'}[gone]
        shape = False
    rows, lines = [], []
    for _ in range(rnd.choice([1, 3, 5, 8])):
        dt = rnd.choice(DATES_OK if rnd.random() < 0.8 else DATES_BAD)
        r = rnd.random()
        at = rnd.choice(AMEX_AMT_OK if r < 0.7 else AMEX_AMT_ZERO if r < 0.8 else AMEX_AMT_BAD)
        ds = rnd.choice(DESCS)
        cells = {'Date': dt, 'Description': ds, 'Amount': at, 'Posted': dt, 'Payee': ds, 'Amt': at,
                 'Reference': "'3200%d'" % rnd.randrange(99), 'Card Member': 'A B', 'Category': 'Misc, other'}
        lines.append([cells[h] for h in header])
        amt = read_plain(at)
        if amt is None:
            return None
        rows.append({'shape': shape, 'date': read_date(dt), 'amt': amt, 'desc': ids.of(ds), 'loc': read_loc(ds)})
    buf = io.StringIO()
    w = csv.writer(buf, quoting=rnd.choice([csv.QUOTE_MINIMAL, csv.QUOTE_ALL]), lineterminator=rnd.choice(['\n', '\r\n']))
    w.writerow(header)
    w.writerows(lines)
    return buf.getvalue(), rows


def gen_boa(rnd, ids):
    rows, lines = [], []
    for _ in range(rnd.choice([1, 3, 6, 9])):
        if rnd.random() < 0.15:
            lines.append(rnd.choice(BOA_NOISE))
            rows.append({'shape': False, 'date': {'ok': False, 'v': ''}, 'amt': {'ok': False, 'm': 0}, 'desc': 'none', 'loc': '-'})
            continue
        dt = rnd.choice(DATES_OK if rnd.random() < 0.8 else DATES_BAD)
        r = rnd.random()
        at = rnd.choice(BOA_AMT_OK if r < 0.65 else BOA_AMT_ZERO if r < 0.75 else BOA_AMT_SHAPE_BAD if r < 0.9 else BOA_AMT_BAD)
        bal = rnd.choice(['1,000.00', '-25.10', '0.00', '987.65'] if rnd.random() < 0.93 else ['n/a', '1000', ''])
        ds = rnd.choice(BOA_DESCS)
        sep = lambda: ' ' * rnd.choice([1, 2, 2, 4, 7])
        line = rnd.choice(['', '', ' ']) + dt + sep() + ds + sep() + at + sep() + bal + rnd.choice(['', '', '  '])
        lines.append(line)
        num = r'[-\d,]+\.\d{2}'
        shape = bool(re.fullmatch(r'\d{2}/\d{2}/\d{4}', dt)) and bool(re.fullmatch(num, at)) and bool(re.fullmatch(num, bal))
        plain = at.replace(',', '')
        amt = read_plain(plain) if re.fullmatch(r'-?(\d+\.\d\d|\.\d\d)', plain) else {'ok': False, 'm': 0}
        rows.append({'shape': shape, 'date': read_date(dt), 'amt': amt, 'desc': ids.of(ds), 'loc': read_loc(ds)})
    return '\n'.join(lines) + rnd.choice(['\n', '']), rows


def record_batch(seed, n):
    from tally.parsers import parse_amex, parse_boa
    rnd = random.Random(seed)
    tmp = tempfile.mkdtemp(prefix='legtrace_')
    recs = []
    stats = {'files': 0, 'good_rows': 0, 'skipped_rows': 0}
    try:
        for k in range(n):
            kind = 'amex' if rnd.random() < 0.5 else 'boa'
            ids = Ids()
            g = (gen_amex if kind == 'amex' else gen_boa)(rnd, ids)
            if g is None:
                continue
            text, rows = g
            p = os.path.join(tmp, 's%d.%s' % (k % 4, 'csv' if kind == 'amex' else 'txt'))
            with open(p, 'w', encoding='utf-8', newline='') as f:
                f.write(text)
            txns = (parse_amex if kind == 'amex' else parse_boa)(p, [])
            obs = [{'date': t['date'].strftime('%Y-%m-%d'), 'm': int(round(t['amount'] * 1000)), 'desc': ids.lookup(t['raw_description']),
                    'loc': t['location'] or '-', 'source': t['source']} for t in txns]
            recs.append({'id': '%d:%d' % (seed, k), 'kind': kind, 'source': 'AMEX' if kind == 'amex' else 'BOA', 'rows': rows, 'obs': obs,
                         '_text': text})
            stats['files'] += 1
            good = sum(1 for r in rows if r['shape'] and r['amt']['ok'] and r['amt']['m'] != 0 and r['date']['ok'])
            stats['good_rows'] += good
            stats['skipped_rows'] += len(rows) - good
    finally:
        shutil.rmtree(tmp, ignore_errors=True)
    return recs, stats
