"""Concrete environments of the bounded expression universe (shared by the TLA+ data generator and the replay)."""
import datetime

ORDERS = [{'item': 'Widget', 'amount': 30.0, 'n': 1}, {'item': 'Gadget', 'amount': 50.25, 'n': 2}]
ENVS = [
    dict(txn={'description': 'APLPAY Alfa Store #123', 'amount': 50.25, 'date': datetime.date(2025, 12, 31),
              'field': {'kind': 'ACH', 'memo': ' PROJ:x1 '}, 'source': 'Card', 'location': 'WA'},
         vars={'big': True, 'lim': 40}, rows={'orders': ORDERS, 'nolines': []}),
    dict(txn={'description': 'alfa', 'amount': -1, 'date': datetime.date(2024, 2, 29),
              'field': {'kind': 'wire'}, 'source': 'card', 'location': ''},
         # (variables may be NAMED like primitives: a user variable wins over the primitive of the same name)
         vars={'big': False, 'lim': 0, 'day': 77, 'source': 'VarSrc'}, rows={'orders': ORDERS[:1], 'nolines': []}),
    dict(txn={'description': '', 'amount': 0, 'date': None, 'field': None, 'source': '', 'location': ''},
         vars={}, rows={'orders': [], 'nolines': []}),
    dict(txn={'description': 'ZULU 99 store', 'amount': 100, 'date': datetime.date(2025, 1, 1),
              'field': {'kind': '', 'memo': 'x'}, 'source': 'Bank', 'location': 'OR'},
         vars={'big': True, 'lim': 100, 'weekday': 9, 'month': 13}, rows={'orders': ORDERS, 'nolines': []}),
]

