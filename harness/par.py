"""Fork-based parallel helpers (the real code is imported once in the parent and shared by fork)."""
import multiprocessing as mp
import os
import re

import tlaval

NPROC = int(os.environ.get('VERIF_NPROC', '16'))


def _ranges(path, n):
    size = os.path.getsize(path)
    if size == 0:
        return []
    cuts = [0]
    with open(path, 'rb') as f:
        for k in range(1, n):
            pos = size * k // n
            f.seek(pos)
            chunk = f.read(1 << 20)
            m = re.search(rb'^State \d+:', chunk, re.M)
            if not m:
                continue
            c = pos + m.start()
            if c > cuts[-1]:
                cuts.append(c)
    cuts.append(size)
    return list(zip(cuts[:-1], cuts[1:]))


def _iter_states(path, lo, hi):
    with open(path, 'rb') as f:
        f.seek(lo)
        text = f.read(hi - lo).decode('utf8')
    for block in re.split(r'^State \d+:', text, flags=re.M)[1:]:
        yield tlaval.parse_state(block)


def _dump_worker(args):
    fn, path, lo, hi, extra = args
    return fn(_iter_states(path, lo, hi), *extra)


def map_dump(path, fn, extra=(), nproc=None, sample=None, seed=0, shards=None):
    """fn(states_iterator, *extra) -> result ; run over shards of a TLC -dump file; returns list of results.
    sample=(k, n): process only k of every n shards (seeded choice) - for dumps too large to replay completely."""
    nproc = nproc or NPROC
    rs = _ranges(path, shards or nproc * 4)
    if sample:
        import random
        rnd = random.Random(seed)
        k, n = sample
        rs = [r for r in rs if rnd.randrange(n) < k] or rs[:1]
    if not rs:
        return []
    ctx = mp.get_context('fork')
    with ctx.Pool(min(nproc, len(rs))) as pool:
        return pool.map(_dump_worker, [(fn, path, lo, hi, extra) for lo, hi in rs], chunksize=1)


def _call(args):
    fn, item, extra = args
    return fn(item, *extra)


def pmap(fn, items, extra=(), nproc=None, chunksize=1):
    nproc = nproc or NPROC
    items = list(items)
    if not items:
        return []
    ctx = mp.get_context('fork')
    with ctx.Pool(min(nproc, len(items))) as pool:
        return pool.map(_call, [(fn, it, extra) for it in items], chunksize=chunksize)


def fresh_map(fn, items, extra=(), nproc=None):
    """Like pmap but every item runs in a process forked freshly from the parent (no state shared between items)."""
    nproc = nproc or NPROC
    items = list(items)
    if not items:
        return []
    ctx = mp.get_context('fork')
    with ctx.Pool(min(nproc, len(items)), maxtasksperchild=1) as pool:
        return pool.map(_call, [(fn, it, extra) for it in items], chunksize=1)
