"""Code -> spec for views (C10): random merchants and random views files (nothing here comes from TLC) through the real
analyze_transactions + classify_by_sections, recorded for spec/Trace_Views.tla."""
import datetime
import random

import exprabs as X

CATS = [('Food', 'Grocery'), ('Food', 'Coffee'), ('Bills', 'Streaming'), ('Bills', 'Power'), ('Shopping', ''), ('Travel', 'Air'),
        ('Gym', ''), ('Income', 'Pay'), ('Transfers', '')]
NAMES = ['Netflix', 'Grocer', 'BigBuy', 'Refunds', 'Lumpy', 'Cafe', 'Flat', 'Gadget', 'Cloud', 'TwoCards', 'Leap', 'Salary', 'Moves', 'Fund']
TAGS = ['recurring', 'big', 'x', 'Recurring', 'BIG', 'weekly']
SPECIAL = ['income', 'Transfer', 'investment']
AMTS = [0.25, 4.5, 5.5, 6.0, 15.0, 15.0, 20.0, 40.25, 50.0, 60.5, 100.0, 150.0, 300.0, 700.0, 1200.0, -20.0, -5.0, 0.75, 99.75, 1000.0]
NUMS = ['0', '1', '2', '3', '10', '50', '100', '100.5', '500', '1000', '0.3', '0.5', '0.75', '-5']
SMALL = ['1', '2', '3', '4']


def gen_merchants(rnd):
    ms = []
    for name in rnd.sample(NAMES, rnd.choice([2, 3, 4, 5, 6])):
        cat, sub = rnd.choice(CATS)
        base = [t for t in TAGS if rnd.random() < 0.2]
        if rnd.random() < 0.12:
            base.append(rnd.choice(SPECIAL))
        n = rnd.choice([1, 1, 2, 3, 3, 4, 5, 8])
        steady = rnd.random() < 0.35
        amt0 = rnd.choice(AMTS)
        pays, paytags = [], []
        for _ in range(n):
            d = datetime.date(rnd.choice([2024, 2024, 2025]), rnd.randrange(1, 13), rnd.choice([1, 3, 5, 10, 15, 28]))
            if rnd.random() < 0.05:
                d = datetime.date(2024, 2, 29)
            if rnd.random() < 0.3 and pays:
                d = pays[-1][0]                                  # several payments on one day
            a = amt0 if steady else rnd.choice(AMTS)
            pays.append((d, a))
            paytags.append(base + ([rnd.choice(TAGS)] if rnd.random() < 0.15 else []))
        if rnd.random() < 0.5:
            order = sorted(range(n), key=lambda k: pays[k][0])      # statements are usually, not always, in date order
            pays = [pays[k] for k in order]
            paytags = [paytags[k] for k in order]
        ms.append({'name': name, 'cat': cat, 'sub': sub, 'pays': pays, 'paytags': paytags})
    return ms


def _atom(rnd, names):
    N, K = rnd.choice(NUMS), rnd.choice(SMALL)
    cat, sub = rnd.choice(CATS)
    op = rnd.choice(['>', '>=', '<', '<=', '==', '!='])
    forms = [
        'category == "%s"' % rnd.choice([cat, cat.lower(), cat.upper()]), 'category != "%s"' % cat, 'subcategory == "%s"' % (sub or 'none').lower(),
        'merchant == "%s"' % rnd.choice(NAMES).lower(), 'months %s %s' % (op, K), 'total %s %s' % (op, N), 'cv %s %s' % (rnd.choice(['<', '>', '<=', '>=']), rnd.choice(['0.3', '0.5', '0', '1', '0.75'])),
        '"%s" in tags' % rnd.choice(TAGS + ['nosuchtag']), '"%s" not in tags' % rnd.choice(TAGS), 'sum(payments) %s %s' % (op, N),
        'count(payments) %s %s' % (op, K), 'avg(payments) %s %s' % (rnd.choice(['>', '<']), N), 'max(payments) %s %s' % (op, N), 'min(payments) %s %s' % (op, N),
        'max(sum(by("month"))) %s %s' % (op, N), 'min(count(by("month"))) %s %s' % (op, K), 'count(by("year")) %s %s' % (op, rnd.choice(['1', '2'])),
        'max(count(by("day"))) %s %s' % (op, K), 'count(by("day")) %s %s' % (op, K), 'avg(sum(by("month"))) %s %s' % (rnd.choice(['>', '<']), N),
        'sum(sum(by("year"))) %s %s' % (op, N), 'min(sum(by("day"))) %s %s' % (op, N),
        'months >= max_val(%s, period("month") * 0.5)' % K, 'total / months %s %s' % (rnd.choice(['>', '<']), N), 'months %s period("year")' % op,
        'months * %s >= period("month")' % K, 'abs(total) %s %s' % (op, N), 'min_val(total, %s) == %s' % (N, N), '(total if months > %s else 0) %s %s' % (K, op, N),
        'count(payments) == count(by("day"))', 'total - max(payments) %s %s' % (op, N), 'true', 'false',
        # stddev(): 0 for fewer than two values and for equal values under every definition (anything else is not judged); maps over by()
        'max(stddev(by("month"))) %s %s' % (rnd.choice(['<', '<=', '>', '==']), rnd.choice(['0', '1', '5'])), 'sum(stddev(by("day"))) == 0',
        'stddev(payments) %s %s' % (rnd.choice(['<', '<=', '>']), rnd.choice(['0', '1'])), 'count(stddev(by("month"))) == months',
        # chained comparisons: every link counts, each against its own neighbour
        '%s <= months <= %s' % (rnd.choice(['1', '2', '3']), rnd.choice(['2', '3', '6'])), '%s < total < %s' % (rnd.choice(['0', '10', '100']), rnd.choice(['100', '500', '1000'])),
        '%s <= cv < %s' % (rnd.choice(['0', '0.3']), rnd.choice(['0.5', '1'])), '%s > total >= %s' % (rnd.choice(['1000', '500']), rnd.choice(['0', '50', '100'])),
        '0 < months < count(payments) <= %s' % rnd.choice(['3', '5', '8']), '%s <= count(payments) == months' % K,
    ]
    bad = ['nosuch > 1', 'total > "x"', 'sum(category) > 1', 'max(by("bogus")) > 1', 'max_val(1) > 0', 'tags > 1', 'sum(by("month")) > 100',
           'total[0] > 1', 'months + "1" > 1', 'payments > 3']
    r = rnd.random()
    if r < 0.08:
        return rnd.choice(bad)
    if r < 0.25 and names:
        n = rnd.choice(names)
        return rnd.choice([n, '%s %s %s' % (n, op, N), 'not %s' % n])
    return rnd.choice(forms)


def gen_filter(rnd, names, depth=0):
    r = rnd.random()
    if depth >= 2 or r < 0.5:
        return _atom(rnd, names)
    if r < 0.6:
        return 'not (%s)' % gen_filter(rnd, names, depth + 1)
    return '(%s) %s (%s)' % (gen_filter(rnd, names, depth + 1), rnd.choice(['and', 'or']), gen_filter(rnd, names, depth + 1))


def gen_decl(rnd, names, p_fail=0.0):
    N, K = rnd.choice(NUMS), rnd.choice(SMALL)
    if rnd.random() < p_fail:
        return rnd.choice(['nosuch + 1', 'total / period("week")', 'total > "x"', 'sum(category)', 'max_val(1)', 'months + "1"', 'total / "budget"'])
    forms = ['months >= %s' % K, 'total / months', 'avg(payments)', 'period("month") * %s' % K, 'total / period("year")', 'max(sum(by("month")))',
             'count(by("day"))', 'nosuch + 1', 'sum(payments) - %s' % N, 'months * %s >= period("month")' % K, 'false', '%s' % N,
             'max(payments) if months > 1 else 0', 'min(count(by("month")))']
    if names and rnd.random() < 0.35:
        n = rnd.choice(names)
        forms = ['%s * 2' % n, '%s > %s' % (n, N), 'not %s' % n, '%s and months > 1' % n]
    return rnd.choice(forms)


def gen_file(rnd, p_fail=0.0):
    glob, names = [], []
    for n in rnd.sample(['g', 'h', 'peak'], rnd.choice([0, 0, 1, 2])):
        glob.append((n, gen_decl(rnd, names, p_fail)))
        names.append(n)
    views = []
    for k in range(rnd.choice([1, 2, 3])):
        vnames = list(names)
        loc = []
        for n in rnd.sample(['v', 'w', 'g'], rnd.choice([0, 0, 1, 2])):
            loc.append((n, gen_decl(rnd, vnames, p_fail / 2)))
            if n not in vnames:
                vnames.append(n)
        views.append({'name': 'View %d' % (k + 1), 'vars': loc, 'filter': gen_filter(rnd, vnames)})
    return {'globals': glob, 'views': views}


def render(f, rnd):
    lines = []
    for n, e in f['globals']:
        lines.append('%s = %s' % (n, e))
    if lines:
        lines.append('')
    for v in f['views']:
        lines.append('[%s]' % v['name'])
        if rnd.random() < 0.3:
            lines.append('description: whatever # not a comment')
        for n, e in v['vars']:
            lines.append('%s = %s' % (n, e))
        lines.append('filter: ' + v['filter'])
        lines.append('')
    return '\n'.join(lines)


def record_one(rnd, rid, p_fail=0.0):
    from tally.analyzer import analyze_transactions, classify_by_sections, compute_section_totals
    from tally.section_engine import parse_sections
    ms = gen_merchants(rnd)
    f = gen_file(rnd, p_fail)
    try:
        afile = {'globals': [{'n': n, 'e': X.abstract_expr(e)} for n, e in f['globals']],
                 'views': [{'name': k + 1, 'filter': X.abstract_expr(v['filter']), 'vars': [{'n': n, 'e': X.abstract_expr(e)} for n, e in v['vars']]}
                           for k, v in enumerate(f['views'])]}
        ams = []
        for m in ms:
            tags = sorted({t.lower() for pt in m['paytags'] for t in pt})
            ams.append({'name': X.codes(m['name']), 'cat': X.codes(m['cat']), 'sub': X.codes(m['sub']), 'tags': [X.codes(t) for t in tags],
                        'pays': [{'date': [d.year, d.month, d.day], 'amt': X.num(a)} for d, a in m['pays']]})
    except X.Unrepresentable:
        return None
    txns = []
    for m in ms:
        for (d, a), pt in zip(m['pays'], m['paytags']):
            txns.append({'date': datetime.datetime(d.year, d.month, d.day), 'description': m['name'], 'raw_description': m['name'].upper(),
                         'amount': a, 'merchant': m['name'], 'category': m['cat'], 'subcategory': m['sub'], 'source': 'Card', 'tags': list(pt)})
    rnd.shuffle(txns) if rnd.random() < 0.2 else None
    text = render(f, rnd)
    stats = analyze_transactions(txns)
    cfg = parse_sections(text)
    try:
        res = classify_by_sections(stats['by_merchant'], cfg, stats['num_months'])
    except (TypeError, KeyError, AttributeError, IndexError, ZeroDivisionError, ValueError, AssertionError):
        res = {}          # classification is total (C08 / C10): an exception escaping from it leaves every view without members
    names = [m['name'] for m in ms]
    obs = []
    for v in f['views']:
        members = res.get(v['name'], [])
        tot = compute_section_totals(members)
        try:
            total = X.num(tot['total'])
        except X.Unrepresentable:
            total = {'t': 'none'}
        obs.append({'members': sorted(names.index(mn) + 1 for mn, _ in members), 'total': total})
    return {'id': rid, 'ms': ams, 'file': afile, 'obs': obs, '_text': text,
            '_merchants': [{'name': m['name'], 'cat': m['cat'], 'sub': m['sub'], 'pays': [(str(d), a) for d, a in m['pays']], 'paytags': m['paytags']} for m in ms],
            '_members': [[names[k - 1] for k in o['members']] for o in obs]}


def record_batch(seed, n, p_fail=0.0):
    rnd = random.Random(seed)
    recs, skipped = [], 0
    for k in range(n):
        r = record_one(rnd, 'views:%d:%d' % (seed, k), p_fail)
        if r is None:
            skipped += 1
        else:
            recs.append(r)
    return recs, skipped
