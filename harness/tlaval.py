"""Parser for TLA+ values as printed by TLC (-dump files, PrintT output, simulate traces).

Grammar handled: integers, strings, TRUE/FALSE, model values (identifiers),
sets {..}, tuples <<..>>, records [a |-> v, ...], functions (k :> v @@ k :> v), and
parenthesised values.  Values map to Python: int, str, bool, frozenset -> sorted list is
NOT applied (sets become Python frozenset when hashable else list), tuples -> tuple,
records -> dict, functions -> dict (keys as parsed; int keys 1..n are turned into tuples).
"""
import re

_TOK = re.compile(r'''\s*(?:
    (?P<int>-?\d+)|
    (?P<str>"(?:[^"\\]|\\.)*")|
    (?P<op><<|>>|\|->|:>|@@|[\[\]{}(),])|
    (?P<id>[A-Za-z_][A-Za-z0-9_!]*)
)''', re.X)


class ModelValue(str):
    pass


def _tokens(s):
    pos = 0
    n = len(s)
    out = []
    while pos < n:
        m = _TOK.match(s, pos)
        if not m:
            if s[pos:].strip() == '':
                break
            raise ValueError('bad TLA value at %r' % s[pos:pos + 40])
        pos = m.end()
        if m.group('int') is not None:
            out.append(('int', int(m.group('int'))))
        elif m.group('str') is not None:
            raw = m.group('str')[1:-1]
            out.append(('str', raw.replace('\\"', '"').replace('\\\\', '\\')
                        .replace('\\n', '\n').replace('\\t', '\t')))
        elif m.group('op') is not None:
            out.append(('op', m.group('op')))
        else:
            out.append(('id', m.group('id')))
    return out


def _freeze(v):
    if isinstance(v, dict):
        return tuple(sorted(((_freeze(k), _freeze(x)) for k, x in v.items()), key=repr))
    if isinstance(v, (list, tuple)):
        return tuple(_freeze(x) for x in v)
    if isinstance(v, (set, frozenset)):
        return frozenset(_freeze(x) for x in v)
    return v


class _P:
    def __init__(self, toks):
        self.t = toks
        self.i = 0

    def peek(self):
        return self.t[self.i] if self.i < len(self.t) else (None, None)

    def eat(self, kind=None, val=None):
        k, v = self.peek()
        if (kind and k != kind) or (val is not None and v != val):
            raise ValueError('expected %s %s got %s %s at tok %d' % (kind, val, k, v, self.i))
        self.i += 1
        return v

    def value(self):
        v = self.atom()
        k, x = self.peek()
        if k == 'op' and x == ':>':
            # function literal  k :> v @@ k :> v
            d = {}
            key = v
            while True:
                self.eat('op', ':>')
                d[_freeze(key)] = self.atom()
                k, x = self.peek()
                if k == 'op' and x == '@@':
                    self.eat()
                    key = self.atom()
                else:
                    break
            return _fn(d)
        return v

    def atom(self):
        k, v = self.peek()
        if k == 'int' or k == 'str':
            self.i += 1
            return v
        if k == 'id':
            self.i += 1
            if v == 'TRUE':
                return True
            if v == 'FALSE':
                return False
            return ModelValue(v)
        if k == 'op':
            if v == '(':
                self.eat()
                x = self.value()
                self.eat('op', ')')
                return x
            if v == '<<':
                self.eat()
                xs = []
                while self.peek() != ('op', '>>'):
                    xs.append(self.value())
                    if self.peek() == ('op', ','):
                        self.eat()
                self.eat('op', '>>')
                return tuple(xs)
            if v == '{':
                self.eat()
                xs = []
                while self.peek() != ('op', '}'):
                    xs.append(self.value())
                    if self.peek() == ('op', ','):
                        self.eat()
                self.eat('op', '}')
                return TSet(xs)
            if v == '[':
                self.eat()
                d = {}
                while self.peek() != ('op', ']'):
                    name = self.eat('id')
                    self.eat('op', '|->')
                    d[str(name)] = self.value()
                    if self.peek() == ('op', ','):
                        self.eat()
                self.eat('op', ']')
                return d
        raise ValueError('unexpected token %s %s at %d' % (k, v, self.i))


class TSet(list):
    """A TLA+ set, kept as a list in TLC's print order (elements may be unhashable)."""

    def as_set(self):
        return set(_freeze(x) for x in self)


def _fn(d):
    keys = list(d.keys())
    if keys and all(isinstance(k, int) for k in keys) and sorted(keys) == list(range(1, len(keys) + 1)):
        return tuple(d[k] for k in sorted(keys))
    return d


def parse_value(s):
    p = _P(_tokens(s))
    v = p.value()
    if p.i != len(p.t):
        raise ValueError('trailing tokens in %r' % s[:80])
    return v


_STATE_HDR = re.compile(r'^State \d+:', re.M)


def parse_dump(path):
    """Yield dicts var->value for each state in a TLC -dump file."""
    with open(path) as f:
        text = f.read()
    for block in _STATE_HDR.split(text)[1:]:
        yield parse_state(block)


def parse_state(block):
    """Parse '/\\ a = v\n/\\ b = v' (or 'a = v' single var)."""
    block = block.strip()
    parts = re.split(r'^/\\ ', block, flags=re.M)
    parts = [p for p in parts if p.strip()]
    st = {}
    for p in parts:
        name, _, val = p.partition(' = ')
        if not _:
            name, _, val = p.partition('=')
        st[name.strip()] = parse_value(val.strip())
    return st
