"""Abstraction between tally's concrete expression language and the spec's vocabulary (Expr.tla / Regex.tla).

  abstract_expr(source)   python source text  -> spec AST (JSON-able) or raises Unrepresentable
  abstract_value(obj)     python value        -> spec value
  abstract_env(txn, variables, data_sources)  -> spec Env
  regex_elements(pattern) regex source        -> Regex.tla element list, or None when outside the fragment
  unparse(ast_json)       spec AST            -> source text (for spec -> code replays)
"""
import ast
import datetime
from fractions import Fraction


class Unrepresentable(Exception):
    pass


def codes(s):
    out = []
    for ch in s:
        o = ord(ch)
        if o > 127 and (ch.lower() != ch or ch.upper() != ch):
            raise Unrepresentable('cased non-ASCII character %r' % ch)
        if o > 127 and ch.isspace():
            raise Unrepresentable('non-ASCII whitespace')
        if o >= 2 ** 20:
            raise Unrepresentable('astral character')
        out.append(o)
    return out


def text(cs):
    return ''.join(chr(c) for c in cs)


# ------------------------------------------------------------------------------------------------- regex ----------
def regex_elements(pat):
    """Parse the fragment; None if the pattern uses anything else."""
    try:
        els, i = _re_seq(pat, 0, top=True, groups=[0])
    except (ValueError, IndexError):
        return None
    if i != len(pat):
        return None
    return els


_SPECIAL = set('.^$*+?{}[]\\|()')


def _re_atom(pat, i, groups):
    c = pat[i]
    if c == '\\':
        d = pat[i + 1]
        if d in 'dwsDWS':
            return {'e': 'cls', 's': d}, i + 2
        if d == 'b':
            return {'e': 'wb'}, i + 2
        if d == 'B':
            return {'e': 'nwb'}, i + 2
        if d in _SPECIAL or d in '-#/ :,\'"&%@!=<>~`;_':
            if ord(d) > 127:
                raise ValueError
            return {'e': 'lit', 'c': ord(d)}, i + 2
        raise ValueError
    if c == '.':
        return {'e': 'any'}, i + 1
    if c in _SPECIAL:
        raise ValueError
    if ord(c) > 127:
        raise ValueError
    return {'e': 'lit', 'c': ord(c)}, i + 1


def _re_seq(pat, i, top, groups, stop=''):
    els = []
    while i < len(pat) and pat[i] not in stop:
        c = pat[i]
        if c == '^':
            if els or not top:
                raise ValueError
            els.append({'e': 'bol'})
            i += 1
            continue
        if c == '$':
            if i != len(pat) - 1 or not top:
                raise ValueError
            els.append({'e': 'eol'})
            i += 1
            continue
        if c == '(':
            if pat.startswith('(?!', i):
                j = pat.index(')', i)
                lit = pat[i + 3:j]
                if not lit or any(ch in _SPECIAL for ch in lit) or any(ord(ch) > 127 for ch in lit):
                    raise ValueError
                els.append({'e': 'neg', 'p': [ord(ch) for ch in lit]})
                i = j + 1
                continue
            if pat.startswith('(?', i) or not top:
                raise ValueError
            if groups[0] >= 1:
                raise ValueError
            groups[0] += 1
            a, j = _re_seq(pat, i + 1, False, groups, stop='|)')
            if pat[j] == '|':
                b, j2 = _re_seq(pat, j + 1, False, groups, stop='|)')
                if pat[j2] != ')':
                    raise ValueError
                inner = [{'e': 'alt', 'a': a, 'b': b}]
                j = j2
            else:
                inner = a
            if j + 1 < len(pat) and pat[j + 1] in '*+?{':
                raise ValueError
            els += [{'e': 'gs'}] + inner + [{'e': 'ge'}]
            i = j + 1
            continue
        if c == '|':
            raise ValueError
        atom, i = _re_atom(pat, i, groups)
        if i < len(pat) and pat[i] in '*+?':
            if atom['e'] in ('wb', 'nwb'):
                raise ValueError
            q = {'*': 'star', '+': 'plus', '?': 'opt'}[pat[i]]
            i += 1
            if i < len(pat) and pat[i] in '?+*{':
                raise ValueError          # lazy / possessive quantifiers
            els.append({'e': q, 'x': atom})
        elif i < len(pat) and pat[i] == '{':
            raise ValueError
        else:
            els.append(atom)
    return els, i


# ------------------------------------------------------------------------------------------------ values ----------
def num(x):
    if isinstance(x, bool):
        return {'t': 'bool', 'v': x}
    if isinstance(x, int):
        if abs(x) >= 2 ** 30:
            raise Unrepresentable('big int')
        return {'t': 'num', 'n': x, 'd': 1, 'f': False}
    if x != x or x in (float('inf'), float('-inf')):
        raise Unrepresentable('non-finite float')
    fr = Fraction(x).limit_denominator(100000)
    # RELATIVE tolerance: for small |x| an absolute one accepts a wrong nearby rational (-31/80199 for 10/201/2023/...)
    if abs(float(fr) - x) > 1e-12 * abs(x) or abs(fr.numerator) >= 2 ** 30:
        raise Unrepresentable('float not a small rational')
    return {'t': 'num', 'n': fr.numerator, 'd': fr.denominator, 'f': True}


def abstract_value(x, as_const=False):
    if isinstance(x, (bool, int, float)):
        return num(x)
    if isinstance(x, str):
        v = {'t': 'str', 'v': codes(x)}
        if as_const:
            v['name'] = x
            els = regex_elements(x)
            if els is not None:
                v['re'] = els
        return v
    if x is None:
        return {'t': 'none'}
    if isinstance(x, datetime.datetime):
        raise Unrepresentable('datetime')
    if isinstance(x, datetime.date):
        return {'t': 'date', 'v': [x.year, x.month, x.day]}
    if isinstance(x, (list, tuple)):
        return {'t': 'list', 'v': [abstract_value(y) for y in x]}
    if isinstance(x, dict):
        return {'t': 'row', 'v': {str(k).lower(): abstract_value(v) for k, v in x.items()}}
    return {'t': 'other', 'py': type(x).__name__}


def abstract_env(txn, variables=None, data_sources=None):
    d = txn.get('date')
    if isinstance(d, datetime.datetime):
        d = d.date()
    fld = txn.get('field') or {}
    return {
        'desc': codes(txn.get('description', txn.get('raw_description', ''))),
        'amount': num(txn.get('amount', 0.0)),
        'date': [d.year, d.month, d.day] if d else [],
        'field': {k: codes(v) for k, v in fld.items()},
        'source': codes(txn.get('source') or ''),
        'location': codes(txn.get('location') or ''),
        'vars': {k.lower(): abstract_value(v) for k, v in (variables or {}).items()},
        'rows': {k: [abstract_value(r) for r in rows] for k, rows in (data_sources or {}).items()},
    }


# --------------------------------------------------------------------------------------------------- AST ----------
_BIN = {ast.Add: 'add', ast.Sub: 'sub', ast.Mult: 'mult', ast.Div: 'div', ast.Mod: 'mod'}
_CMP = {ast.Eq: 'eq', ast.NotEq: 'ne', ast.Lt: 'lt', ast.LtE: 'le', ast.Gt: 'gt', ast.GtE: 'ge', ast.In: 'in',
        ast.NotIn: 'notin'}


def abstract_expr(src):
    import warnings
    with warnings.catch_warnings():
        warnings.simplefilter('ignore')
        tree = ast.parse(src, mode='eval')
    return _abs(tree.body)


def _abs(n):
    if isinstance(n, ast.Constant):
        if isinstance(n.value, (bytes, complex)) or n.value is Ellipsis:
            raise Unrepresentable('exotic constant')
        return {'k': 'const', 'v': abstract_value(n.value, as_const=True)}
    if isinstance(n, ast.Name):
        return {'k': 'name', 'n': n.id.lower()}
    if isinstance(n, ast.BoolOp):
        return {'k': 'boolop', 'op': 'and' if isinstance(n.op, ast.And) else 'or', 'vals': [_abs(v) for v in n.values]}
    if isinstance(n, ast.UnaryOp):
        if isinstance(n.op, ast.Not):
            return {'k': 'not', 'x': _abs(n.operand)}
        if isinstance(n.op, ast.USub):
            return {'k': 'neg', 'x': _abs(n.operand)}
        raise Unrepresentable('unary op')
    if isinstance(n, ast.BinOp):
        if type(n.op) not in _BIN:
            raise Unrepresentable('binary op')
        return {'k': 'bin', 'op': _BIN[type(n.op)], 'l': _abs(n.left), 'r': _abs(n.right)}
    if isinstance(n, ast.Compare):
        if any(type(o) not in _CMP for o in n.ops):
            raise Unrepresentable('compare op')
        return {'k': 'cmp', 'left': _abs(n.left), 'ops': [_CMP[type(o)] for o in n.ops],
                'rights': [_abs(c) for c in n.comparators]}
    if isinstance(n, ast.IfExp):
        return {'k': 'ifexp', 'test': _abs(n.test), 'body': _abs(n.body), 'orelse': _abs(n.orelse)}
    if isinstance(n, ast.Attribute):
        return {'k': 'attr', 'obj': _abs(n.value), 'a': n.attr.lower()}
    if isinstance(n, ast.Subscript):
        if isinstance(n.slice, ast.Slice):
            raise Unrepresentable('slice')
        return {'k': 'sub', 'obj': _abs(n.value), 'idx': _abs(n.slice)}
    if isinstance(n, ast.NamedExpr):
        return {'k': 'walrus', 'n': n.target.id.lower(), 'val': _abs(n.value)}
    if isinstance(n, (ast.ListComp, ast.GeneratorExp)):
        gens = []
        for g in n.generators:
            if not isinstance(g.target, ast.Name) or g.is_async:
                raise Unrepresentable('comprehension target')
            gens.append({'var': g.target.id.lower(), 'iter': _abs(g.iter), 'ifs': [_abs(c) for c in g.ifs]})
        return {'k': 'listcomp' if isinstance(n, ast.ListComp) else 'genexp', 'elt': _abs(n.elt), 'gens': gens}
    if isinstance(n, ast.Call):
        if n.keywords:
            raise Unrepresentable('keywords')
        if isinstance(n.func, ast.Attribute):
            return {'k': 'method', 'obj': _abs(n.func.value), 'm': n.func.attr.lower(), 'args': [_abs(a) for a in n.args]}
        if isinstance(n.func, ast.Name):
            if any(isinstance(a, ast.Starred) for a in n.args):
                raise Unrepresentable('starred')
            return {'k': 'call', 'fn': n.func.id.lower(), 'args': [_abs(a) for a in n.args]}
        raise Unrepresentable('call of non-name')
    raise Unrepresentable(type(n).__name__)


# ------------------------------------------------------------------------------------------------ unparse ----------
_BINS = {'add': '+', 'sub': '-', 'mult': '*', 'div': '/', 'mod': '%'}
_CMPS = {'eq': '==', 'ne': '!=', 'lt': '<', 'le': '<=', 'gt': '>', 'ge': '>=', 'in': 'in', 'notin': 'not in'}


def unparse_value(v, quote='"'):
    t = v['t']
    if t == 'bool':
        return 'True' if v['v'] else 'False'
    if t == 'num':
        if v['d'] == 1 and not v['f']:
            return str(v['n'])
        return repr(v['n'] / v['d'])
    if t == 'str':
        s = text(v['v'])
        if 'src' in v:
            s = v['src']
        else:
            s = s.replace('\\', '\\\\').replace(quote, '\\' + quote).replace('\n', '\\n').replace('\t', '\\t')
        return quote + s + quote
    if t == 'none':
        return 'None'
    raise ValueError('cannot unparse constant %r' % (v,))


def unparse(n, style=None):
    """style: object with .case(name) -> name spelling, .quote -> quote char, .ws -> extra blanks"""
    q = getattr(style, 'quote', '"')
    case = getattr(style, 'case', lambda s: s)
    k = n['k']
    if k == 'const':
        return unparse_value(n['v'], q)
    if k == 'name':
        return case(n['n'])
    if k == 'boolop':
        return '(' + (' %s ' % n['op']).join(unparse(v, style) for v in n['vals']) + ')'
    if k == 'not':
        return '(not ' + unparse(n['x'], style) + ')'
    if k == 'neg':
        return '(-' + unparse(n['x'], style) + ')'
    if k == 'bin':
        return '(%s %s %s)' % (unparse(n['l'], style), _BINS[n['op']], unparse(n['r'], style))
    if k == 'cmp':
        s = unparse(n['left'], style)
        for o, r in zip(n['ops'], n['rights']):
            s += ' %s %s' % (_CMPS[o], unparse(r, style))
        return '(' + s + ')'
    if k == 'ifexp':
        return '(%s if %s else %s)' % (unparse(n['body'], style), unparse(n['test'], style), unparse(n['orelse'], style))
    if k == 'attr':
        return '%s.%s' % (unparse(n['obj'], style), case(n['a']))
    if k == 'sub':
        return '%s[%s]' % (unparse(n['obj'], style), unparse(n['idx'], style))
    if k == 'walrus':
        return '(%s := %s)' % (n['n'], unparse(n['val'], style))
    if k in ('listcomp', 'genexp'):
        s = unparse(n['elt'], style)
        for g in n['gens']:
            s += ' for %s in %s' % (g['var'], unparse(g['iter'], style))
            for c in g['ifs']:
                s += ' if ' + unparse(c, style)
        return ('[%s]' if k == 'listcomp' else '(%s)') % s
    if k == 'method':
        return '%s.%s(%s)' % (unparse(n['obj'], style), n['m'], ', '.join(unparse(a, style) for a in n['args']))
    if k == 'call':
        args = [unparse(a, style) for a in n['args']]
        if len(args) == 1 and n['args'][0]['k'] == 'genexp':
            return '%s%s' % (case(n['fn']), args[0])
        return '%s(%s)' % (case(n['fn']), ', '.join(args))
    raise ValueError(k)
