"""Code -> spec for format strings and inspect's suggestion (C18): random concrete format strings / statement headers (nothing here
comes from TLC) through the real parse_format_string / auto_detect_csv_format / `tally inspect`, recorded for spec/Trace_Format.tla."""
import os
import random
import re
import tempfile

NOCOL = 999
DATE_FMTS = ['%m/%d/%Y', '%Y-%m-%d', '%d.%m.%Y', '%d %b %y', '%m/%d/%y', '%Y%m%d', '%d-%b-%Y', '%b %d %Y']
CUSTOM = ['type', 'merchant', 'kind', 'cardholder', 'memo', 'ref_no', 'x', 'day', 'month', 'category2', 'notes', 'a1']
# real-world header wordings (what banks export), for the suggestion round trip
HEADER_WORDS = ['Date', 'Transaction Date', 'Posted Date', 'Posting Date', 'Description', 'Merchant', 'Merchant Name', 'Payee', 'Details', 'Memo',
                'Amount', 'Debit', 'Credit', 'Charge Amount', 'Payment', 'Balance', 'City', 'State', 'Location', 'Region', 'Category', 'Type',
                'Card Member', 'Account #', 'Reference', 'Check Number', 'Currency', 'Notes', 'Transaction Type', 'Status', 'Payment Date',
                'State/Amount', 'Name', 'Extended Details', 'Appears On Your Statement As', 'Address', 'Zip Code', 'Country']

_PART = re.compile(r'^\{([-+]?)(\w+|\*)(?::([^}]+))?\}$')
_RESERVED = {'date', 'amount', 'location', 'description', '_', '*', 'field'}


class Intern:
    def __init__(self):
        self.ids = {}

    def __call__(self, s):
        return self.ids.setdefault(s, 'f%d' % len(self.ids))


def tokenise(fmt, intern):
    """The format string as a sequence of Format.tla tokens (the documented syntax: comma-separated {name} / {name:format} parts, blanks
    around a part ignored, names case-insensitive).  Returns None when a part is outside what the statement settles."""
    toks = []
    for part in fmt.split(','):
        p = part.strip()
        m = _PART.match(p)
        if not m:
            if re.match(r'^\{[-+]?(\w+|\*)(?::[^}]+)?\}\s*\S', p):
                return None          # text after the closing brace inside one column: the statement is silent
            toks.append({'k': 'bad'})
            continue
        sign, name, f = m.group(1), m.group(2).lower(), m.group(3)
        if name in ('_', '*'):
            toks.append({'k': 'skip'})
        elif name == 'date':
            if sign:
                return None
            toks.append({'k': 'date', 'fmt': intern(f if f else '%m/%d/%Y')})
        elif name == 'amount':
            toks.append({'k': 'amount', 'sign': sign})
        elif name in ('description', 'location', 'field'):
            if sign or f:
                return None
            toks.append({'k': name})
        else:
            if sign or f:
                return None
            toks.append({'k': 'custom', 'n': intern(name)})
    return toks


def gen_format(rnd):
    n = rnd.choice([2, 3, 3, 4, 4, 5, 6, 8, 10, 12])
    kinds = ['date', 'amount', 'description']
    if rnd.random() < 0.35:
        kinds[2] = 'custom'                                     # mode 2
    pool = ['skip', 'skip', 'custom', 'custom', 'location', 'skip2', 'field', 'bad', 'date', 'amount', 'description']
    while len(kinds) < n:
        kinds.append(rnd.choice(pool[:6]) if rnd.random() < 0.93 else rnd.choice(pool))
    if rnd.random() < 0.06 and kinds:
        kinds.remove(rnd.choice(kinds))                         # something required may be missing
    rnd.shuffle(kinds)
    names = rnd.sample(CUSTOM, len(CUSTOM))
    used = []
    parts = []
    for k in kinds:
        if k == 'date':
            f = rnd.choice(DATE_FMTS)
            parts.append(rnd.choice(['{date:%s}' % f, '{Date:%s}' % f, '{DATE:%s}' % f, '{date}']))
        elif k == 'amount':
            parts.append(rnd.choice(['{amount}', '{-amount}', '{+amount}', '{Amount}', '{-AMOUNT}', '{+Amount}']))
        elif k == 'description':
            parts.append(rnd.choice(['{description}', '{Description}', '{DESCRIPTION}']))
        elif k == 'location':
            parts.append(rnd.choice(['{location}', '{Location}']))
        elif k == 'field':
            parts.append('{field}')
        elif k in ('skip', 'skip2'):
            parts.append(rnd.choice(['{_}', '{*}']))
        elif k == 'custom':
            nm = names.pop() if (not used or rnd.random() < 0.9) else rnd.choice(used)      # sometimes the same capture twice
            used.append(nm)
            parts.append('{%s}' % rnd.choice([nm, nm.title(), nm.upper()]))
        else:
            parts.append(rnd.choice(['date', '{date', '{}', '', '{ date }', '{da-te}', 'amount}', '{{amount}}', '{:%Y}', '{amount:}']))
    fmt = rnd.choice([', ', ',', ' , ', ',  ']).join(parts)
    if rnd.random() < 0.1:
        fmt = ' ' + fmt + '  '
    tmpl = None
    r = rnd.random()
    if r < (0.9 if 'description' not in kinds else 0.12):
        refs = [x.lower() for x in (rnd.sample(used, min(len(used), rnd.choice([1, 1, 2]))) if used else [])]
        if rnd.random() < 0.08:
            refs.append(rnd.choice(['vendor', 'nosuch', 'description', 'amount']))
        tmpl = rnd.choice(['%s', '%s (x)', 'pre %s'])
        body = ' - '.join('{%s}' % x for x in refs) if refs else rnd.choice(['constant text', ''])
        tmpl = (tmpl % body) if body else ''
    return fmt, tmpl


_last = [None]


def record_format(rnd, rid):
    from tally.format_parser import parse_format_string
    fmt, tmpl = gen_format(rnd)
    if _last[0] is not None and rnd.random() < 0.2:
        # the SAME format string again, with another template (two sources of one budget share a layout, not a template)
        fmt = _last[0]
        tmpl = rnd.choice([None, '', '{vendor}', '{merchant}', '{kind} - {type}', tmpl])
    _last[0] = fmt
    intern = Intern()
    toks = tokenise(fmt, intern)
    if toks is None:
        return None
    refs = [intern(x) for x in re.findall(r'\{(\w+)\}', tmpl or '')]
    try:
        s = parse_format_string(fmt, tmpl)
        obs = {'err': False, 'date': s.date_column, 'fmt': intern(s.date_format), 'amount': s.amount_column,
               'desc': NOCOL if s.description_column is None else s.description_column,
               'location': NOCOL if s.location_column is None else s.location_column,
               'negate': bool(s.negate_amount), 'abs': bool(s.abs_amount),
               'captures': sorted([intern(k), v] for k, v in (s.custom_captures or {}).items()),
               'extras': sorted([intern(k), v] for k, v in (s.extra_fields or {}).items())}
        msg = None
    except ValueError as e:
        obs = {'err': True}
        msg = str(e)[:120]
    return {'kind': 'format', 'id': rid, 'toks': toks, 'tmpl': {'has': bool(tmpl), 'refs': refs}, 'obs': obs,
            '_fmt': fmt, '_tmpl': tmpl, '_msg': msg}


def record_suggest(rnd, rid, tmpdir):
    import csv as _csv
    import datetime as _dt
    from props import c18
    from tally.parsers import auto_detect_csv_format
    n = rnd.choice([3, 4, 5, 6, 8, 10])
    headers = rnd.sample(HEADER_WORDS, n)
    if rnd.random() < 0.8:
        must = [rnd.choice(['Date', 'Transaction Date', 'Posted Date']), rnd.choice(['Description', 'Merchant', 'Payee', 'Details']),
                rnd.choice(['Amount', 'Debit', 'Charge Amount'])]
        headers = [h for h in headers if h not in must][:max(0, n - 3)] + must
        rnd.shuffle(headers)
    if rnd.random() < 0.3:
        headers = [h.upper() if rnd.random() < 0.5 else h.lower() for h in headers]
    path = os.path.join(tmpdir, 's%d.csv' % rnd.randrange(4))
    style = rnd.choice(c18.DATE_STYLES)
    rows = [headers]
    for r in range(3):
        row = []
        for h in headers:
            hl = h.lower()
            row.append(_dt.date(2025, r + 1, 10 + r).strftime(style) if 'date' in hl else '%d.5%d' % (10 + r, r) if any(w in hl for w in ('amount', 'debit', 'credit', 'payment', 'balance')) else 'VALUE %d' % r)
        rows.append(row)
    with open(path, 'w', newline='') as f:
        _csv.writer(f, lineterminator='\n').writerows(rows)
    try:
        s = auto_detect_csv_format(path)
        det = {'date': s.date_column, 'desc': NOCOL if s.description_column is None else s.description_column, 'amount': s.amount_column,
               'location': NOCOL if s.location_column is None else s.location_column}
    except Exception:
        det = None
    text = c18.inspect_inprocess(path)
    sug, cols = c18.parse_inspect_output(text)
    if det is None or sug is None:
        return None          # nothing detected / nothing suggested: the Format universe decides those cases (known header classes)
    intern = Intern()
    toks = tokenise(sug, intern)
    if toks is None:
        toks = [{'k': 'bad'}]
    return {'kind': 'suggest', 'id': rid, 'toks': toks, 'det': det, '_headers': headers, '_suggestion': sug, '_date_style': style}


def record_batch(seed, n):
    rnd = random.Random(seed)
    tmpdir = tempfile.mkdtemp(prefix='fmttrace_', dir='/dev/shm' if os.path.isdir('/dev/shm') else None)
    recs, skipped = [], 0
    try:
        for k in range(n):
            r = record_format(rnd, 'fmt:%d:%d' % (seed, k)) if k % 4 else record_suggest(rnd, 'sug:%d:%d' % (seed, k), tmpdir)
            if r is None:
                skipped += 1
            else:
                recs.append(r)
    finally:
        import shutil
        shutil.rmtree(tmpdir, ignore_errors=True)
    return recs, skipped
