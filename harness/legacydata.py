"""Concrete CSV patterns / modifiers / transactions of the C14 universe (shared by the TLA+ data generator and the replay)."""
import datetime

PATTERNS = ['ALFA', 'ALFA STORE', 'ALFA\\s+STORE', 'ALFA\\s*STORE', 'STORE\\s\\d+', 'A.FA', 'ALFA.*12', 'BETA\\.STORE', '\\bALFA\\b',
            '^ALFA', 'STORE$', '(ALFA|BETA)', 'ALFA(?! STORE)', '"Q"', "O'K", 'ST(ORE) \\d+', '\\w+ STORE', 'X?ALFA', 'ALFA\\b.*\\bSTORE',
            '\\.STORE']
CORE_PATTERNS = [0, 2, 4, 8, 11, 12, 13, 16]
# (text, abstract)
MODS = [
    ('', []),
    ('[amount>100]', [('amt', 'gt', 100.0)]),
    ('[amount>=100]', [('amt', 'ge', 100.0)]),
    ('[amount<100]', [('amt', 'lt', 100.0)]),
    ('[amount<=100]', [('amt', 'le', 100.0)]),
    ('[amount=100]', [('amt', 'eq', 100.0)]),
    ('[amount:50-100]', [('amt', 'range', 50.0, 100.0)]),
    ('[date=2025-01-15]', [('date', 'eq', (2025, 1, 15))]),
    ('[date:2025-01-01..2025-01-31]', [('date', 'range', (2025, 1, 1), (2025, 1, 31))]),
    ('[month=1]', [('month', 1)]),
    ('[date:last30days]', [('rel', 30)]),
    ('[amount>50][month=1]', [('amt', 'gt', 50.0), ('month', 1)]),
    ('[amount=100][date:2025-01-01..2025-01-31]', [('amt', 'eq', 100.0), ('date', 'range', (2025, 1, 1), (2025, 1, 31))]),
    ('[amount=15.99]', [('amt', 'eq', 15.99)]),
    # thresholds with seven significant digits (a conversion that prints them with fewer moves the boundary)
    ('[amount>=10250.75]', [('amt', 'ge', 10250.75)]),
    ('[amount<123456.5]', [('amt', 'lt', 123456.5)]),
    ('[amount:12500.25-12500.75]', [('amt', 'range', 12500.25, 12500.75)]),
    ('[amount=10250.75]', [('amt', 'eq', 10250.75)]),
    ('[amount>0.001]', [('amt', 'gt', 0.001)]),
    # ranges written high-to-low: the loader accepts them and they match nothing - before and after the migration alike
    ('[amount:100-50]', [('amt', 'range', 100.0, 50.0)]),
    ('[date:2025-01-31..2025-01-01]', [('date', 'range', (2025, 1, 31), (2025, 1, 1))]),
    # a range that ends on 28 February of a leap year does not contain the 29th; whole months / years written as ranges
    ('[date:2024-02-01..2024-02-28]', [('date', 'range', (2024, 2, 1), (2024, 2, 28))]),
    ('[date:2025-01-01..2025-12-31]', [('date', 'range', (2025, 1, 1), (2025, 12, 31))]),
]
CORE_MODS = [0, 1, 5, 8, 11]
PROFILES = [('C1', 'S1', ['ta']), ('C2', '', []), ('', '', ['tb'])]
# names are free text in the CSV: blanks, '#', '&', quotes and colons are ordinary characters there
CATS = {'C1': 'Food & Drink', 'C2': 'Repairs #2 Elm St', '': ''}
SUBS = {'S1': 'Unit #1: "A"', '': ''}
TAGS = {'ta': 'Recurring', 'tb': 'acct #7'}
DESCS = ['ALFA STORE', 'ALFA  STORE 12', 'BETA.STORE', 'ALFA "Q" STORE', 'XALFA', 'alfa store 9', "O'K CORRAL", 'ZULU']
AMT_DATES = [(75.0, (2024, 2, 29)), (75.0, (2024, 2, 28)), (49.99, (2025, 1, 15)), (50.0, (2024, 12, 31)), (99.99, (2025, 1, 1)), (99.995, (2025, 1, 15)), (100.0, (2025, 1, 31)),
             (100.005, (2025, 2, 1)), (100.01, (2025, 1, 15)), (150.0, (2025, 1, 20)), (15.995, (2025, 1, 15)), (15.99, (2025, 3, 3))]


# amounts around the long thresholds (only with two of the descriptions: the universe is a product otherwise)
LONG_AMOUNTS = [10250.74, 10250.75, 10250.77, 10250.8, 123456.2, 123456.5, 123456.9, 12500.22, 12500.25, 12500.75, 12500.78, 0.0, 0.001, 0.01]


def txns():
    out = []
    for d in DESCS:
        for a, dt in AMT_DATES:
            out.append({'description': d, 'amount': a, 'date': datetime.date(*dt)})
    for d in (DESCS[0], DESCS[7]):
        for a in LONG_AMOUNTS:
            out.append({'description': d, 'amount': a, 'date': datetime.date(2025, 1, 15)})
    return out
