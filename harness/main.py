import argparse
import importlib
import os
import sys
import traceback

sys.path.insert(0, os.path.dirname(os.path.abspath(__file__)))
import core  # noqa


def main():
    ap = argparse.ArgumentParser()
    ap.add_argument('prop')
    ap.add_argument('--tier', default=os.environ.get('VERIF_TIER', 'quick'), choices=['quick', 'thorough'])
    ap.add_argument('--replay')
    ap.add_argument('--seed', type=int, default=int(os.environ.get('VERIF_SEED', '0') or 0))
    a = ap.parse_args()
    pid = a.prop.upper()
    try:
        mod = importlib.import_module('props.' + pid.lower())
    except ModuleNotFoundError as e:
        print('no check for %s: %s' % (pid, e))
        return 2
    ck = core.Check(pid, a.tier, a.seed, level=getattr(mod, 'LEVEL', 'model_checking'))
    try:
        core.setup_repo_import()
        if a.replay:
            mod.replay(ck, a.replay)
        else:
            mod.run(ck)
    except core.Machinery as e:
        print('MACHINERY-FAILURE %s: %s' % (pid, e))
        return 2
    except Exception:
        traceback.print_exc()
        print('MACHINERY-FAILURE %s: harness crashed' % pid)
        return 2
    return ck.finish()


if __name__ == '__main__':
    sys.exit(main())
