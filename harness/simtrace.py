"""Reading behaviours written by `tlc -simulate file=DIR/tr,num=N`."""
import glob
import os
import re

import tlaval

_ST = re.compile(r'^STATE_\d+ ==\s*$', re.M)
_LABEL = re.compile(r'^\\\* <(\w+)(\((.*?)\))? line', re.M)


def read_behaviour(path):
    text = open(path).read()
    labels = [(m.group(1), m.group(3)) for m in _LABEL.finditer(text)]
    blocks = _ST.split(text)[1:]
    states = []
    for b in blocks:
        b = b.split('\n\\*')[0]
        b = re.sub(r'^=+\s*$', '', b, flags=re.M)
        states.append(tlaval.parse_state(b))
    return labels, states


def behaviours(dirpath):
    for f in sorted(glob.glob(os.path.join(dirpath, '*'))):
        yield f, read_behaviour(f)
