#!/usr/bin/env python3
"""Seeded-change bookkeeping.
  collect <ID> [name]   take the uncommitted diff + demo + meta from /tmp/seed/<ID> into /verif/seeded/<name or ID>/
  verify  <name>        (in the scratch worktree) tests still 701 passed; demo fails with the change, passes on /repo
  run     <name> [props...]  apply the patch to /repo, run the checks (default: the seed's property), undo
  runcopy <name> [props...]  the same on a scratch worktree (VERIF_REPO / VERIF_OUT), leaving /repo alone"""
import json, os, re, shutil, subprocess, sys
ROOT = os.path.dirname(os.path.dirname(os.path.abspath(__file__)))
PY = '/venv/bin/python'


def sh(cmd, **kw):
    return subprocess.run(cmd, shell=True, stdout=subprocess.PIPE, stderr=subprocess.STDOUT, text=True, **kw)


def collect(pid, name=None):
    name = name or pid
    wt = '/tmp/seed/' + pid
    d = os.path.join(ROOT, 'seeded', name)
    os.makedirs(d, exist_ok=True)
    diff = subprocess.run(['git', '-C', wt, 'diff'], stdout=subprocess.PIPE).stdout      # bytes: some sources have CRLF line endings
    assert diff.strip(), 'no diff in ' + wt
    open(os.path.join(d, 'patch.diff'), 'wb').write(diff)
    for f in os.listdir(os.path.join(wt, 'seed_demo')):
        if f.endswith(('.py', '.json', '.md', '.txt')):
            shutil.copy(os.path.join(wt, 'seed_demo', f), os.path.join(d, f))
    print('collected', name, len(diff.splitlines()), 'diff lines')


def verify(name, pid=None):
    d = os.path.join(ROOT, 'seeded', name)
    pid = pid or re.match(r'C\d+', name).group(0)
    wt = '/tmp/seed/' + pid
    env = dict(os.environ, PYTHONDONTWRITEBYTECODE='1')
    t = sh('cd %s && PYTHONPATH=%s/src %s -m pytest -q -p no:cacheprovider --timeout=900 --continue-on-collection-errors 2>&1 | tail -1' % (wt, wt, PY), env=env).stdout.strip()
    with_ = subprocess.run([PY, os.path.join(d, 'demo.py')], env=dict(env, TALLY_SRC=wt + '/src'), stdout=subprocess.PIPE, stderr=subprocess.STDOUT, text=True)
    without = subprocess.run([PY, os.path.join(d, 'demo.py')], env=dict(env, TALLY_SRC='/repo/src'), stdout=subprocess.PIPE, stderr=subprocess.STDOUT, text=True)
    ok = '701 passed' in t and with_.returncode != 0 and without.returncode == 0
    meta_p = os.path.join(d, 'meta.json')
    meta = json.load(open(meta_p)) if os.path.exists(meta_p) else {}
    meta['verified_by_me'] = {'tests_with_change': t, 'demo_rc_with_change': with_.returncode, 'demo_rc_on_repo': without.returncode,
                              'demo_tail_with_change': with_.stdout.strip().splitlines()[-1:] if with_.stdout.strip() else []}
    json.dump(meta, open(meta_p, 'w'), indent=1)
    print(name, 'VERIFIED' if ok else 'NOT-VERIFIED', t, 'demo with=%d without=%d' % (with_.returncode, without.returncode))
    return ok


def run_copy(name, props, tier='quick'):
    """Like run(), but on a scratch worktree of /repo (VERIF_REPO) with evidence redirected (VERIF_OUT): does not touch
    /repo's working tree, so it can run while other checks are using /repo."""
    d = os.path.join(ROOT, 'seeded', name)
    props = props or [re.match(r'C\d+', name).group(0)]
    wt = os.environ.get('SEEDRUN_DIR', '/tmp/seedrun') + '/' + name
    sh('rm -rf %s; git -C /repo worktree prune' % wt)
    r = sh('mkdir -p %s && git -C /repo worktree add --detach %s HEAD' % (os.path.dirname(wt), wt))
    assert r.returncode == 0, r.stdout
    res = {}
    try:
        r = sh('git -C %s apply %s' % (wt, os.path.join(d, 'patch.diff')))
        assert r.returncode == 0, r.stdout
        for p in props:
            out = sh('%s/check %s --tier %s' % (ROOT, p, tier), cwd=ROOT,
                     env=dict(os.environ, VERIF_SEED='1', VERIF_REPO=wt, VERIF_OUT=wt + '.out'))
            viol = [l for l in out.stdout.splitlines() if l.startswith('VIOLATION')]
            what = [l.strip() for l in out.stdout.splitlines() if l.strip().startswith('what:')][:2]
            res[p] = {'exit': out.returncode, 'violations': len(viol), 'first': what}
            print(name, p, 'exit', out.returncode, 'VIOLATION lines', len(viol), what[:1])
            if out.returncode == 2:
                print(out.stdout[-1500:])
    finally:
        sh('git -C /repo worktree remove --force %s; rm -rf %s.out' % (wt, wt))
    meta_p = os.path.join(d, 'meta.json')
    meta = json.load(open(meta_p)) if os.path.exists(meta_p) else {}
    meta.setdefault('checks_run', {}).update(res)
    json.dump(meta, open(meta_p, 'w'), indent=1)


def run(name, props):
    d = os.path.join(ROOT, 'seeded', name)
    props = props or [re.match(r'C\d+', name).group(0)]
    assert sh('git -C /repo status --porcelain --untracked-files=no').stdout.strip() == '', '/repo has local changes'
    r = sh('git -C /repo apply %s' % os.path.join(d, 'patch.diff'))
    assert r.returncode == 0, r.stdout
    res = {}
    try:
        for p in props:
            out = sh('%s/check %s --tier quick' % (ROOT, p), cwd=ROOT, env=dict(os.environ, VERIF_SEED='1'))
            viol = [l for l in out.stdout.splitlines() if l.startswith('VIOLATION')]
            what = [l.strip() for l in out.stdout.splitlines() if l.strip().startswith('what:')][:2]
            res[p] = {'exit': out.returncode, 'violations': len(viol), 'first': what}
            print(name, p, 'exit', out.returncode, 'VIOLATION lines', len(viol), what[:1])
    finally:
        sh('git -C /repo checkout -- .')
        sh('rm -f %s/replays/*.json' % ROOT)
    meta_p = os.path.join(d, 'meta.json')
    meta = json.load(open(meta_p)) if os.path.exists(meta_p) else {}
    meta.setdefault('checks_run', {}).update(res)
    json.dump(meta, open(meta_p, 'w'), indent=1)


if __name__ == '__main__':
    cmd = sys.argv[1]
    if cmd == 'collect':
        collect(*sys.argv[2:])
    elif cmd == 'verify':
        sys.exit(0 if verify(*sys.argv[2:]) else 1)
    elif cmd == 'run':
        run(sys.argv[2], sys.argv[3:])
    elif cmd == 'runcopy':
        run_copy(sys.argv[2], sys.argv[3:])
