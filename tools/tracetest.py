#!/usr/bin/env python3
"""Run ONE family of a check against a seeded change on a scratch worktree (development aid):
   tools/tracetest.py <seed-name> <python expression over ck, e.g. "engine_tracecheck.run(ck,'c02',400)">"""
import os, subprocess, sys
ROOT = os.path.dirname(os.path.dirname(os.path.abspath(__file__)))
name, expr = sys.argv[1], sys.argv[2]
wt = '/tmp/tracetest/' + name
subprocess.run('rm -rf %s; git -C /repo worktree prune; mkdir -p /tmp/tracetest; git -C /repo worktree add --detach %s HEAD -q' % (wt, wt), shell=True, check=True)
try:
    if name != 'clean':
        subprocess.run('git -C %s apply %s/seeded/%s/patch.diff' % (wt, ROOT, name), shell=True, check=True)
    code = '''
import sys, os
sys.path.insert(0, %r)
import core
core.setup_repo_import()
from props import *
import importlib
for m in ('engine_tracecheck','c05','c10','c17','c18','c19','c14','c12','c11','c16'):
    try: globals()[m] = importlib.import_module('props.' + m)
    except Exception as e: pass
ck = core.Check('T00', 'quick', int(os.environ.get('VERIF_SEED', '1')))
%s
print('violations', len(ck.violations), 'extra', {k: v for k, v in ck.extra.items() if k.startswith('trace')})
''' % (os.path.join(ROOT, 'harness'), expr)
    env = dict(os.environ, VERIF_REPO=wt, VERIF_OUT=wt + '.out', PYTHONDONTWRITEBYTECODE='1', PYTHONHASHSEED='0')
    subprocess.run(['/venv/bin/python', '-c', code], env=env, cwd=ROOT)
finally:
    subprocess.run('git -C /repo worktree remove --force %s; rm -rf %s.out' % (wt, wt), shell=True)
