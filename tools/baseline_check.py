#!/usr/bin/env python3
"""Runs the repository's baseline (guard off) and compares the passing set with /root/.vp/BASELINE.json stable_pass."""
import json, os, subprocess, sys, tempfile
import xml.etree.ElementTree as ET
base = json.load(open('/root/.vp/BASELINE.json'))
fd, xml = tempfile.mkstemp(suffix='.xml'); os.close(fd)
env = {k: v for k, v in os.environ.items() if not k.startswith('TALLY_VERIF')}
env['PYTHONDONTWRITEBYTECODE'] = '1'
subprocess.run(['/venv/bin/python', '-m', 'pytest', '-ra', '-q', '-p', 'no:cacheprovider', '--timeout=900', '--continue-on-collection-errors',
                '--junitxml=' + xml], cwd='/repo', env=env, stdout=subprocess.DEVNULL, stderr=subprocess.DEVNULL)
passed = set()
for tc in ET.parse(xml).getroot().iter('testcase'):
    if not any(ch.tag in ('failure', 'error', 'skipped') for ch in tc):
        passed.add('%s::%s' % (tc.get('classname'), tc.get('name')))
os.unlink(xml)
want = set(base['stable_pass'])
missing = sorted(want - passed)
print('baseline stable_pass: %d, passing now: %d, stable tests no longer passing: %d' % (len(want), len(passed & want), len(missing)))
for m in missing[:20]:
    print('  MISSING', m)
sys.exit(1 if missing else 0)
