#!/usr/bin/env python3
"""dev helper: run TLC on module/cfg pairs, print a one-line summary and a short error excerpt"""
import re, sys
import os; sys.path.insert(0, os.path.join(os.path.dirname(os.path.dirname(os.path.abspath(__file__))), 'harness'))
import tlc
mod = sys.argv[1]
for c in sys.argv[2:]:
    r = tlc.run(mod, c, timeout=3000)
    print(c, 'ok' if r.ok else 'FAIL', 'violated=%s' % r.violated, 'distinct=%d' % r.distinct, '%.1fs' % r.wall)
    if r.error:
        lines = r.stdout.splitlines()
        idx = [i for i, l in enumerate(lines) if re.search(r'rror|conflicts|requires|Unknown operator|line \d+, col', l)]
        seen = set()
        out = []
        for i in idx:
            for j in range(i, min(i + 3, len(lines))):
                if j not in seen and lines[j].strip():
                    seen.add(j); out.append(lines[j])
        print('\n'.join(out[:12]))
        break
