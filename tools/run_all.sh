#!/bin/sh
# runs every registered quick (or $1 = thorough) check in sequence; prints one line per check
cd "$(dirname "$0")/.."
tier=${1:-quick}
rc=0
for p in C01 C02 C03 C04 C05 C06 C07 C08 C09 C10 C11 C12 C13 C14 C15 C16 C17 C18 C19 C20; do
  out=$(./check $p --tier $tier 2>&1); code=$?
  echo "$out" | grep -E "^(VIOLATION|KNOWN-FINDING|MACHINERY)" | head -3
  echo "$out" | tail -1
  [ $code -ne 0 ] && { echo "  -> exit $code"; rc=1; }
done
exit $rc
