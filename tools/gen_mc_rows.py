#!/usr/bin/env python3
import os, sys
ROOT = os.path.dirname(os.path.dirname(os.path.abspath(__file__)))
sys.path.insert(0, os.path.join(ROOT, 'harness'))
import rows_conc
open(os.path.join(ROOT, 'spec', 'MC_RowsData.tla'), 'w').write(
    '---------------------------- MODULE MC_RowsData ----------------------------\n'
    '(* GENERATED from harness/rows_conc.py (tools/gen_mc_rows.py): the cell vocabulary of the C05 universe *)\n'
    'EXTENDS Integers\n\n' + rows_conc.tla_vocab() +
    '\n=============================================================================\n')
