#!/usr/bin/env python3
"""Regenerates /verif/MANIFEST.json from the table below (single place to edit)."""
import json
import os

ROOT = os.path.dirname(os.path.dirname(os.path.abspath(__file__)))
BASELINE = ("cd /repo && env -u TALLY_VERIF /venv/bin/python -m pytest -q -p no:cacheprovider --timeout=900 "
            "--continue-on-collection-errors")

CHECKS = {
    'C06': dict(
        technique='TLA+ spec Totals.tla: TLC checks conservation/marginal/order-independence invariants on the fold; '
                  'every reachable state replayed into analyze_transactions; recorded runs validated by Trace_Totals.tla; the same laws as an '
                  'inductive invariant over unbounded integer amounts discharged by Apalache (Totals_Ind.tla, model level)',
        text='TLC exhausts every transaction list up to the bound over an alphabet containing every bucket, sign, tag-case '
             'and precedence conflict and checks the C06 laws in each state; each state is replayed into the real '
             'analyze_transactions in three orders, and thousands of independently generated runs are validated by the '
             'trace spec (with a tamper control).',
        note='amount arithmetic trusted only on exactly representable amounts (quarters / cents); TLC, the dump parser and '
             'the projection of stats onto the accumulator are trusted',
        design='§4 C06'),
    'C13': dict(
        technique='TLA+ spec Totals.tla (MC_Classify): one TLC state per (amount, tag list); both classification.py and the '
                  'JS block run under node are compared with the spec value; recorded runs validated by Trace_Totals.tla',
        text='The classification function is specified once in TLA+; TLC enumerates all amounts x tag lists of the universe '
             'and checks the laws; both implementations are executed on every exported case and on random recorded cases, '
             'each compared with the spec and with each other.',
        note='node v20 stands in for the browser; only the classification block of spending_report.js is executed',
        design='§4 C13'),
}

CHECKS['C07'] = dict(
    technique='TLA+ spec Process.tla (process-wide caches as a state machine): TLC checks HistoryIndependent/CacheCoherent on the '
              'intended protocol and refutes the pinned and by-path protocols; TLC-simulated behaviours are executed in one real '
              'interpreter each and compared with fresh-process references; random histories and a deterministic edit-and-reload '
              'family (every ordered pair of rule-file contents on the same path, loads in the order the commands use) validated by '
              'Trace_Process.tla; a long-lived engine object (ObjParse / ObjMatch, negative config staleaux) covers parse() called again '
              'on the same MerchantEngine',
    text='The cache protocol of get_all_rules/normalize_merchant/parse_expression is an explicit state machine; TLC exhausts it '
         'and generates operation sequences which are replayed into the real code, every classification being compared with the '
         'same call made in a freshly forked interpreter; recorded random histories are validated by the trace spec.',
    note='rule semantics uninterpreted in the model; a fixed concrete world of rule files/transactions (two pairs that agree in '
         'description/amount/date/source/location and differ in captured columns resp. supplemental data)/expressions chosen to make '
         'stale state visible; fork() of a parent that has only imported tally is taken as a fresh process',
    design='§4 C07')

CHECKS['C15'] = dict(
    technique='TLA+ spec BudgetFS.tla: migrations as sequences of atomic file-system effects with Crash, torn-write, Fault and '
              'Rerun actions; TLC checks NoContentLost / NeverEmptyWhileRulesExist / DoneSame on the repaired protocol and refutes '
              'the pinned step order; the real CLI is interrupted at every effect (kill, torn write, OSError) under a harness-side '
              'shim and the resulting trees + tally up classifications are validated by Trace_BudgetFS.tla',
    category='model_checking',
    text='Every prefix of every migration\'s effect sequence, with every single fault and torn write, is enumerated on the model by '
         'TLC and on the real CLI by fault injection; the invariants are evaluated by TLC on the abstracted real outcomes.',
    note='crash = kill after an effect the process completed (no fsync/reordering model), writes and file copies can be torn; fixed '
         'concrete budget classes, some under paths with blanks and metacharacters; the shim counts open/write/close/move/copy/'
         'mkdir/rename effects under the budget directory; for `tally init` interruption points stop at the last migration step',
    design='§4 C15')
CHECKS['C20'] = dict(
    technique='TLA+ spec Commands.tla: every command as an action on the budget directory; TLC checks the frame properties over '
              'all histories of <= 3 commands from every initial budget class; TLC-simulated and random histories are executed with '
              'the real CLI, compared byte-wise with the frame rules and validated (incl. predicted successor state) by '
              'Trace_Commands.tla',
    text='The write-set of every command is specified; TLC explores all short histories; hundreds of histories run against the real '
         'CLI with content hashes of every file checked after each command and the abstract tree compared with the spec\'s prediction.',
    note='budgets in both folder layouts, LF and CRLF user files, paths with metacharacters, the config directory addressed in six ways (found, relative with '
         'trailing separator, ./relative, absolute, "." from inside, TALLY_CONFIG); fixed concrete contents per content '
         'class; non-interactive runs',
    design='§4 C20')

_ENGINE_NOTE = ('atom truth fixed by construction of the concrete transaction; TLC, the dump parser and the concretiser are trusted; '
                'bounded to <= 2-3 rules per file and the listed condition shapes')
CHECKS['C01'] = dict(
    technique='TLA+ spec Engine.tla (three-valued conditions, globals, lets, first_match selection): TLC checks '
              'NonMatchingIrrelevant / LaterRulesIrrelevant / LetIsLocal on every file x transaction of the bounded universe; every '
              'state is concretised to .rules / CSV text and replayed through parse_merchants.match, get_all_rules+normalize_merchant '
              'and the legacy CSV loop; code -> spec: random rule files over the full concrete grammar (and legacy CSV rule files whose rule truth the harness decides itself) recorded from the real engine and validated by Trace_Engine.tla with the selection / tag-union operators of Engine.tla (tamper control)',
    text='Exhaustive within bounds: every rule file of the universe against every transaction; the spec value is compared with three '
         'real code paths on merchant, category, subcategory and winning rule; about 30 000 recorded classifications of random files are '
         'validated by the trace spec.',
    note=_ENGINE_NOTE, design='§4 C01')
CHECKS['C02'] = dict(
    technique='TLA+ spec Engine.tla (tag union, dynamic tags, TagOnlyNeutral in both modes) checked by TLC; every state replayed into '
              'the real engine paths; every category-less rule is also deleted from the real file (metamorphic) and the '
              'classification must not move; code -> spec: random rule files over the full concrete grammar (and legacy CSV rule files whose rule truth the harness decides itself) recorded from the real engine and validated by Trace_Engine.tla with the selection / tag-union operators of Engine.tla (tamper control)',
    text='Exhaustive within bounds in both rule modes; tag sets compared with the spec union on every path and tag-only rules shown '
         'neutral on the real code.',
    note=_ENGINE_NOTE, design='§4 C02')
CHECKS['C09'] = dict(
    technique='TLA+ spec Engine.tla MostSpecific + MC_Specific.tla (one rule shape per adjacent inversion of the lexicographic '
              'ranking, all orders): TLC checks OrderIndependent / WinnerIsMaximal / TagsOrderIndependent; every state replayed into '
              'parse_merchants(mode).match and get_all_rules(mode)+normalize_merchant; code -> spec: random most_specific rule files over the full concrete grammar (ranking tuple computed from the structure of each rule; every file also reversed and shuffled) recorded from the real engine and validated by Trace_Engine.tla (tamper control)',
    text='Exhaustive within bounds over rule files whose rules differ in each ranking component, in every order, with ties; winner, '
         'category, subcategory and subcategory-winner compared with the spec.',
    note=_ENGINE_NOTE + '; literals are keyword-free so textual and structural constraint counting coincide', design='§4 C09')

CHECKS['C03'] = dict(
    technique='TLA+ spec Confine.tla (whitelist of node kinds; table of access shape x receiver class x attribute class -> permitted '
              'outcome) checked by TLC; every state concretised with all real attribute names of the Python types involved and run '
              'through parse_expression / evaluate_transaction / evaluate_filter under an audit hook; escape payloads and splices',
    text='The access table is exhaustively enumerated by TLC and exhaustively concretised (every dir() name on every receiver the '
         'language can build, every node kind); observed outcome classes must lie in the set the spec allows and every value, string, '
         'audit event and mutation is checked directly.',
    note='confinement is observed via sys.addaudithook events, result types, repr leaks in strings and deep equality of inputs; CPython '
         '3.12 audit events are trusted to cover file/process/network/code-object creation',
    design='§4 C03')
CHECKS['C04'] = dict(
    technique='TLA+ reference semantics Expr.tla (+Text.tla, Regex.tla): TLC checks the C04 rewriting laws (double negation, De Morgan, '
              'commutation, chain = conjunction, == is not !=, short circuit, /0 %0, case-insensitivity) on every expression of the bounded '
              'universe; each state is printed to source and evaluated by the real evaluator (every third evaluation after "poison" '
              'evaluations that bind the names other expressions read); recorded evaluations of repository and random expressions '
              'are validated by Trace_Expr.tla; the equality law is also replayed on the real code with floats that carry rounding noise',
    text='An executable reference semantics of the expression language in TLA+; exhaustive at depth 1 (all environments) and depth 2 '
         '(sampled replay), and trace validation of thousands of independently generated expressions with every value compared.',
    note='ASCII-cased text, small rationals, the regex fragment of Regex.tla; constructs the spec does not define are counted as skipped',
    design='§4 C04')
CHECKS['C08'] = dict(
    technique='TLA+ specs Expr.tla (outcome Err for ill-typed / partial expressions; MC_Expr ill-typed universe) and Engine.tla '
              '(ErrorIsAbsence) checked by TLC and replayed; 54 failing expressions placed in every position of a rule file (and failing '
              'view filters with view-local variables in a views file) and '
              'compared with the file without them on three classification paths; type-confused random expressions validated by '
              'Trace_Expr.tla; tally up on two-source budgets; random rule files with failing expressions in every position validated by '
              'Trace_Engine.tla and random views files with failing declarations validated by Trace_Views.tla',
    text='Every way an accepted expression can fail is enumerated in the model and concretely; the real engine must complete and give '
         'exactly the result of the file without the failing element.',
    note='"accepted" = the loader does not reject the text; reference outcome = real run without the failing element',
    design='§4 C08')

CHECKS['C05'] = dict(
    technique='TLA+ spec Rows.tla (row -> at most one transaction; cell vocabulary with known reading per decimal convention): TLC checks '
              'OnePerGoodRow / RowLocal / BadRowsIrrelevant / SignLaw / NegateIsMirror / HeaderSkipsExactlyOne on every table of the bounded '
              'universe; every state is rendered to CSV bytes (delimiter, quoting, line ending varied) and read by parse_format_string + '
              'parse_generic_csv; code -> spec: random tables / layouts / settings read by the real code, the cells of the file abstracted from the '
              'own csv reading of the harness, validated by Trace_Rows.tla (Rows!Parse must give the observed transactions; tamper control); conformance information only: '
              'LegacyParsers.tla / Trace_LegacyParsers.tla for the deprecated parse_amex / parse_boa readers',
    text='Exhaustive within bounds: each vocabulary cell (every malformation named in the property) in each position, every layout, sign '
         'mode, decimal convention and header setting; the real parser output is compared field by field with the spec.',
    note='cell vocabulary restricted to texts whose reading the statement fixes; location compared only when the column is filled',
    design='§4 C05')
CHECKS['C18'] = dict(
    technique='TLA+ spec Format.tla (ParseFormat, DetectHeaders, Suggest): TLC checks PositionBijection / Rejects* / SuggestRoundTrips on '
              'every token sequence and header row up to the width bound; every state replayed into parse_format_string, '
              'auto_detect_csv_format and tally inspect; code -> spec: random concrete format strings (tokenised by the harness) and the '
              'suggestions of inspect on real-world header wordings, validated by Trace_Format.tla (tamper control)',
    text='Exhaustive up to width 4 (quick) / 5 (thorough): every arrangement of tokens and every header row; accepted/rejected, columns, date '
         'format and sign mode compared; inspect\'s printed suggestion re-parsed and compared with its own report.',
    note='date formats without commas; header texts from a vocabulary with known detection classes',
    design='§4 C18')

CHECKS['C17'] = dict(
    technique='TLA+ spec RulesFile.tla (both line-oriented readers as state machines over line tokens; the intended reader rejects, never '
              'trims): TLC checks CommentsIrrelevant / PropOrderIrrelevant / OneRulePerSection / ExactProps / RejectNotTrim on valid base '
              'files and every single (views: double) edit of them; every state rendered with random layout (indentation, trailing blanks, '
              'CRLF, key case) and read by parse_merchants / parse_sections; tally up / diag on corrupt files; code -> spec: the own files of tally, '
              'random rule and views files, edited and corrupted at the text level, tokenised by a line tokeniser of the harness and validated by '
              'Trace_RulesFile.tla (RulesFile!Result must equal what the real reader returned; tamper control)',
    text='Every single-point corruption and layout-preserving edit of the base files is enumerated by TLC; rules read, or the error line, '
         'are compared with the specification; the command line must report an unloadable rules file.',
    note='one token per line; duplicate single-valued properties not generated; any corrupted line is accepted as the reported line',
    design='§4 C17')

CHECKS['C10'] = dict(
    technique='TLA+ spec Views.tla (the view-filter language over one merchant: months, total, exact cv via its square, tags, payments, '
              'by()/period()/aggregates with auto-mapping, global and local variables, error => not a member): TLC checks ViewsIndependent / '
              'ExcludedNowhere / NegationPartitions and exports the membership matrix of every views file of the bounded universe; each is '
              'replayed through parse_sections + analyze_transactions + classify_by_sections + compute_section_totals; code -> spec: random '
              'merchants and views files through the real code, validated by Trace_Views.tla (Views!MemberOf per view and merchant; tamper control)',
    text='Exhaustive within bounds: every filter of the universe against every merchant; membership and view totals compared with the spec; '
         'independence additionally checked on the real code over all orders and sub-files of random 3-view files.',
    note='fixed set of 13 merchants in the exhaustive universe, random ones in the trace family; stddev(), by("week"), exact cv ties and number-vs-list readings of `payments` are not judged',
    design='§4 C10')

CHECKS['C14'] = dict(
    technique='TLA+ specs Regex.tla + Legacy.tla: CSV rule semantics (pattern search on the upper-cased description, amount/date/month '
              'modifiers) and the intended conversion into the expression language; TLC checks MigrationPreserves (converted rule '
              'evaluated by Expr!Eval matches exactly what the CSV rule matches) and exports CSV classifications; every rule file of the '
              'universe goes through the legacy loop, csv_to_merchants_content + parse_merchants and load_csv_as_engine; Regex.tla is '
              'validated against Python re; arbitrary patterns compared by match bit; the real tally up --migrate',
    text='Exhaustive within bounds over pattern x modifier x profile rule files against 80 boundary transactions, three real pipelines '
         'compared with the spec and with each other; random rules outside the regex fragment compared pipeline against pipeline.',
    note='pattern meaning only inside the Regex.tla fragment; relative-date rules are a recorded known finding (KF-C14-1)',
    design='§4 C14')

CHECKS['C19'] = dict(
    technique='TLA+ spec Discover.tla (suggest_pattern over word shapes; the discover -> append -> rerun loop): TLC checks Closure, '
              'StrictlyShrinks and termination (<>(unknown = {}) under weak fairness) for the repaired protocol and refutes the pinned one; '
              'every description shape of the state space is concretised and pushed through the suggestion functions and '
              'parse_merchants.match, and batches through the real tally discover / tally up; Journey.tla (init -> configure sources -> '
              'discover rounds, as `tally workflow` advises; progress and <>done under weak fairness) is simulated by TLC and each '
              'behaviour replayed with the real CLI',
    text='Every description of up to 4 words over 9 word shapes; the suggested rule must load and match its own description; the real '
         'command loop must leave nothing Unknown after one round.',
    note='word shapes with a handful of concrete spellings each; no field transforms in the budgets',
    design='§4 C19')

CHECKS['C12'] = dict(
    technique='TLA+ spec Report.tla (template assembly as chunk substitution that re-scans inserted content; script-element termination; '
              'merchant-id function): TLC checks RoundTrip and EachMerchantOnce for the repaired assembly / id scheme and refutes the pinned '
              'ones; every state (description atoms x merchant-name shapes) is rendered by the real four formats from analyze_transactions '
              'output, the HTML decoded with html.parser + json and compared with the analysed data and figures',
    text='Exhaustive over descriptions of <= 3 hostile text atoms and all pairs of colliding merchant-name shapes; every merchant and '
         'transaction must decode exactly once and all formats must report the analysed figures.',
    note='no browser: html.parser stands in for the HTML tokenizer; figures compared at printed precision',
    design='§4 C12')

CHECKS['C11'] = dict(
    technique='TLA+ spec Pipeline.tla: tally up as the composition Totals(Classify(Parse(sources))) built from Rows!Parse, Engine!Classify and '
              'the bucket function; MC_Pipeline explores budgets by single-setting steps and TLC checks OtherSourcesUntouched / '
              'MissingIsolated / SupplementalNeverCounted / FlowsConserve; TLC -simulate walks are materialised as real budget directories and '
              'run through the real `tally up`, the HTML data decoded and compared per transaction and per flow with Pipeline!Report; '
              'Config.tla specifies load_config (rule mode, rule file resolution, views, currency, year, output path, warnings) and '
              '`tally diag`: all 2304 settings records of MC_Config are materialised and compared with the real load_config / diag; an '
              'exhaustive TLC dump of two-source budgets with identical format strings (MC_Pipeline_pairs) is replayed completely',
    text='The composition is specified from the component specs; every budget on TLC-generated walks (each step one setting change) is run '
         'through the real CLI in a fresh process and compared with the specified report and with its predecessor on the walk; every '
         'settings record of Config.tla is checked against the real loader.',
    note='fixed rule set and statement tables; budgets differ in settings; rule_mode applies to .rules files only',
    design='§4 C11')
CHECKS['C16'] = dict(
    technique='TLA+ spec Pipeline.tla (Explain and Discover defined FROM the classification of up): the budgets of TLC -simulate walks over '
              'MC_Pipeline are materialised with a rules file that stresses the re-implementations; real `tally up`, `tally explain <merchant>`, '
              '`tally explain "<description>" --amount`, `tally discover` are compared with each other and with Pipeline!Explain / the Unknown '
              'part of Pipeline!Report',
    text='Three commands are run on every budget of the walks; explain must report what the spec (and up) assign, discover must list exactly '
         'the Unknown transactions with counts and totals.',
    note='descriptions probed by explain occur in no statement; budgets share the Pipeline universe',
    design='§4 C16')

NOT_YET = {}


def main():
    props = [json.loads(l) for l in open(os.path.join(ROOT, 'properties.jsonl'))]
    checks = []
    na = []
    for p in props:
        pid = p['id']
        if pid in CHECKS:
            c = CHECKS[pid]
            checks.append({
                'property_id': pid,
                'quick_cmd': './check %s --tier quick' % pid,
                'thorough_cmd': './check %s --tier thorough' % pid,
                'evidence_file': 'evidence/%s.json' % pid,
                'replay_cmd_template': './check %s --replay {path}' % pid,
                'engine': 'tlc',
                'level_claimed': {'category': c.get('category', 'model_checking'), 'text': c['text'],
                                  'design_ref': c['design']},
                'level_note': c['note'],
                'technique': c['technique'],
            })
        else:
            na.append({'property_id': pid,
                       'reason': NOT_YET.get(pid, 'not claimed yet: the TLA+ module and conformance harness for this '
                                                  'property are not built at this commit (see DESIGN.md §6 build order)')})
    man = {
        'version': 1,
        'setup_cmd': './setup.sh',
        'hooks': {
            'guard': 'TALLY_VERIF',
            'enable': 'no in-repo hooks: observation is through public entry points and a harness-side sitecustomize '
                      '(/verif/shim, active only with TALLY_VERIF=1); checks import tally from /repo/src directly',
            'baseline_off_cmd': BASELINE,
            'source_commits': [],
            'add_only': True,
        },
        'engines': [{'name': 'tlc', 'path': '/opt/veriftools/tla/tla2tools.jar',
                     'serves_properties': sorted(CHECKS),
                     'kind_free_text': 'explicit TLA+ specification (spec/*.tla) model-checked by TLC; dump/simulate '
                                       'states replayed into the code; recorded executions validated by Trace_* specs'},
                    {'name': 'apalache', 'path': '/opt/veriftools/apalache',
                     'serves_properties': ['C06'],
                     'kind_free_text': 'symbolic model checker for TLA+: discharges the inductive invariant of spec/Totals_Ind.tla (conservation '
                                       'and agreement of the marginals for unbounded integer amounts); model level only, the verdict of C06 comes '
                                       'from TLC + replay + trace validation; skipped (and said so in the evidence) when not installed'}],
        'checks': checks,
        'not_applicable': na,
        'notes': 'exit 0 = held; exit 1 + VIOLATION line = a behaviour of the real code breaks the property; exit 2 = '
                 'machinery failure (never a verdict). Known findings: known_findings.json.',
    }
    with open(os.path.join(ROOT, 'MANIFEST.json'), 'w') as f:
        json.dump(man, f, indent=1)
    print('MANIFEST.json: %d checks, %d not claimed' % (len(checks), len(na)))


if __name__ == '__main__':
    main()
