#!/usr/bin/env python3
"""Prepares one round of seeded-change collection under /tmp/seed:
  /tmp/seed/<ID>            scratch git worktree of /repo (HEAD) for the agent working on property <ID>
  /tmp/seed/<ID>.prop.txt   the property text (all the agent is given about the property)
  /tmp/seed/<ID>.avoid.txt  what the earlier seeded changes for <ID> did (from seeded/<ID>*/meta.json): not to be repeated
  /tmp/seed/pristine/src    untouched export of the sources
  /tmp/seed/INSTRUCTIONS.txt
Nothing of /verif other than these texts is given to the agents.  Remove with:
  for each ID: git -C /repo worktree remove --force /tmp/seed/<ID>;  rm -rf /tmp/seed;  git -C /repo worktree prune"""
import glob
import json
import os
import shutil
import subprocess
import sys

ROOT = os.path.dirname(os.path.dirname(os.path.abspath(__file__)))
BASE = '/tmp/seed'


def main():
    ids = sys.argv[1:] or ['C%02d' % i for i in range(1, 21)]
    os.makedirs(BASE, exist_ok=True)
    props = {}
    for line in open(os.path.join(ROOT, 'properties.jsonl')):
        p = json.loads(line)
        props[p['id']] = p
    shutil.copy(os.path.join(ROOT, 'tools', 'seed_instructions.txt'), os.path.join(BASE, 'INSTRUCTIONS.txt'))
    pristine = os.path.join(BASE, 'pristine')
    if not os.path.isdir(pristine):
        os.makedirs(pristine)
        tar = subprocess.run(['git', '-C', '/repo', 'archive', 'HEAD', 'src'], stdout=subprocess.PIPE, check=True).stdout
        subprocess.run(['tar', '-x', '-C', pristine], input=tar, check=True)
    for pid in ids:
        wt = os.path.join(BASE, pid)
        if not os.path.isdir(wt):
            subprocess.run(['git', '-C', '/repo', 'worktree', 'add', '--detach', wt, 'HEAD'], check=True, stdout=subprocess.DEVNULL)
        p = props[pid]
        with open(os.path.join(BASE, pid + '.prop.txt'), 'w') as f:
            f.write('%s: %s\n\n%s\n\nQuantifier: %s\n\nAnchor files: %s\nMechanisms:\n' % (
                pid, p['title'], p['statement'], p['quantifier']['text'], ', '.join(p['anchors']['files'])))
            for m in p['anchors']['mechanism']:
                f.write('  - %s (%s)\n' % (m['name'], m['where']))
            f.write('Observe at: %s\n' % '; '.join(p['anchors'].get('observe_at') or []))
        with open(os.path.join(BASE, pid + '.avoid.txt'), 'w') as f:
            f.write('Changes other people already made for %s (yours must be different from all of them):\n\n' % pid)
            for d in sorted(glob.glob(os.path.join(ROOT, 'seeded', pid + '*'))):
                mp = os.path.join(d, 'meta.json')
                if not os.path.exists(mp):
                    continue
                m = json.load(open(mp))
                f.write('- files %s: %s\n  needed to trigger: %s\n\n' % (', '.join(m.get('files') or []), m.get('summary', ''), m.get('needs', '')))
    print('prepared', len(ids), 'worktrees under', BASE)


if __name__ == '__main__':
    main()
