"""Harness-side file-system tracer / fault injector for tally CLI subprocesses.

Active only when TALLY_VERIF=1 (the harness puts /verif/shim on PYTHONPATH; nothing in /repo is changed).

Environment:
  TALLY_VERIF_ROOT      only effects on paths under this directory are counted / logged
  TALLY_VERIF_LOG       ndjson effect log (must lie outside ROOT)
  TALLY_VERIF_CRASH_AT  k : os._exit(77) right after the k-th effect has been performed
  TALLY_VERIF_TORN      f in [0,1): when the crashing effect is a flush / close (or a file copy), only that fraction of the data reaches the disk
  TALLY_VERIF_FAULT_AT  k : the k-th effect raises OSError(EIO) instead of being performed

An "effect" is one externally visible mutation of the file system, at the granularity the code performs it:
  open-w / open-a / open-x (create or truncate), write (one f.write call: the data is BUFFERED, as Python does, and reaches the
  disk with the next flush / close of that file - each an effect of its own, which can be torn), move, mkdir, rename, remove,
  copy, rmtree.
"""
import os
import sys

if os.environ.get('TALLY_VERIF') == '1' and os.environ.get('TALLY_VERIF_ROOT'):
    import builtins
    import errno
    import io
    import json
    import shutil

    _ROOT = os.path.realpath(os.environ['TALLY_VERIF_ROOT'])
    _LOGPATH = os.environ.get('TALLY_VERIF_LOG')
    _CRASH_AT = int(os.environ.get('TALLY_VERIF_CRASH_AT', '0') or 0)
    _FAULT_AT = int(os.environ.get('TALLY_VERIF_FAULT_AT', '0') or 0)
    _TORN = float(os.environ.get('TALLY_VERIF_TORN', '1') or 1)
    _real_open = io.open
    _state = {'k': 0, 'nest': 0}

    def _under_root(path):
        try:
            p = os.path.realpath(os.fspath(path))
        except TypeError:
            return False
        return p == _ROOT or p.startswith(_ROOT + os.sep)

    def _rel(path):
        p = os.path.realpath(os.fspath(path))
        return os.path.relpath(p, _ROOT)

    def _log(rec):
        if _LOGPATH:
            with _real_open(_LOGPATH, 'a', encoding='utf-8') as f:
                f.write(json.dumps(rec) + '\n')

    def _before(kind, path, **extra):
        """Count the effect; raise the injected fault if this is the one.  Returns the effect number."""
        _state['k'] += 1
        k = _state['k']
        if _FAULT_AT == k:
            _log(dict(k=k, kind=kind, path=_rel(path), fault=True, **extra))
            raise OSError(errno.EIO, 'injected I/O error (effect %d: %s)' % (k, kind), os.fspath(path))
        return k

    def _after(k, kind, path, **extra):
        _log(dict(k=k, kind=kind, path=_rel(path), **extra))
        if _CRASH_AT == k:
            _log(dict(k=k, crash=True))
            os._exit(77)

    class _TracedFile:
        """A file opened for writing under ROOT.  Python buffers what a program writes until the file is flushed or closed;
        a killed process loses what it had not flushed.  The shim makes that deterministic: data handed to write() is held
        HERE and reaches the disk at flush() / close() (one effect each, which may be torn: only a prefix arrives).  A kill
        right after a write() therefore leaves the disk as it was before that write - which is what happens to a real process
        for anything smaller than its buffer."""

        def __init__(self, f, path):
            object.__setattr__(self, '_f', f)
            object.__setattr__(self, '_path', path)
            object.__setattr__(self, '_closed', False)
            object.__setattr__(self, '_pending', [])

        def __getattr__(self, name):
            if name in ('seek', 'tell', 'read', 'readline', 'readlines', 'truncate', 'fileno', 'detach', 'buffer'):
                self._drain()
            return getattr(self._f, name)

        def __setattr__(self, name, value):
            setattr(self._f, name, value)

        def __enter__(self):
            return self

        def __exit__(self, *a):
            self.close()
            return False

        def __iter__(self):
            return iter(self._f)

        def _drain(self, upto=None):
            """Hand the held data (or a prefix of it) to the real file."""
            if not self._pending:
                return 0
            data = self._pending[0][:0].join(self._pending)
            del self._pending[:]
            if upto is not None:
                data = data[:upto]
            self._f.write(data)
            return len(data)

        def _held(self):
            return sum(len(x) for x in self._pending)

        def write(self, data):
            k = _before('write', self._path, n=len(data))
            self._pending.append(data)
            _after(k, 'write', self._path, n=len(data), buffered=True)
            return len(data)

        def writelines(self, lines):
            for line in lines:
                self.write(line)

        def _sync(self, kind):
            n = self._held()
            k = _before(kind, self._path, n=n)
            if _CRASH_AT == k and _TORN < 1 and n:
                cut = int(n * _TORN)
                self._drain(cut)
                self._f.flush()
                _log(dict(k=k, kind=kind, path=_rel(self._path), n=n, torn=cut))
                _log(dict(k=k, crash=True))
                os._exit(77)
            self._drain()
            if kind == 'close':
                self._f.close()
            else:
                self._f.flush()
            _after(k, kind, self._path, n=n)

        def flush(self):
            if self._closed:
                return
            self._sync('flush')

        def close(self):
            if self._closed:
                return
            object.__setattr__(self, '_closed', True)
            self._sync('close')

        def __del__(self):
            # a file object dropped without close(): the interpreter closes (and so flushes) it at that moment
            try:
                if not self._closed:
                    self.close()
            except BaseException:
                pass

    def _open(file, mode='r', *args, **kwargs):
        writing = isinstance(mode, str) and any(c in mode for c in 'wax+')
        if not writing or isinstance(file, int) or not _under_root(file) or _state['nest']:
            return _real_open(file, mode, *args, **kwargs)
        kind = 'open-' + ('w' if 'w' in mode else 'a' if 'a' in mode else 'x' if 'x' in mode else 'rw')
        existed = os.path.exists(file)
        k = _before(kind, file, existed=existed)
        f = _real_open(file, mode, *args, **kwargs)
        _after(k, kind, file, existed=existed)
        return _TracedFile(f, file)

    builtins.open = _open
    io.open = _open

    def _wrap(module, name, kind, npaths=1, only_if=None):
        real = getattr(module, name)

        def wrapper(*args, **kwargs):
            paths = [a for a in args[:npaths]]
            if _state['nest'] or not any(_under_root(p) for p in paths if isinstance(p, (str, bytes, os.PathLike))):
                return real(*args, **kwargs)
            if only_if is not None and not only_if(*args, **kwargs):
                return real(*args, **kwargs)
            extra = {}
            if npaths == 2:
                extra['dst'] = _rel(args[1]) if _under_root(args[1]) else os.fspath(args[1])
            k = _before(kind, args[0], **extra)
            if kind == 'copy' and _CRASH_AT == k and _TORN < 1:
                # a copy is a truncate-and-write of the destination: killed part-way, only a prefix of the source is there
                with _real_open(args[0], 'rb') as src:
                    data = src.read()
                cut = int(len(data) * _TORN)
                with _real_open(args[1], 'wb') as dst:
                    dst.write(data[:cut])
                _log(dict(k=k, kind=kind, path=_rel(args[0]), n=len(data), torn=cut, **extra))
                _log(dict(k=k, crash=True))
                os._exit(77)
            _state['nest'] += 1
            try:
                r = real(*args, **kwargs)
            finally:
                _state['nest'] -= 1
            _after(k, kind, args[0], **extra)
            return r
        wrapper.__name__ = name
        setattr(module, name, wrapper)

    _wrap(shutil, 'move', 'move', 2)
    _wrap(shutil, 'copy', 'copy', 2)
    _wrap(shutil, 'copy2', 'copy', 2)
    _wrap(shutil, 'copyfile', 'copy', 2)
    _wrap(shutil, 'rmtree', 'rmtree', 1)
    _wrap(os, 'rename', 'rename', 2)
    _wrap(os, 'replace', 'rename', 2)
    _wrap(os, 'remove', 'remove', 1)
    _wrap(os, 'unlink', 'remove', 1)
    _wrap(os, 'rmdir', 'rmdir', 1)
    _wrap(os, 'makedirs', 'mkdir', 1, only_if=lambda p, *a, **k: not os.path.isdir(p))
    _wrap(os, 'mkdir', 'mkdir', 1, only_if=lambda p, *a, **k: not os.path.isdir(p))
