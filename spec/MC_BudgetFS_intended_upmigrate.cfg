SPECIFICATION Spec
CONSTANTS
  Impl = "intended"
  Cmd = "upmigrate"
  MaxReruns = 2
  Faults = TRUE
INVARIANT NoContentLost
INVARIANT NeverEmptyWhileRulesExist
INVARIANT DoneSame
INVARIANT BackupKept
INVARIANT FrameWhenNotTriggered
