SPECIFICATION Spec
CONSTANTS
  RulesPaths = {"a.rules"}
  CsvPaths = {"c.csv"}
  RulesOK = {"R1", "R2", "R3", "R4"}
  RulesBad = {"RBAD"}
  CsvOK = {"K1"}
  CsvBad = {"KMISSING"}
  Txns = {"t1", "t3"}
  Exprs = {"e1"}
  Impl = "staleaux"
  WithClear = FALSE
  WithObj = TRUE
  MaxSteps = 100
VIEW view
INVARIANT TypeOK
INVARIANT HistoryIndependent
INVARIANT ObjHistoryIndependent
INVARIANT CacheCoherent
PROPERTY ReadOnlyCalls
