------------------------------ MODULE Process ------------------------------
(***************************************************************************)
(* Process-wide state of tally that can make classification depend on      *)
(* history (C07):                                                          *)
(*   merchant_utils._cached_engine / _cached_engine_path                   *)
(*        set by get_all_rules(<x>.rules), consulted FIRST by              *)
(*        normalize_merchant (the rules argument is ignored when set)      *)
(*   expr_parser._expression_cache  (expression text -> validated AST)     *)
(*   expr_parser._regex_cache       (pattern text -> compiled pattern)     *)
(* and the files on disk that loads read.                                  *)
(*                                                                         *)
(* One action per public call, as the code performs it:                    *)
(*   Write(p, c)      the user edits a rule file on disk                   *)
(*   Load(p)          get_all_rules(p, mode)  ("reload" = Load of the      *)
(*                    same path again)                                     *)
(*   Classify(t)      normalize_merchant(t..., rules = what Load returned) *)
(*   EngineMatch(c,t) parse_merchants(text of c).match(t)  (no globals)    *)
(*   Evaluate(e, t)   evaluate_transaction(e, t)                           *)
(*   ClearCache       clear_engine_cache()                                 *)
(*   ObjParse(c)      eng.parse(text of c) on ONE long-lived MerchantEngine *)
(*                    object (load_file / parse may be called again and     *)
(*                    again on the same object: every load starts afresh)   *)
(*   ObjMatch(t)      eng.match(t) on that object                          *)
(*                                                                         *)
(* The meaning of a rule set is left uninterpreted: a classification is    *)
(* identified by WHICH content decided it ("by").  C07 says: by = the most *)
(* recently loaded rule set.  Impl selects the cache protocol:             *)
(*   "intended"  every load that does not produce an engine clears it      *)
(*   "pinned"    what the pinned tree (cb5393c) did: cache left untouched  *)
(*   "bypath"    a plausible optimisation bug: reuse the engine when the   *)
(*               path is unchanged (stale content)                         *)
(*   "staleaux"  a plausible optimisation bug: tables derived from the     *)
(*               rules (prefilters, compiled matchers) built on the first  *)
(*               match of an engine object and not rebuilt by parse()      *)
(***************************************************************************)
EXTENDS Naturals, Sequences, FiniteSets, TLC

CONSTANTS RulesPaths, CsvPaths,       \* paths on disk
          RulesOK, RulesBad, CsvOK, CsvBad,   \* content identifiers (Bad: unparsable or missing file)
          Txns, Exprs, Impl, MaxSteps,
          WithClear,                 \* clear_engine_cache() is a test helper, not one of C07's operations
          WithObj                    \* the long-lived engine object takes part

NoneC == "none"          \* no file / nothing cached
EmptyC == "empty"        \* a load that yields no rules
Paths == RulesPaths \cup CsvPaths
ContentsOf(p) == IF p \in RulesPaths THEN RulesOK \cup RulesBad ELSE CsvOK \cup CsvBad
AllContents == RulesOK \cup RulesBad \cup CsvOK \cup CsvBad

VARIABLES disk,       \* [Paths -> content]
          passed,     \* content whose rules the last load returned
          cached,     \* content of _cached_engine (NoneC if unset)
          cachedPath, \* _cached_engine_path
          exprCache,  \* set of expression texts parsed so far
          last,       \* the last call and what decided its result
          obj,        \* content last parsed into the long-lived engine object (NoneC: never parsed)
          objAux,     \* content whose derived tables that object holds (NoneC: none built yet)
          k           \* step counter (hidden by VIEW in exhaustive runs)
vars == <<disk, passed, cached, cachedPath, exprCache, last, obj, objAux, k>>
view == <<disk, passed, cached, cachedPath, exprCache, last, obj, objAux>>

Tick == k < MaxSteps /\ k' = k + 1

\* what get_all_rules returns for the content found at a path
Returned(c) == IF c \in RulesOK \cup CsvOK THEN c ELSE EmptyC

Init == /\ disk \in [Paths -> AllContents]
        /\ \A p \in Paths : disk[p] \in ContentsOf(p)
        /\ passed = EmptyC /\ cached = NoneC /\ cachedPath = NoneC
        /\ exprCache = {}
        /\ last = [op |-> "init"]
        /\ obj = NoneC /\ objAux = NoneC
        /\ k = 0

Write(p, c) == /\ Tick /\ c \in ContentsOf(p) /\ disk[p] # c
               /\ disk' = [disk EXCEPT ![p] = c]
               /\ last' = [op |-> "write", p |-> p, c |-> c]
               /\ UNCHANGED <<passed, cached, cachedPath, exprCache, obj, objAux>>

LoadNone == /\ Tick                      \* get_all_rules(None)
            /\ passed' = EmptyC
            /\ IF Impl \in {"intended", "staleaux"} THEN cached' = NoneC /\ cachedPath' = NoneC
                                    ELSE UNCHANGED <<cached, cachedPath>>
            /\ last' = [op |-> "load", p |-> NoneC]
            /\ UNCHANGED <<disk, exprCache, obj, objAux>>

Load(p) ==
  LET c == disk[p] IN
  /\ Tick
  /\ last' = [op |-> "load", p |-> p]
  /\ UNCHANGED <<disk, obj, objAux>>
  /\ IF p \in RulesPaths /\ c \in RulesOK
       THEN /\ passed' = c
            /\ cachedPath' = p
            /\ cached' = IF Impl = "bypath" /\ cachedPath = p /\ cached # NoneC THEN cached ELSE c
            \* parsing a rules file pre-parses (and caches) every expression in it
            /\ exprCache' = exprCache \cup Exprs
       ELSE /\ passed' = Returned(c)
            /\ IF Impl \in {"intended", "staleaux"} THEN cached' = NoneC /\ cachedPath' = NoneC
                                    ELSE UNCHANGED <<cached, cachedPath>>
            /\ UNCHANGED exprCache

\* normalize_merchant: the cached engine, when present, wins over the rules passed in
DecidedBy == IF cached # NoneC THEN cached ELSE passed

Classify(t) == /\ Tick
               /\ last' = [op |-> "classify", t |-> t, by |-> DecidedBy]
               /\ exprCache' = IF DecidedBy \in RulesOK THEN exprCache \cup Exprs ELSE exprCache
               /\ UNCHANGED <<disk, passed, cached, cachedPath, obj, objAux>>

EngineMatch(c, t) == /\ Tick /\ c \in RulesOK
                     /\ last' = [op |-> "match", c |-> c, t |-> t, by |-> c]
                     /\ exprCache' = exprCache \cup Exprs
                     /\ UNCHANGED <<disk, passed, cached, cachedPath, obj, objAux>>

Evaluate(e, t) == /\ Tick
                  /\ last' = [op |-> "eval", e |-> e, t |-> t, hit |-> e \in exprCache]
                  /\ exprCache' = exprCache \cup {e}
                  /\ UNCHANGED <<disk, passed, cached, cachedPath, obj, objAux>>

ClearCache == /\ Tick /\ WithClear
              /\ cached' = NoneC /\ cachedPath' = NoneC
              /\ last' = [op |-> "clear"]
              /\ UNCHANGED <<disk, passed, exprCache, obj, objAux>>

\* parse() on the long-lived object: everything the object knows is replaced
ObjParse(c) == /\ Tick /\ WithObj /\ c \in RulesOK /\ obj # c
               /\ obj' = c
               \* derived tables are built lazily (on the next match) - a parse invalidates them
               /\ objAux' = IF Impl = "staleaux" THEN objAux ELSE NoneC
               /\ exprCache' = exprCache \cup Exprs
               /\ last' = [op |-> "objparse", c |-> c]
               /\ UNCHANGED <<disk, passed, cached, cachedPath>>

ObjMatch(t) == /\ Tick /\ WithObj /\ obj # NoneC
               /\ objAux' = IF objAux = NoneC THEN obj ELSE objAux
               /\ last' = [op |-> "objmatch", t |-> t, by |-> objAux']
               /\ UNCHANGED <<disk, passed, cached, cachedPath, exprCache, obj>>

Next == \/ \E p \in Paths, c \in AllContents : Write(p, c)
        \/ \E p \in Paths : Load(p)
        \/ LoadNone
        \/ \E t \in Txns : Classify(t)
        \/ \E c \in RulesOK, t \in Txns : EngineMatch(c, t)
        \/ \E e \in Exprs, t \in Txns : Evaluate(e, t)
        \/ ClearCache
        \/ \E c \in RulesOK : ObjParse(c)
        \/ \E t \in Txns : ObjMatch(t)

Spec == Init /\ [][Next]_vars

\* ------------------------------------------------------------ properties --
\* C07: a classification is decided by the most recently loaded rule set
HistoryIndependent == last.op = "classify" => last.by = passed
\* the engine cache never disagrees with what the last load returned
\* (ClearCache may empty it: then the rules passed in are used, same content)
CacheCoherent == cached # NoneC => cached = passed
\* a match on the long-lived object is decided by what was parsed into it LAST
ObjHistoryIndependent == last.op = "objmatch" => last.by = obj
\* calls other than Load/ClearCache do not touch what classification depends on
ReadOnlyCalls == [][ (last'.op \in {"classify", "match", "eval", "write", "objparse", "objmatch"})
                      => UNCHANGED <<passed, cached, cachedPath>> ]_vars
TypeOK == /\ passed \in RulesOK \cup CsvOK \cup {EmptyC}
          /\ cached \in RulesOK \cup {NoneC}
          /\ exprCache \subseteq Exprs
          /\ obj \in RulesOK \cup {NoneC} /\ objAux \in RulesOK \cup {NoneC}
=============================================================================
