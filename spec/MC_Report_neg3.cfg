SPECIFICATION Spec
CONSTANTS
  Impl = "counter"
INVARIANT Inv_EachMerchantOnce
