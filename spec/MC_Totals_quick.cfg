SPECIFICATION Spec
CONSTANTS
  Amounts <- AmtWide
  TagIdx = {1,2,3,4,5,6,7,8,9,10,11,12}
  Merchants = {"m1", "m2"}
  Cats = {"c1", "c2"}
  Months = {"2024-01", "2025-01"}
  Sources = {"s1"}
  MaxLen = 2
INVARIANT ExactlyOneBucket
INVARIANT Conservation
INVARIANT MarginalsAgree
INVARIANT OrderIndependent
INVARIANT CashFlowLaw
INVARIANT ExcludedIffSpecialBucket
INVARIANT ClassAbstractionSound
