-------------------------- MODULE Trace_RulesFile --------------------------
(* Code -> spec for the two rule-file readers (C17).                         *)
(*                                                                           *)
(* Files that do NOT come from TLC - tally's own starter files and examples, *)
(* random rule files over the full expression grammar, random views files -  *)
(* are edited at the TEXT level (re-indented, trailing blanks, CRLF, key     *)
(* case, comments and blank lines inserted, properties permuted; and, in     *)
(* part of the records, corrupted in one place) and read by the real         *)
(* parse_merchants / parse_sections.  One record per text:                   *)
(*   r.file  the text as a sequence of line TOKENS, produced by the          *)
(*           harness's own line tokeniser (what a line IS: blank, comment,   *)
(*           [header], header followed by junk, name = expression,           *)
(*           field.x = expression, key: value, anything else; whether a      *)
(*           value is a valid expression of the documented language;         *)
(*           whether a let / field / priority value has the required form)  *)
(*   r.obs   what the real reader returned: the rules / views with their     *)
(*           properties, variables and transforms - or the line it named     *)
(* RulesFile!Result - what MC_RulesFile model-checks - must give r.obs.      *)
(* Kind ("merchants" / "views") is a constant: one configuration each.       *)
EXTENDS RulesFile, Json, IOUtils, TLCExt

Recs == ndJsonDeserialize(IOEnv.TRACE_FILE)
VARIABLE i

ToSet(s) == {s[k] : k \in 1..Len(s)}

Clauses(r) ==
  LET want == Result(r.file)
      o == r.obs IN
  IF want.err
  THEN (IF ~o.err THEN {"accepted-a-corrupt-file"} ELSE IF o.line \in want.lines THEN {} ELSE {"error-names-another-line"})
  ELSE IF o.err THEN {"rejected-a-valid-file"}
  ELSE LET n == Len(want.rules) IN
       (IF Len(o.rules) = n THEN {} ELSE {"number-of-sections"})
       \cup (IF Len(o.rules) # n \/ \A k \in 1..n : o.rules[k].name = want.rules[k].name THEN {} ELSE {"section-names-or-order"})
       \cup (IF Len(o.rules) # n \/ \A k \in 1..n : ToSet(o.rules[k].props) = want.rules[k].props THEN {} ELSE {"properties"})
       \cup (IF Len(o.rules) # n \/ \A k \in 1..n : o.rules[k].lets = [j \in 1..Len(want.rules[k].lets) |-> want.rules[k].lets[j][2]]
             THEN {} ELSE {"let-order"})
       \cup (IF Len(o.rules) # n \/ \A k \in 1..n : o.rules[k].vars = want.rules[k].vars THEN {} ELSE {"section-variables"})
       \cup (IF o.globals = want.globals THEN {} ELSE {"top-level-variables"})
       \cup (IF o.transforms = want.transforms THEN {} ELSE {"transforms"})

Init == i = 0 /\ TLCSet(1, {})
Next == /\ i < Len(Recs)
        /\ i' = i + 1
        /\ LET r == Recs[i + 1]
               bad == Clauses(r) IN
           IF bad = {} THEN TRUE ELSE TLCSet(1, TLCGet(1) \cup {<<r.id, bad>>})
Spec == Init /\ [][Next]_i

Done == /\ PrintT(<<"REJECTED", TLCGet(1)>>)
        /\ PrintT(<<"CONSUMED", TLCGet("stats").diameter - 1, Len(Recs)>>)
        /\ TLCGet("stats").diameter - 1 = Len(Recs)
=============================================================================
