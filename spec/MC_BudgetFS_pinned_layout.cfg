SPECIFICATION Spec
CONSTANTS
  Impl = "pinned"
  Cmd = "layout"
  MaxReruns = 2
  Faults = TRUE
INVARIANT NoContentLost
INVARIANT NeverEmptyWhileRulesExist
INVARIANT DoneSame
INVARIANT BackupKept
INVARIANT FrameWhenNotTriggered
