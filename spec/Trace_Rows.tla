----------------------------- MODULE Trace_Rows -----------------------------
(* Code -> spec for reading statement rows (C05).                            *)
(*                                                                           *)
(* Tables that do NOT come from TLC - random cells (free text with quotes,   *)
(* delimiters, line breaks and non-ASCII letters; numerals in every notation *)
(* the statement names; dates in several formats and near-misses), random    *)
(* column layouts (skip columns, captures, templates, location) and source   *)
(* settings - are written to a file and read by the real parse_generic_csv.  *)
(* One record per file:                                                      *)
(*   r.rows  what the file CONTAINS, cell by cell, as read by the harness's  *)
(*           own csv reader and classified by an abstraction function written *)
(*           from the statement (is the cell blank; is it a date under the   *)
(*           layout's format and which; which number it writes under each    *)
(*           decimal convention, in thousandths), in the shape Rows.tla uses *)
(*   r.cfg   the layout and settings, r.header                               *)
(*   r.obs   the transactions the real code returned                         *)
(* Rows!Parse - the operator MC_Rows model-checks - must give r.obs, and the *)
(* statement's invariants are evaluated on what the code produced.           *)
EXTENDS Rows, Json, IOUtils, TLCExt

Recs == ndJsonDeserialize(IOEnv.TRACE_FILE)

VARIABLE i
vars == <<i>>

ToSet(s) == {s[k] : k \in 1..Len(s)}

Cell(c) == c
Row(x) == [date |-> [id |-> x.date.id, val |-> x.date.val, fmts |-> ToSet(x.date.fmts), blank |-> x.date.blank],
           desc |-> x.desc, cap2 |-> x.cap2, amt |-> x.amt, loc |-> x.loc, extra |-> x.extra, shape |-> x.shape]
RowsOf(r) == [k \in 1..Len(r.rows) |-> Row(r.rows[k])]

\* what Rows!Parse1 calls the description: <<id>> or <<id, id2>>; the record's tmap gives the id of the filled template
DescId(r, d) ==
  IF r.cfg.mode = "desc" THEN d[1]
  ELSE LET hits == {k \in 1..Len(r.tmap) : r.tmap[k][1] = d[1] /\ r.tmap[k][2] = d[2]} IN
       IF hits = {} THEN "?" ELSE r.tmap[CHOOSE k \in hits : TRUE][3]

Clauses(r) ==
  LET rows == RowsOf(r)
      want == Parse(rows, r.cfg, r.header)
      o    == r.obs
      n    == Len(want)
      same(k) == /\ want[k].date = o[k].date
                 /\ DescId(r, want[k].desc) = o[k].desc
                 /\ want[k].cents = o[k].cents
                 /\ want[k].credit = o[k].credit
                 /\ (want[k].loc = "-" \/ want[k].loc = o[k].loc)
                 /\ want[k].extra = o[k].extra
  IN  (IF Len(o) = n THEN {} ELSE {"count"})
      \cup (IF Len(o) # n \/ \A k \in 1..n : want[k].date = o[k].date THEN {} ELSE {"date"})
      \cup (IF Len(o) # n \/ \A k \in 1..n : DescId(r, want[k].desc) = o[k].desc THEN {} ELSE {"description"})
      \cup (IF Len(o) # n \/ \A k \in 1..n : want[k].cents = o[k].cents /\ want[k].credit = o[k].credit THEN {} ELSE {"amount"})
      \cup (IF Len(o) # n \/ \A k \in 1..n : (want[k].loc = "-" \/ want[k].loc = o[k].loc) THEN {} ELSE {"location"})
      \cup (IF Len(o) # n \/ \A k \in 1..n : want[k].extra = o[k].extra THEN {} ELSE {"field"})
      \cup (IF r.badsource THEN {"source"} ELSE {})
      \* (the reader did not return at all: an exception escaped from it)
      \cup (IF r.raised THEN {"raised"} ELSE {})
      \* the statement's invariants on the code's own output
      \cup (IF \A k \in 1..Len(o) : o[k].cents # 0 /\ (r.cfg.sign = "abs" => o[k].cents > 0) /\ o[k].credit = (o[k].cents < 0)
            THEN {} ELSE {"INV SignLaw"})
      \cup (IF Len(o) = Cardinality({k \in 1..Len(rows) : (~r.header \/ k > 1) /\ Good(rows[k], r.cfg)}) THEN {} ELSE {"INV OnePerGoodRow"})
      \* model consistency (never a verdict about the code)
      \cup (IF RowLocal(rows, r.cfg) /\ BadRowsIrrelevant(rows, r.cfg) THEN {} ELSE {"MODEL RowLocal"})

Init == i = 0 /\ TLCSet(1, {})
Next == /\ i < Len(Recs)
        /\ i' = i + 1
        /\ LET r == Recs[i + 1]
               bad == Clauses(r) IN
           IF bad = {} THEN TRUE ELSE TLCSet(1, TLCGet(1) \cup {<<r.id, bad>>})
Spec == Init /\ [][Next]_vars

Done == /\ PrintT(<<"REJECTED", TLCGet(1)>>)
        /\ PrintT(<<"CONSUMED", TLCGet("stats").diameter - 1, Len(Recs)>>)
        /\ TLCGet("stats").diameter - 1 = Len(Recs)
=============================================================================
