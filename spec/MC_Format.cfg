SPECIFICATION Spec
CONSTANTS
  HeaderWidth = 6
  MaxWidth = 4
INVARIANT Inv_PositionBijection
INVARIANT Inv_RejectsMissing
INVARIANT Inv_RejectsDuplicate
INVARIANT Inv_RejectsUncapturedTemplateRef
INVARIANT Inv_SuggestRoundTrips
