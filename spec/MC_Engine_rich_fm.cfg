SPECIFICATION Spec
CONSTANTS
  MaxRules = 2
  Rich = TRUE
  Modes = {"first_match"}
INVARIANT Inv_NonMatchingIrrelevant
INVARIANT Inv_LaterRulesIrrelevant
INVARIANT Inv_TagOnlyNeutral
INVARIANT Inv_TagsAreUnion
INVARIANT Inv_ErrorIsAbsence
INVARIANT Inv_LetIsLocal
INVARIANT Inv_OrderIndependent
INVARIANT Inv_TagsOrderIndependent
