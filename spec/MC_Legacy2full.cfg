SPECIFICATION Spec
CONSTANTS
  MaxRules = 2
  CoreP = {1, 3, 5, 9, 12, 13, 14, 17}
  CoreM = {1, 2, 6, 9, 12}
