SPECIFICATION Spec
CONSTANTS
  MaxHist = 4
