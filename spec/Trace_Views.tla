---------------------------- MODULE Trace_Views ----------------------------
(* Code -> spec for views (C10).                                             *)
(*                                                                           *)
(* Budgets that do NOT come from TLC - random merchants (payment histories   *)
(* with random amounts and dates over a two-year window, tags that differ    *)
(* from payment to payment, special tags) and random views files (filters    *)
(* from the concrete view language with random thresholds, global and        *)
(* view-local declarations) - are run through the real analyze_transactions  *)
(* + classify_by_sections.  One record per file:                             *)
(*   r.ms     the merchants (texts as code sequences, amounts as rationals)  *)
(*   r.file   the views file as Views.tla's AST (abstracted by exprabs)      *)
(*   r.obs    per view: the indices of the merchants the real code lists,    *)
(*            and the view total it reports                                  *)
(* For every (view, merchant) Views!MemberOf - the operator MC_Views checks  *)
(* - must agree with the listing wherever it has an opinion ("T" / "F").     *)
EXTENDS Views, Json, IOUtils, TLCExt

Recs == ndJsonDeserialize(IOEnv.TRACE_FILE)
VARIABLE i

ToSet(s) == {s[k] : k \in 1..Len(s)}
Merch(x) == [name |-> x.name, cat |-> x.cat, sub |-> x.sub, tags |-> ToSet(x.tags), pays |-> x.pays]
Ms(r) == [k \in 1..Len(r.ms) |-> Merch(r.ms[k])]

ViewClauses(r, ms, period, v) ==
  LET view == r.file.views[v]
      listed == ToSet(r.obs[v].members)
      verdict == [k \in 1..Len(ms) |-> MemberOf(r.file, view, ms[k], period)]
      wrongIn  == {k \in 1..Len(ms) : verdict[k] = "F" /\ k \in listed}
      wrongOut == {k \in 1..Len(ms) : verdict[k] = "T" /\ k \notin listed}
      judged == \A k \in 1..Len(ms) : verdict[k] # "O"
      want == SumNums([k \in 1..Len(ms) |-> IF verdict[k] = "T" THEN TotalOf(ms[k]) ELSE Int_(0)], 1)
  IN  (IF wrongIn = {} THEN {} ELSE {"listed-although-filter-false"})
      \cup (IF wrongOut = {} THEN {} ELSE {"missing-although-filter-true"})
      \cup (IF ~judged \/ wrongIn # {} \/ wrongOut # {} \/ IsBad(want) \/ r.obs[v].total.t # "num" \/ NumEq(want, r.obs[v].total)
            THEN {} ELSE {"view-total"})

Clauses(r) ==
  LET ms == Ms(r)
      period == PeriodOf(ms) IN
  UNION {ViewClauses(r, ms, period, v) : v \in 1..Len(r.file.views)}

Judged(r) ==
  LET ms == Ms(r)
      period == PeriodOf(ms) IN
  Cardinality({<<v, k>> \in (1..Len(r.file.views)) \X (1..Len(ms)) : MemberOf(r.file, r.file.views[v], ms[k], period) # "O"})

Init == i = 0 /\ TLCSet(1, {}) /\ TLCSet(2, 0)
Next == /\ i < Len(Recs)
        /\ i' = i + 1
        /\ LET r == Recs[i + 1]
               bad == Clauses(r) IN
           /\ TLCSet(2, TLCGet(2) + Judged(r))
           /\ IF bad = {} THEN TRUE ELSE TLCSet(1, TLCGet(1) \cup {<<r.id, bad>>})
Spec == Init /\ [][Next]_i

Done == /\ PrintT(<<"REJECTED", TLCGet(1)>>)
        /\ PrintT(<<"JUDGED", TLCGet(2)>>)
        /\ PrintT(<<"CONSUMED", TLCGet("stats").diameter - 1, Len(Recs)>>)
        /\ TLCGet("stats").diameter - 1 = Len(Recs)
=============================================================================
