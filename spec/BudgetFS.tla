------------------------------ MODULE BudgetFS ------------------------------
(***************************************************************************)
(* The user's budget directory and the commands that mutate it (C15, C20). *)
(*                                                                         *)
(*   cli._migrate_csv_to_rules   (tally up --migrate, tally init)          *)
(*   cli.migrate_v0_to_v1        (tally update: ./config -> ./tally/config)*)
(*   config_loader.load_config   (which rule file a run classifies with)   *)
(*                                                                         *)
(* A file is abstracted to a content CLASS:                                *)
(*   csv      : "absent" | "R"        R = the user's legacy CSV rules      *)
(*   bak      : "absent" | "R" | "B"  B = an older backup the user kept    *)
(*   bak1     : "absent" | "R"        next free backup name                *)
(*   rules    : "absent" | "U" | "M" | "Mpart" | "empty"                   *)
(*   rulesbak : "absent" | "U"        merchants.rules.bak (repaired code)  *)
(*              U = hand-written merchants.rules, M = migrated from R      *)
(*              (classifies like R), Mpart = a prefix of M, empty = 0 bytes*)
(*   settings : "absent" | "plain" | "comment" | "ref" | "half" | "torn"   *)
(*              plain   = no merchants_file key                            *)
(*              comment = no key, but the text "merchants_file:" occurs in *)
(*                        a comment                                        *)
(*              ref     = merchants_file: config/merchants.rules           *)
(*              half    = only the comment line of the append was written  *)
(*              torn    = "merchants_file: config/mer" (torn append)       *)
(*   layout   : where config/ and data/ live: <<cfg, data>> each "old"|"new"*)
(*              marker : "absent" | "1"                                    *)
(*                                                                         *)
(* Every command is a sequence of atomic file-system effects (one per      *)
(* open/write/close/move/mkdir the code performs) driven by a program      *)
(* counter.  The environment may Crash after any effect (a write in flight *)
(* leaves any prefix), make any single effect Fault (OSError; control goes *)
(* to the code's handler), and the user may Rerun the same command.        *)
(*                                                                         *)
(* Impl = "intended" is the protocol the properties require; "pinned" is   *)
(* the step order of the pinned tree, kept as a NEGATIVE configuration.    *)
(***************************************************************************)
EXTENDS Naturals, Sequences, FiniteSets, TLC

CONSTANTS Impl,          \* "intended" | "pinned"
          Cmd,           \* "upmigrate" | "init" | "layout"
          MaxReruns, Faults   \* Faults: BOOLEAN – whether single I/O faults are injected

VARIABLES fs, pc, phase, fs0, reruns, faulted, runFault
vars == <<fs, pc, phase, fs0, reruns, faulted, runFault>>

\* ------------------------------------------------------------------ files --
FS0s ==
  [csv : {"R", "absent"}, bak : {"absent", "B"}, bak1 : {"absent"},
   rules : {"absent", "U"}, rulesbak : {"absent"}, settings : {"absent", "plain", "comment", "ref"},
   cfg : {"old"}, data : {"old", "none"}, marker : {"absent"}, tallydir : {"absent", "present"}]

\* which rule set a run of `tally up` classifies with (load_config + get_all_rules)
RulesMeaning(r) == CASE r = "U" -> "U" [] r = "M" -> "R" [] r = "Mpart" -> "P"
                     [] r = "empty" -> "Empty" [] OTHER -> "Empty"
Effective(f) ==
  IF f.settings = "absent" THEN "NoSettings"
  ELSE IF f.cfg = "new" /\ f.data = "old" THEN "NoData"       \* config moved, data left behind
  ELSE IF f.cfg = "old" /\ f.data = "new" THEN "NoData"
  ELSE IF f.settings = "ref" THEN RulesMeaning(f.rules)
  ELSE IF f.settings = "torn" THEN "Empty"                     \* merchants_file names a missing file
  ELSE IF f.csv = "R" THEN "R" ELSE "Empty"                    \* plain / comment / half: legacy CSV lookup

OnDisk(f, x) ==
  CASE x = "R" -> f.csv = "R" \/ f.bak = "R" \/ f.bak1 = "R" \/ f.rules = "M"
    [] x = "U" -> f.rules = "U" \/ f.rulesbak = "U"
    [] x = "B" -> f.bak = "B"

\* ------------------------------------------------------- _migrate_csv_to_rules --
\* pinned:   open-w rules; write; close; move csv->bak; [open-a settings; write; write; close]
\* intended (= the repaired code, commits eed333e 2b91f51): move an existing rules file to an unused
\*           backup name; open-w rules; write; close; write settings.yaml.tmp; os.replace -> settings := ref
\*           atomically (only if the KEY is missing); move csv -> first unused backup name
MentionsKey(s) == s \in {"comment", "ref", "torn"}     \* substring test 'merchants_file:' in text
HasKey(s) == s \in {"ref", "torn"}                      \* parsed settings really have the key

MigSteps == IF Impl = "pinned"
            THEN <<"open_rules", "write_rules", "close_rules", "move_csv",
                   "open_settings", "write_set1", "write_set2", "close_settings", "end">>
            ELSE <<"backup_rules", "open_rules", "write_rules", "close_rules",
                   "write_tmp", "replace_settings", "move_csv", "end">>

\* effect of one step on fs; returns new fs.  torn = the write is cut short (crash during write)
Apply(step, f, torn) ==
  CASE step = "backup_rules" -> IF f.rules = "absent" THEN f
                                ELSE [f EXCEPT !.rulesbak = IF f.rules = "U" THEN "U" ELSE @, !.rules = "absent"]
    [] step = "write_tmp" -> f          \* settings.yaml.tmp: not a file any reader looks at
    [] step = "open_rules" -> [f EXCEPT !.rules = "empty"]
    [] step = "write_rules" -> [f EXCEPT !.rules = IF torn THEN "Mpart" ELSE "M"]
    [] step = "close_rules" -> f
    [] step = "move_csv" ->
         IF f.csv = "absent" THEN f
         ELSE IF Impl = "pinned" \/ f.bak = "absent"
              THEN [f EXCEPT !.bak = f.csv, !.csv = "absent"]
              ELSE [f EXCEPT !.bak1 = f.csv, !.csv = "absent"]
    [] step = "open_settings" -> f
    [] step = "write_set1" -> [f EXCEPT !.settings = IF torn THEN @ ELSE "half"]
    [] step = "write_set2" -> [f EXCEPT !.settings = IF torn THEN "torn" ELSE "ref"]
    [] step = "close_settings" -> f
    [] step = "replace_settings" -> [f EXCEPT !.settings = "ref"]
    [] OTHER -> f

\* does the command skip this step in the current state?
Skips(step, f) ==
  \/ step \in {"open_settings", "write_set1", "write_set2", "close_settings"}
       /\ (f.settings = "absent" \/ MentionsKey(f.settings))
  \/ step \in {"write_tmp", "replace_settings"} /\ (f.settings = "absent" \/ HasKey(f.settings))

\* when does the command perform the migration at all?
MigrationTriggered(f) ==
  CASE Cmd = "upmigrate" -> f.settings \notin {"absent", "ref", "torn"} /\ f.csv = "R"
    [] Cmd = "init"      -> f.csv = "R" /\ f.rules = "absent"
    [] OTHER -> FALSE

\* ------------------------------------------------------------- migrate_v0_to_v1 --
\* pinned:   mkdir tally; move config; move data; write marker
\* intended: mkdir tally; move data; move config (the commit point); write marker
LaySteps == IF Impl = "pinned"
            THEN <<"mkdir_tally", "move_config", "move_data", "write_marker", "end">>
            ELSE <<"mkdir_tally", "move_data", "move_config", "write_marker", "end">>
LayApply(step, f) ==
  CASE step = "mkdir_tally" -> [f EXCEPT !.tallydir = "present"]
    [] step = "move_config" -> [f EXCEPT !.cfg = "new"]
    [] step = "move_data" -> IF f.data = "old" THEN [f EXCEPT !.data = "new"] ELSE f
    [] step = "write_marker" -> [f EXCEPT !.marker = "1"]
    [] OTHER -> f
LayoutTriggered(f) == f.cfg = "old" /\ f.marker = "absent"

Steps == IF Cmd = "layout" THEN LaySteps ELSE MigSteps
Triggered(f) == IF Cmd = "layout" THEN LayoutTriggered(f) ELSE MigrationTriggered(f)
Do(step, f, torn) == IF Cmd = "layout" THEN LayApply(step, f) ELSE Apply(step, f, torn)
IsWrite(step) == step \in {"write_rules", "write_set1", "write_set2"}

\* --------------------------------------------------------------- behaviour --
Init == /\ fs \in FS0s
        /\ (Cmd = "layout" => fs.csv = "R" /\ fs.rules = "absent" /\ fs.bak = "absent"
                               /\ fs.settings = "plain" /\ fs.data = "old")
        /\ (Cmd # "layout" => fs.data = "old" /\ fs.tallydir = "absent")
        /\ fs0 = fs /\ pc = 0 /\ phase = "idle" /\ reruns = 0 /\ faulted = FALSE /\ runFault = FALSE

Start == /\ phase = "idle"
         /\ IF Triggered(fs) THEN pc' = 1 /\ phase' = "running"
                             ELSE pc' = 0 /\ phase' = "done"
         /\ UNCHANGED <<fs, fs0, reruns, faulted, runFault>>

Refuses == FALSE

Step == /\ phase = "running"
        /\ LET s == Steps[pc] IN
           IF s = "end" \/ Refuses THEN phase' = "done" /\ UNCHANGED <<fs, pc>>
           ELSE /\ fs' = IF Skips(s, fs) THEN fs ELSE Do(s, fs, FALSE)
                /\ pc' = pc + 1 /\ UNCHANGED phase
        /\ UNCHANGED <<fs0, reruns, faulted, runFault>>

\* process killed: either between two effects, or in the middle of a write (torn)
Crash == /\ phase = "running"
         /\ \/ UNCHANGED fs
            \/ /\ IsWrite(Steps[pc]) /\ ~Skips(Steps[pc], fs)
               /\ fs' = Do(Steps[pc], fs, TRUE)
         /\ phase' = "crashed" /\ UNCHANGED <<pc, fs0, reruns, faulted, runFault>>

\* one effect raises OSError: both protocols catch it, report failure and stop mutating
Fault == /\ Faults /\ phase = "running" /\ ~faulted
         /\ Steps[pc] # "end" /\ ~Skips(Steps[pc], fs)
         /\ faulted' = TRUE /\ runFault' = TRUE /\ phase' = "done"
         /\ UNCHANGED <<fs, pc, fs0, reruns>>

Rerun == /\ phase \in {"crashed", "done"} /\ reruns < MaxReruns
         /\ reruns' = reruns + 1 /\ phase' = "idle" /\ pc' = 0 /\ runFault' = FALSE
         /\ UNCHANGED <<fs, fs0, faulted>>

Next == Start \/ Step \/ Crash \/ Fault \/ Rerun
Spec == Init /\ [][Next]_vars
FairSpec == Spec /\ WF_vars(Start) /\ WF_vars(Step) /\ WF_vars(Rerun)

\* --------------------------------------------------------------- properties --
UserContents == {"R", "U", "B"}
\* C15/C20: no user file content is ever lost
NoContentLost == \A x \in UserContents : OnDisk(fs0, x) => OnDisk(fs, x)
\* C15: never classify with an empty rule set while the user's rules still exist on disk
\*      (unless that was already the situation before the command ran)
NeverEmptyWhileRulesExist ==
  (Effective(fs0) \notin {"Empty", "NoSettings"} /\ Effective(fs) \in {"Empty", "P"})
     => ~(OnDisk(fs, "R") \/ OnDisk(fs, "U")) \/ phase = "running"
\* C15: every run of the command that completes (the first, or a rerun after a crash / fault) leaves the
\*      budget classifying exactly as it did originally
DoneSame ==
  (phase = "done" /\ ~runFault /\ Effective(fs0) \notin {"NoSettings", "Empty"}) => Effective(fs) = Effective(fs0)
\* C20: a backup of the original rules is kept after a completed migration
BackupKept == (phase = "done" /\ ~runFault /\ fs.csv = "absent" /\ fs0.csv = "R") =>
                 (fs.bak = "R" \/ fs.bak1 = "R")
\* C20: nothing changes unless the migration was triggered
FrameWhenNotTriggered == (phase = "done" /\ pc = 0 /\ reruns = 0) => fs = fs0
\* liveness: re-running eventually finishes with the original classification
Recovers == <>[](phase = "done" => Effective(fs) = Effective(fs0))
=============================================================================
