SPECIFICATION Spec
CONSTANTS
  Impl = "intended"
  Cmd = "init"
  MaxReruns = 2
  Faults = TRUE
INVARIANT NoContentLost
INVARIANT NeverEmptyWhileRulesExist
INVARIANT DoneSame
INVARIANT BackupKept
INVARIANT FrameWhenNotTriggered
