SPECIFICATION TSpec
CONSTANTS
  Impl = "intended"
  Cmd = "upmigrate"
  MaxReruns = 1
  Faults = TRUE
POSTCONDITION Done
CHECK_DEADLOCK FALSE
