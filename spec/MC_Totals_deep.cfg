SPECIFICATION Spec
CONSTANTS
  Amounts <- AmtDeep
  TagIdx = {1, 5, 7, 9}
  Merchants = {"m1", "m2"}
  Cats = {"c1"}
  Months = {"2024-01", "2025-01"}
  Sources = {"s1"}
  MaxLen = 3
INVARIANT ExactlyOneBucket
INVARIANT Conservation
INVARIANT MarginalsAgree
INVARIANT OrderIndependent
INVARIANT ExcludedIffSpecialBucket
INVARIANT ClassAbstractionSound
