------------------------------- MODULE Update -------------------------------
(***************************************************************************)
(* `tally update` (commands/update.py, _version.py) - not one of the       *)
(* listed properties; part of the growth of the specification (§10).       *)
(*                                                                         *)
(* A version is [base |-> <<major, minor, patch>>, dev |-> BOOLEAN]        *)
(* ("0.1.100-dev" sorts before "0.1.100": a prerelease precedes its        *)
(* release).  The command's DECISION is a function of the installed        *)
(* version, what the release lookup returned (none / a version) and the    *)
(* flags:                                                                  *)
(*   offer    is an update offered (and which wording)                     *)
(*   layout   does the folder-layout migration run (never with --check)    *)
(*   install  does it go on to replace the executable                      *)
(* The layout migration itself is BudgetFS.tla's subject (C15).            *)
(***************************************************************************)
EXTENDS Naturals, Sequences, TLC

CONSTANTS Nums          \* the version components explored, e.g. 0..2

Bases == Nums \X Nums \X Nums
Versions == [base : Bases, dev : BOOLEAN]

TupleLess(a, b) == \/ a[1] < b[1]
                   \/ a[1] = b[1] /\ a[2] < b[2]
                   \/ a[1] = b[1] /\ a[2] = b[2] /\ a[3] < b[3]
\* _version_greater(v1, v2)
Greater(v1, v2) == \/ TupleLess(v2.base, v1.base)
                   \/ v1.base = v2.base /\ ~v1.dev /\ v2.dev

None == [base |-> <<0, 0, 0>>, dev |-> TRUE, none |-> TRUE]        \* the lookup failed
Found(v) == [base |-> v.base, dev |-> v.dev, none |-> FALSE]

\* cmd_update up to the point where it would touch anything
Decide(cur, latest, prerelease, check) ==
  LET found == ~latest.none
      lv == [base |-> latest.base, dev |-> latest.dev]
      toStable == found /\ ~prerelease /\ cur.dev /\ ~lv.dev         \* on a development build, stable requested: always offered
      has == found /\ (Greater(lv, cur) \/ toStable)
      wording == IF ~found THEN (IF prerelease THEN "no-dev-build" ELSE "lookup-failed")
                 ELSE IF ~has THEN "already-latest"
                 ELSE IF prerelease THEN "dev-build-available"
                 ELSE IF toStable THEN "stable-available" ELSE "new-version"
  IN [offer |-> has, wording |-> wording,
      layout |-> ~check,                                  \* the layout migration runs whenever the command is not --check
      install |-> ~check /\ has]

VARIABLES cur, latest, prerelease, check, out
vars == <<cur, latest, prerelease, check, out>>
Init == /\ cur \in Versions /\ latest \in {None} \cup {Found(v) : v \in Versions}
        /\ prerelease \in BOOLEAN /\ check \in BOOLEAN
        /\ out = Decide(cur, latest, prerelease, check)
Next == UNCHANGED vars
Spec == Init /\ [][Next]_vars

\* ---- laws ------------------------------------------------------------------
\* the version order is a strict total order on distinct versions
Irreflexive == \A v \in Versions : ~Greater(v, v)
Asymmetric == \A a, b \in Versions : Greater(a, b) => ~Greater(b, a)
Total == \A a, b \in Versions : a # b => Greater(a, b) \/ Greater(b, a)
Transitive == \A a, b, c \in Versions : Greater(a, b) /\ Greater(b, c) => Greater(a, c)
DevPrecedesRelease == \A b \in Bases : Greater([base |-> b, dev |-> FALSE], [base |-> b, dev |-> TRUE])
\* nothing is installed on --check, nothing is installed without an offer, a failed lookup never offers anything
CheckTouchesNothing == check => ~out.install /\ ~out.layout
InstallOnlyWhenOffered == out.install => out.offer
FailedLookupOffersNothing == latest.none => ~out.offer
\* a downgrade is never offered - except the documented switch from a development build to the stable release
NoDowngrade == (out.offer /\ ~Greater([base |-> latest.base, dev |-> latest.dev], cur)) => (cur.dev /\ ~latest.dev /\ ~prerelease)
\* negative control (must be refuted): an offer always means a strictly newer version
Neg_OfferMeansNewer == out.offer => Greater([base |-> latest.base, dev |-> latest.dev], cur)
=============================================================================
