---------------------------- MODULE Trace_Totals ----------------------------
(* Code -> spec: executions of the real analyze_transactions (and of the JS  *)
(* categorizeAmount under node, for C13) on inputs that do NOT come from TLC *)
(* are recorded as ndjson, one record per call, and validated here.  Each    *)
(* record is one step; the failing record ids and the failing clause names   *)
(* are collected in TLC register 1 and printed by the POSTCONDITION.         *)
EXTENDS Totals, Json, IOUtils, TLCExt

Recs == ndJsonDeserialize(IOEnv.TRACE_FILE)

VARIABLE i
vars == <<i>>

Range(f) == {f[x] : x \in DOMAIN f}

\* ---- kind "analyze": r.txns (amt in cents, tags as code tuples, m, c, mo), r.obs ----
AnalyzeClauses(r) ==
  LET seq == r.txns
      Ms  == {seq[k].m : k \in 1..Len(seq)}
      Cs  == {seq[k].c : k \in 1..Len(seq)}
      Mos == {seq[k].mo : k \in 1..Len(seq)}
      RECURSIVE FoldStep(_, _)
      FoldStep(a, k) == IF k > Len(seq) THEN a ELSE FoldStep(Step(a, seq[k]), k + 1)
      acc == FoldStep(EmptyAcc(Ms, Cs, Mos), 1)
      o   == r.obs
      obsAcc == [flow |-> o.flow, mTotal |-> o.mTotal, mCount |-> o.mCount,
                 cTotal |-> o.cTotal, cCount |-> o.cCount, moTotal |-> o.moTotal,
                 count |-> o.count, rawTotal |-> o.rawTotal]
  IN  (IF acc.flow = o.flow THEN {} ELSE {"flow"})
      \cup (IF Len(seq) = 0 \/ acc.mTotal = o.mTotal THEN {} ELSE {"by_merchant.total"})
      \cup (IF Len(seq) = 0 \/ acc.mCount = o.mCount THEN {} ELSE {"by_merchant.count"})
      \cup (IF Len(seq) = 0 \/ acc.cTotal = o.cTotal THEN {} ELSE {"by_category.total"})
      \cup (IF Len(seq) = 0 \/ acc.cCount = o.cCount THEN {} ELSE {"by_category.count"})
      \cup (IF Len(seq) = 0 \/ acc.moTotal = o.moTotal THEN {} ELSE {"by_month"})
      \cup (IF acc.count = o.count THEN {} ELSE {"count"})
      \cup (IF acc.rawTotal = o.rawTotal THEN {} ELSE {"total"})
      \cup (IF o.cash_flow = CashFlow(acc.flow["income"], acc.flow["spending"], acc.flow["credits"])
            THEN {} ELSE {"cash_flow"})
      \cup (IF o.transfers_net = TransfersNet(acc.flow["transfer_in"], acc.flow["transfer_out"])
            THEN {} ELSE {"transfers_net"})
      \* the property's own invariants, evaluated on what the code produced
      \cup (IF Len(seq) = 0 \/ ConservationOf(obsAcc, seq) THEN {} ELSE {"INV Conservation"})
      \cup (IF Len(seq) = 0 \/ MarginalsAgreeOf(obsAcc) THEN {} ELSE {"INV MarginalsAgree"})
      \cup (IF acc = Declarative(seq, Ms, Cs, Mos) THEN {} ELSE {"MODEL fold # declarative"})

\* ---- kind "classify": r.amt, r.tags (or r.notags = TRUE), r.py / r.js observations ----
ClassifyClauses(r) ==
  LET tags == r.tags
      want == Categorize(r.amt, tags)
      side(o, name) ==
           (IF o.vec = want THEN {} ELSE {name \o ".categorize"})
           \cup (IF o.excluded = Excluded(tags) THEN {} ELSE {name \o ".excluded"})
           \cup (IF o.cash = CashFlow(r.cf[1], r.cf[2], r.cf[3]) THEN {} ELSE {name \o ".cash_flow"})
  IN  side(r.py, "py") \cup side(r.js, "js")
      \cup (IF ExactlyOneBucketOf([amt |-> r.amt, tags |-> tags]) THEN {} ELSE {"MODEL one-bucket"})

Clauses(r) == IF r.kind = "analyze" THEN AnalyzeClauses(r) ELSE ClassifyClauses(r)

Init == i = 0 /\ TLCSet(1, {})
Next == /\ i < Len(Recs)
        /\ i' = i + 1
        /\ LET r == Recs[i + 1]
               bad == Clauses(r) IN
           IF bad = {} THEN TRUE ELSE TLCSet(1, TLCGet(1) \cup {<<r.id, bad>>})
Spec == Init /\ [][Next]_vars

Done == /\ PrintT(<<"REJECTED", TLCGet(1)>>)
        /\ PrintT(<<"CONSUMED", TLCGet("stats").diameter - 1, Len(Recs)>>)
        /\ TLCGet("stats").diameter - 1 = Len(Recs)
=============================================================================
