SPECIFICATION Spec
CONSTANTS
  Amounts <- AmtNeg
  TagIdx = {1, 3}
  Merchants = {"m1"}
  Cats = {"c1"}
  Months = {"2025-01"}
  Sources = {"s1"}
  MaxLen = 2
INVARIANT NegControl_NoCredits
