------------------------------- MODULE Format -------------------------------
(***************************************************************************)
(* Format strings (format_parser.parse_format_string), header auto-        *)
(* detection (parsers.auto_detect_csv_format) and the format string that   *)
(* `tally inspect` suggests (commands/inspect.py) - C18.                   *)
(*                                                                         *)
(* A format string is a sequence of column tokens; position = column.      *)
(*   [k |-> "date", fmt]   fmt "" = default %m/%d/%Y                       *)
(*   [k |-> "amount", sign]   sign "" | "-" | "+"                          *)
(*   [k |-> "description"] [k |-> "location"] [k |-> "custom", n]          *)
(*   [k |-> "skip"]  ({_} or {*})   [k |-> "field"] (reserved, ignored)    *)
(*   [k |-> "bad"]   (not of the form {name} / {name:format})              *)
(* and an optional description template = the set of capture names it      *)
(* references: [has |-> BOOLEAN, refs |-> set of names].                                        *)
(***************************************************************************)
EXTENDS Naturals, Sequences, FiniteSets, TLC

Error == [err |-> TRUE]
NoCol == 999

ParseFormat(toks, tmpl) ==
  LET dates == {i \in 1..Len(toks) : toks[i].k = "date"}
      amts  == {i \in 1..Len(toks) : toks[i].k = "amount"}
      descs == {i \in 1..Len(toks) : toks[i].k = "description"}
      locs  == {i \in 1..Len(toks) : toks[i].k = "location"}
      flds  == {i \in 1..Len(toks) : toks[i].k = "field"}
      cust  == {i \in 1..Len(toks) : toks[i].k = "custom"}
      names == {toks[i].n : i \in cust}
      dupCustom == \E i, j \in cust : i # j /\ toks[i].n = toks[j].n
      hasDesc == descs # {}
      captures == IF hasDesc THEN {} ELSE names           \* with {description}, customs become extra fields
      refs == IF tmpl.has THEN tmpl.refs ELSE {}
      one(S) == CHOOSE i \in S : TRUE
  IN
  IF \E i \in 1..Len(toks) : toks[i].k = "bad" THEN Error
  ELSE IF Cardinality(dates) > 1 \/ Cardinality(amts) > 1 \/ Cardinality(descs) > 1 \/ Cardinality(locs) > 1
          \/ Cardinality(flds) > 1 \/ dupCustom THEN Error                       \* duplicate
  ELSE IF ~hasDesc /\ names = {} THEN Error                                       \* nothing to build a description from
  ELSE IF ~hasDesc /\ ~tmpl.has THEN Error                                    \* captures need a template
  ELSE IF ~(refs \subseteq captures) THEN Error                                   \* template names an uncaptured column
  ELSE IF dates = {} \/ amts = {} THEN Error                                      \* missing required field
  ELSE [err |-> FALSE,
        date |-> one(dates) - 1, fmt |-> toks[one(dates)].fmt,
        amount |-> one(amts) - 1, negate |-> toks[one(amts)].sign = "-", abs |-> toks[one(amts)].sign = "+",
        desc |-> IF hasDesc THEN one(descs) - 1 ELSE NoCol,
        location |-> IF locs = {} THEN NoCol ELSE one(locs) - 1,
        captures |-> {<<toks[i].n, i - 1>> : i \in {j \in cust : ~hasDesc}},
        extras |-> {<<toks[i].n, i - 1>> : i \in {j \in cust : hasDesc}}]

\* ---- auto-detection from a header row: each header is a set of the classes its text matches ----
\* one pass, `if / elif` in the order date, description, amount, location; a slot once filled is never refilled
RECURSIVE Detect(_, _, _)
Detect(hdrs, i, acc) ==
  IF i > Len(hdrs) THEN acc
  ELSE LET h == hdrs[i] IN
       Detect(hdrs, i + 1,
         IF acc.date = NoCol /\ "date" \in h THEN [acc EXCEPT !.date = i - 1]
         ELSE IF acc.desc = NoCol /\ "desc" \in h THEN [acc EXCEPT !.desc = i - 1]
         ELSE IF acc.amount = NoCol /\ "amount" \in h THEN [acc EXCEPT !.amount = i - 1]
         ELSE IF acc.location = NoCol /\ "loc" \in h THEN [acc EXCEPT !.location = i - 1]
         ELSE acc)
DetectHeaders(hdrs) ==
  LET r == Detect(hdrs, 1, [date |-> NoCol, desc |-> NoCol, amount |-> NoCol, location |-> NoCol]) IN
  IF r.date = NoCol \/ r.desc = NoCol \/ r.amount = NoCol THEN Error ELSE [r EXCEPT !.date = r.date] @@ [err |-> FALSE]

\* the format string inspect prints for a detection result
Max(S) == CHOOSE x \in S : \A y \in S : y <= x
Suggest(d) ==
  LET cols == {d.date, d.desc, d.amount} \cup (IF d.location = NoCol THEN {} ELSE {d.location})
      n == Max(cols) + 1 IN
  [i \in 1..n |->
     IF i - 1 = d.date THEN [k |-> "date", fmt |-> ""]
     ELSE IF i - 1 = d.desc THEN [k |-> "description"]
     ELSE IF i - 1 = d.amount THEN [k |-> "amount", sign |-> ""]
     ELSE IF d.location # NoCol /\ i - 1 = d.location THEN [k |-> "location"]
     ELSE [k |-> "skip"]]

\* ------------------------------------------------------------- properties --
\* every named token of an accepted format sits at its own index
PositionBijection(toks, tmpl) ==
  LET s == ParseFormat(toks, tmpl) IN
  ~s.err =>
     /\ toks[s.date + 1].k = "date" /\ toks[s.amount + 1].k = "amount"
     /\ (s.desc # NoCol => toks[s.desc + 1].k = "description")
     /\ (s.location # NoCol => toks[s.location + 1].k = "location")
     /\ \A c \in s.captures \cup s.extras : toks[c[2] + 1] = [k |-> "custom", n |-> c[1]]
     /\ \A i \in 1..Len(toks) : toks[i].k \in {"skip", "field"} =>
           i - 1 \notin {s.date, s.amount, s.desc, s.location} \cup {c[2] : c \in s.captures \cup s.extras}
RejectsMissing(toks, tmpl) ==
  ((\A i \in 1..Len(toks) : toks[i].k # "date") \/ (\A i \in 1..Len(toks) : toks[i].k # "amount")
     \/ (\A i \in 1..Len(toks) : toks[i].k \notin {"description", "custom"})) => ParseFormat(toks, tmpl).err
RejectsDuplicate(toks, tmpl) ==
  (\E i, j \in 1..Len(toks) : i # j /\ toks[i].k = toks[j].k /\ toks[i].k \in {"date", "amount", "description", "location"})
     => ParseFormat(toks, tmpl).err
RejectsUncapturedTemplateRef(toks, tmpl) ==
  (tmpl.has /\ \E r \in tmpl.refs : \A i \in 1..Len(toks) : ~(toks[i].k = "custom" /\ toks[i].n = r)) => ParseFormat(toks, tmpl).err
SuggestRoundTrips(hdrs) ==
  LET d == DetectHeaders(hdrs) IN
  ~d.err => LET s == ParseFormat(Suggest(d), [has |-> FALSE, refs |-> {}]) IN
            ~s.err /\ s.date = d.date /\ s.desc = d.desc /\ s.amount = d.amount /\ s.location = d.location
=============================================================================
