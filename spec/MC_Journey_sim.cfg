SPECIFICATION Spec
CONSTANTS
  MaxUnknown = 4
