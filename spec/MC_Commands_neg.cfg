SPECIFICATION Spec
CONSTANTS
  MaxHist = 2
INVARIANT Neg_NeverMigrates
