-------------------------- MODULE MC_LegacyParsers --------------------------
EXTENDS LegacyParsers
\* a small exhaustive model: every sequence of at most MaxLen rows over RowSet
CONSTANTS RowSet, MaxLen, Src
VARIABLE rows
Init == rows = <<>>
Next == Len(rows) < MaxLen /\ \E r \in RowSet : rows' = Append(rows, r)
Spec == Init /\ [][Next]_rows

OnePerGoodRow == OnePerGoodRowOf(rows, Src)
RowLocal == RowLocalOf(rows, Src)
Faithful == FaithfulOf(rows, Src)
\* (negative control: "every row yields a transaction" must be refuted)
Neg_EveryRow == Len(Parse(rows, Src)) = Len(rows)
MCRows == [shape : BOOLEAN,
           date : {[ok |-> TRUE, v |-> "2025-01-05"], [ok |-> FALSE, v |-> ""]},
           amt : {[ok |-> TRUE, m |-> -5000], [ok |-> TRUE, m |-> 0], [ok |-> TRUE, m |-> 12500], [ok |-> FALSE, m |-> 0]},
           desc : {"d1", "d2"}, loc : {"-", "WA"}]
=============================================================================
