------------------------------- MODULE Config -------------------------------
(***************************************************************************)
(* config_loader.load_config (C11): from what settings.yaml SAYS and which *)
(* files EXIST to the configuration a run actually uses, and the warnings  *)
(* the user is shown for every setting that could not be honoured.         *)
(*                                                                         *)
(* A settings record s:                                                    *)
(*   modeKey  "absent" | "first_match" | "most_specific" | "bogus"         *)
(*   mfKey    merchants_file: key present      mfFile  the file exists     *)
(*   csvFile  config/merchant_categories.csv exists (legacy rules)         *)
(*   vfKey    views_file: key present          vfFile  "missing" | "ok" |  *)
(*                                                     "corrupt"           *)
(*   cur      "absent" | "eur" | "zl"          currency_format             *)
(*   year     "absent" | "y2024"               year: (default 2025)        *)
(*   out      "absent" | "custom"              output_dir: + html_filename:*)
(*   removed  settings.yaml still carries a key of a feature that was      *)
(*            removed (home_state: ...): reported, otherwise without effect *)
(***************************************************************************)
EXTENDS Naturals, FiniteSets

ModeKeys == {"absent", "first_match", "most_specific", "bogus"}
Settings == [modeKey : ModeKeys, mfKey : BOOLEAN, mfFile : BOOLEAN, csvFile : BOOLEAN,
             vfKey : BOOLEAN, vfFile : {"missing", "ok", "corrupt"}, cur : {"absent", "eur", "zl"},
             year : {"absent", "y2024"}, out : {"absent", "custom"}, removed : BOOLEAN]

\* rule_mode: anything but the two known values falls back to first_match (and is reported)
EffMode(s) == IF s.modeKey = "most_specific" THEN "most_specific" ELSE "first_match"
\* the rule file: a configured merchants_file decides alone - the legacy CSV is consulted only when the key is absent
EffRules(s) == IF s.mfKey THEN (IF s.mfFile THEN "rules" ELSE "none")
               ELSE IF s.csvFile THEN "csv" ELSE "none"
EffViews(s) == s.vfKey /\ s.vfFile = "ok"
EffCurrency(s) == IF s.cur = "absent" THEN "usd" ELSE s.cur
EffYear(s) == IF s.year = "absent" THEN 2025 ELSE 2024
\* where the HTML report goes: <budget>/<output_dir>/<html_filename>
EffOut(s) == IF s.out = "absent" THEN <<"output", "spending_summary.html">> ELSE <<"reports", "summary.html">>
Warnings(s) ==
       (IF s.modeKey = "bogus" THEN {"invalid-rule-mode"} ELSE {})
  \cup (IF s.mfKey /\ ~s.mfFile THEN {"merchants-file-not-found"} ELSE {})
  \cup (IF s.vfKey /\ s.vfFile = "missing" THEN {"views-file-not-found"} ELSE {})
  \cup (IF s.vfKey /\ s.vfFile = "corrupt" THEN {"views-error"} ELSE {})
  \cup (IF s.removed THEN {"removed-settings"} ELSE {})
Effective(s) == [mode |-> EffMode(s), rules |-> EffRules(s), views |-> EffViews(s), currency |-> EffCurrency(s),
                 year |-> EffYear(s), out |-> EffOut(s), warnings |-> Warnings(s)]

\* ---- `tally diag`: the health findings it prints about the same settings ---------------------
\* (commands/diag.py, CONFIG HEALTH CHECK; merchants.rules / views.rules are looked for at their conventional paths)
Diag(s) ==
       (IF s.csvFile /\ ~s.mfFile THEN {"legacy-csv"} ELSE {})
  \cup (IF ~s.mfKey /\ s.mfFile THEN {"rules-unreferenced"} ELSE {})
  \cup (IF ~s.mfKey /\ ~s.mfFile /\ ~s.csvFile THEN {"no-rules"} ELSE {})
  \cup (IF s.mfKey THEN (IF s.mfFile THEN {"mf-ok"} ELSE {"mf-missing"}) ELSE {})
  \cup (IF ~s.vfKey /\ s.vfFile # "missing" THEN {"views-unreferenced"} ELSE {})
  \cup (IF s.vfKey THEN (IF s.vfFile = "missing" THEN {"vf-missing"} ELSE {"vf-ok"}) ELSE {})
\* diag and up agree about what is wrong with the two file references
DiagAgrees(s) ==
  /\ ("mf-missing" \in Diag(s)) <=> ("merchants-file-not-found" \in Warnings(s))
  /\ ("vf-missing" \in Diag(s)) <=> ("views-file-not-found" \in Warnings(s))
  /\ ("mf-ok" \in Diag(s)) <=> (EffRules(s) = "rules")
\* a rule file that exists but is not used is always pointed out
UnusedRulesPointedOut(s) ==
  /\ (s.mfFile /\ EffRules(s) # "rules") => "rules-unreferenced" \in Diag(s)
  /\ (s.csvFile /\ EffRules(s) # "csv") => Diag(s) \cap {"legacy-csv", "mf-ok", "rules-unreferenced"} # {}

\* ---- properties (checked over ALL settings records by MC_Config) ----------------------------
\* a setting the run does not honour is never dropped silently
NothingIgnoredSilently(s) ==
  /\ (s.modeKey \notin {"absent", EffMode(s)}) => "invalid-rule-mode" \in Warnings(s)
  /\ (s.mfKey /\ EffRules(s) # "rules") => "merchants-file-not-found" \in Warnings(s)
  /\ (s.vfKey /\ ~EffViews(s)) => Warnings(s) \cap {"views-file-not-found", "views-error"} # {}
\* and nothing is reported when everything is honoured
NoSpuriousWarnings(s) ==
  (s.modeKey # "bogus" /\ (s.mfKey => s.mfFile) /\ (s.vfKey => s.vfFile = "ok") /\ ~s.removed) => Warnings(s) = {}
\* a configured merchants_file is never replaced by the legacy CSV behind the user's back
KeyWins(s) == s.mfKey => EffRules(s) # "csv"
\* settings are independent: changing one key changes only the part of the configuration it governs
Independent(s) ==
  /\ \A m \in ModeKeys : LET t == [s EXCEPT !.modeKey = m] IN
        EffRules(t) = EffRules(s) /\ EffViews(t) = EffViews(s) /\ EffCurrency(t) = EffCurrency(s)
  /\ \A c \in {"absent", "eur", "zl"} : LET t == [s EXCEPT !.cur = c] IN
        EffRules(t) = EffRules(s) /\ EffViews(t) = EffViews(s) /\ EffMode(t) = EffMode(s) /\ Warnings(t) = Warnings(s)
  /\ \A v \in BOOLEAN : LET t == [s EXCEPT !.vfKey = v] IN EffRules(t) = EffRules(s) /\ EffMode(t) = EffMode(s)
  \* a leftover key of a removed feature changes nothing but its own warning
  /\ LET t == [s EXCEPT !.removed = ~s.removed] IN
        /\ EffRules(t) = EffRules(s) /\ EffViews(t) = EffViews(s) /\ EffMode(t) = EffMode(s) /\ EffCurrency(t) = EffCurrency(s)
        /\ Warnings(t) \ {"removed-settings"} = Warnings(s) \ {"removed-settings"}
  /\ \A y \in {"absent", "y2024"}, o \in {"absent", "custom"} : LET t == [s EXCEPT !.year = y, !.out = o] IN
        EffRules(t) = EffRules(s) /\ EffViews(t) = EffViews(s) /\ EffMode(t) = EffMode(s) /\ Warnings(t) = Warnings(s)
=============================================================================
