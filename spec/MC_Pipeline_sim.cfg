SPECIFICATION Spec
CONSTANTS
  MaxSteps = 8
