SPECIFICATION Spec
CONSTANTS
  PairInit = FALSE
  MaxSteps = 8
