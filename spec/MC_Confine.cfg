SPECIFICATION Spec
INVARIANT Confined
INVARIANT NoAttrOnValues
INVARIANT MethodsOnlyOnStr
