------------------------------- MODULE Totals -------------------------------
(***************************************************************************)
(* Money-flow classification and totals of tally                           *)
(*   src/tally/classification.py  (categorize_amount, normalize_amount,    *)
(*        is_excluded_from_spending, calculate_cash_flow/_transfers_net)   *)
(*   src/tally/analyzer.py        (analyze_transactions: a fold over the   *)
(*        transaction list -> one AddTxn action per loop iteration)        *)
(*   src/tally/spending_report.js (categorizeAmount ... in the browser)    *)
(*                                                                         *)
(* Amounts are integers in a fixed sub-unit (quarters in the MC configs,   *)
(* cents in traces).  A tag is text = a tuple of character codes, so that  *)
(* "case-insensitively" is stated here and not delegated to the harness.   *)
(***************************************************************************)
EXTENDS Integers, Sequences, FiniteSets, TLC

\* ---------------------------------------------------------------- text ----
Fold(c) == IF c \in 65..90 THEN c + 32 ELSE c          \* ASCII lower-casing
FoldText(s) == [i \in 1..Len(s) |-> Fold(s[i])]
T_income     == <<105,110,99,111,109,101>>
T_investment == <<105,110,118,101,115,116,109,101,110,116>>
T_transfer   == <<116,114,97,110,115,102,101,114>>

\* tags: a sequence (list) of texts, possibly with duplicates
TagsLower(tags) == {FoldText(tags[i]) : i \in 1..Len(tags)}

Abs(a) == IF a < 0 THEN -a ELSE a

BucketNames == {"income", "investment", "transfer_in", "transfer_out", "spending", "credits"}

\* the one bucket a transaction falls into (precedence income > investment > transfer > sign)
Bucket(a, tags) ==
  LET L == TagsLower(tags) IN
  IF T_income \in L THEN "income"
  ELSE IF T_investment \in L THEN "investment"
  ELSE IF T_transfer \in L THEN (IF a > 0 THEN "transfer_in" ELSE "transfer_out")
  ELSE IF a > 0 THEN "spending" ELSE "credits"

\* categorize_amount: a vector with |a| in exactly one bucket
Categorize(a, tags) == [b \in BucketNames |-> IF b = Bucket(a, tags) THEN Abs(a) ELSE 0]

Excluded(tags) == LET L == TagsLower(tags) IN
  T_income \in L \/ T_investment \in L \/ T_transfer \in L

\* normalize_amount: the "effective" signed amount used for merchant/category/month sums
Effective(a, tags) ==
  LET L == TagsLower(tags) IN
  IF T_income \in L \/ T_investment \in L THEN Abs(a) ELSE a

\* what Bucket / Effective read off a tag list: its class.  Totals_Ind.tla (the unbounded-amount model discharged by Apalache)
\* speaks about classes only; ClassAbstractionSoundOf ties it to the tag texts (checked by TLC on every tag list of MC_Totals)
ClassOf(tags) == LET L == TagsLower(tags) IN
  IF T_income \in L THEN "income" ELSE IF T_investment \in L THEN "investment" ELSE IF T_transfer \in L THEN "transfer" ELSE "none"
BucketByClass(a, cl) ==
  IF cl = "income" THEN "income" ELSE IF cl = "investment" THEN "investment"
  ELSE IF cl = "transfer" THEN (IF a > 0 THEN "transfer_in" ELSE "transfer_out")
  ELSE IF a > 0 THEN "spending" ELSE "credits"
EffectiveByClass(a, cl) == IF cl \in {"income", "investment"} THEN Abs(a) ELSE a
ClassAbstractionSoundOf(t) ==
  /\ Bucket(t.amt, t.tags) = BucketByClass(t.amt, ClassOf(t.tags))
  /\ Effective(t.amt, t.tags) = EffectiveByClass(t.amt, ClassOf(t.tags))
  /\ Excluded(t.tags) = (ClassOf(t.tags) # "none")

CashFlow(income, spending, credits) == income - spending + credits
TransfersNet(tin, tout) == tin - tout

\* -------------------------------------------------- the accumulator ------
\* A transaction: [amt, tags, m (merchant), c (category key), mo (month key), src]
ZeroFn(S) == [x \in S |-> 0]

EmptyAcc(Ms, Cs, Mos) ==
  [flow |-> ZeroFn(BucketNames),
   mTotal |-> ZeroFn(Ms), mCount |-> ZeroFn(Ms),
   cTotal |-> ZeroFn(Cs), cCount |-> ZeroFn(Cs),
   moTotal |-> ZeroFn(Mos),
   count |-> 0, rawTotal |-> 0]

Step(acc, t) ==
  LET e == Effective(t.amt, t.tags)
      v == Categorize(t.amt, t.tags) IN
  [flow |-> [b \in BucketNames |-> acc.flow[b] + v[b]],
   mTotal |-> [acc.mTotal EXCEPT ![t.m] = @ + e],
   mCount |-> [acc.mCount EXCEPT ![t.m] = @ + 1],
   cTotal |-> [acc.cTotal EXCEPT ![t.c] = @ + e],
   cCount |-> [acc.cCount EXCEPT ![t.c] = @ + 1],
   moTotal |-> [acc.moTotal EXCEPT ![t.mo] = @ + e],
   count |-> acc.count + 1,
   rawTotal |-> acc.rawTotal + t.amt]

\* ------------------------------------- declarative (order-free) totals ----
\* sums over index sets of a sequence, defined without reference to any order
RECURSIVE SumOver(_, _)
SumOver(S, f) == IF S = {} THEN 0
                 ELSE LET x == CHOOSE y \in S : TRUE IN f[x] + SumOver(S \ {x}, f)

Idx(seq) == 1..Len(seq)

Declarative(seq, Ms, Cs, Mos) ==
  LET I == Idx(seq)
      eff == [i \in I |-> Effective(seq[i].amt, seq[i].tags)]
      one == [i \in I |-> 1] IN
  [flow |-> [b \in BucketNames |->
               SumOver({i \in I : Bucket(seq[i].amt, seq[i].tags) = b},
                       [i \in I |-> Abs(seq[i].amt)])],
   mTotal |-> [m \in Ms |-> SumOver({i \in I : seq[i].m = m}, eff)],
   mCount |-> [m \in Ms |-> Cardinality({i \in I : seq[i].m = m})],
   cTotal |-> [c \in Cs |-> SumOver({i \in I : seq[i].c = c}, eff)],
   cCount |-> [c \in Cs |-> Cardinality({i \in I : seq[i].c = c})],
   moTotal |-> [mo \in Mos |-> SumOver({i \in I : seq[i].mo = mo}, eff)],
   count |-> Len(seq),
   rawTotal |-> SumOver(I, [i \in I |-> seq[i].amt])]

SumFn(f) == SumOver(DOMAIN f, f)

\* ------------------------------------------------------- the properties ---
\* (stated on an accumulator acc reached by folding Step over seq)
ExactlyOneBucketOf(t) ==
  LET v == Categorize(t.amt, t.tags) IN
  /\ Cardinality({b \in BucketNames : v[b] # 0}) = (IF t.amt = 0 THEN 0 ELSE 1)
  /\ SumFn(v) = Abs(t.amt)
  /\ \A b \in BucketNames : v[b] >= 0

ConservationOf(acc, seq) ==
  SumFn(acc.flow) = SumOver(Idx(seq), [i \in Idx(seq) |-> Abs(seq[i].amt)])

MarginalsAgreeOf(acc) ==
  /\ SumFn(acc.mTotal) = SumFn(acc.cTotal)
  /\ SumFn(acc.mTotal) = SumFn(acc.moTotal)
  /\ SumFn(acc.mCount) = acc.count
  /\ SumFn(acc.cCount) = acc.count
  \* grand total of effective amounts expressed through the buckets
  /\ SumFn(acc.mTotal) = acc.flow["income"] + acc.flow["investment"] + acc.flow["transfer_in"]
                          - acc.flow["transfer_out"] + acc.flow["spending"] - acc.flow["credits"]

=============================================================================
