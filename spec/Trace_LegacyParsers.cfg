SPECIFICATION TraceSpec
POSTCONDITION Done
CHECK_DEADLOCK FALSE
