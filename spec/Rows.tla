-------------------------------- MODULE Rows --------------------------------
(***************************************************************************)
(* Reading statement rows (parsers.parse_generic_csv, parse_amount,        *)
(* _iter_rows_with_delimiter) - C05.                                       *)
(*                                                                         *)
(* A cell is a token of a vocabulary whose reading is known:               *)
(*   date cell   [id, val (<<y,m,d>>), fmts (formats under which the       *)
(*               stripped text is that date; {} = never a date), blank]    *)
(*   text cell   [id, blank]      (blank = empty after stripping)          *)
(*   amount cell [id, blank, dot, comma]   reading under each decimal      *)
(*               convention: [ok |-> BOOLEAN, cents |-> Int]               *)
(* A row is [date, desc, cap2, amt, loc, extra, shape] where shape is      *)
(*   "ok" | "short" (ends before the last required column) | "long"        *)
(*   (has surplus columns) | "emptyline".  A layout says which of the optional parts the *)
(*   format string uses; the concretiser decides the actual column order.  *)
(***************************************************************************)
EXTENDS Integers, Sequences, FiniteSets, TLC

Abs(x) == IF x < 0 THEN -x ELSE x

\* cfg: [fmt, sign \in {"plain","negate","abs"}, mode \in {"desc","template"}, hasloc, hasextra, dec \in {"dot","comma"}]
Reading(cell, dec) == IF dec = "dot" THEN cell.dot ELSE cell.comma

\* one row -> <<>> or <<txn>>
Parse1(row, cfg) ==
  LET rd == Reading(row.amt, cfg.dec)
      raw == rd.cents
      amt == IF cfg.sign = "abs" THEN Abs(raw) ELSE IF cfg.sign = "negate" THEN -raw ELSE raw
      descBlank == IF cfg.mode = "desc" THEN row.desc.blank ELSE FALSE   \* a filled template is never empty here
  IN
  IF row.shape \in {"short", "emptyline"} THEN <<>>
  ELSE IF row.date.blank \/ descBlank \/ row.amt.blank THEN <<>>
  ELSE IF cfg.fmt \notin row.date.fmts THEN <<>>
  ELSE IF ~rd.ok THEN <<>>
  ELSE IF amt = 0 THEN <<>>
  ELSE << [date |-> row.date.val,
           desc |-> IF cfg.mode = "desc" THEN <<row.desc.id>> ELSE <<row.desc.id, row.cap2.id>>,
           cents |-> amt, credit |-> amt < 0,
           loc |-> IF cfg.hasloc /\ ~row.loc.blank THEN row.loc.id ELSE "-",
           extra |-> IF cfg.hasextra THEN row.extra.id ELSE "-"] >>

RECURSIVE ParseAll(_, _)
ParseAll(rows, cfg) == IF rows = <<>> THEN <<>> ELSE Parse1(Head(rows), cfg) \o ParseAll(Tail(rows), cfg)

\* what the file reader hands to the row loop: with a header line the first record is dropped
Parse(table, cfg, header) == ParseAll(IF header /\ table # <<>> THEN Tail(table) ELSE table, cfg)

Good(row, cfg) == Parse1(row, cfg) # <<>>

\* ------------------------------------------------------------- properties --
OnePerGoodRow(rows, cfg) == Len(ParseAll(rows, cfg)) = Cardinality({i \in 1..Len(rows) : Good(rows[i], cfg)})
RowLocal(rows, cfg) ==
  \A k \in 0..Len(rows) :
     ParseAll(rows, cfg) = ParseAll(SubSeq(rows, 1, k), cfg) \o ParseAll(SubSeq(rows, k + 1, Len(rows)), cfg)
BadRowsIrrelevant(rows, cfg) ==
  \A i \in 1..Len(rows) :
     ~Good(rows[i], cfg) =>
        ParseAll(rows, cfg) = ParseAll(SubSeq(rows, 1, i - 1) \o SubSeq(rows, i + 1, Len(rows)), cfg)
SignLaw(rows, cfg) ==
  \A i \in 1..Len(ParseAll(rows, cfg)) :
     LET t == ParseAll(rows, cfg)[i] IN
     /\ t.cents # 0
     /\ (cfg.sign = "abs" => t.cents > 0)
     /\ t.credit = (t.cents < 0)
NegateIsMirror(rows, cfg) ==
  cfg.sign = "plain" =>
     LET a == ParseAll(rows, cfg)
         b == ParseAll(rows, [cfg EXCEPT !.sign = "negate"]) IN
     Len(a) = Len(b) /\ \A i \in 1..Len(a) : b[i].cents = -a[i].cents /\ b[i].desc = a[i].desc
HeaderSkipsExactlyOne(table, cfg) ==
  table # <<>> => Parse(table, cfg, TRUE) = ParseAll(Tail(table), cfg)
=============================================================================
