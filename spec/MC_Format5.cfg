SPECIFICATION Spec
CONSTANTS
  HeaderWidth = 7
  MaxWidth = 5
INVARIANT Inv_PositionBijection
INVARIANT Inv_RejectsMissing
INVARIANT Inv_RejectsDuplicate
INVARIANT Inv_RejectsUncapturedTemplateRef
INVARIANT Inv_SuggestRoundTrips
