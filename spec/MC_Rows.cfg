SPECIFICATION Spec
CONSTANTS
  MaxRows = 2
  RowSet = "full"
INVARIANT Inv_OnePerGoodRow
INVARIANT Inv_RowLocal
INVARIANT Inv_BadRowsIrrelevant
INVARIANT Inv_SignLaw
INVARIANT Inv_NegateIsMirror
INVARIANT Inv_HeaderSkipsExactlyOne
