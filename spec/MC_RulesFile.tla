---------------------------- MODULE MC_RulesFile ----------------------------
(* C17 universe: valid base files and every sequence of at most MaxEdits       *)
(* single-point edits of them (insert any token anywhere, delete a line,       *)
(* replace a line).  Each state carries the intended reading of the file.      *)
EXTENDS RulesFile

CONSTANTS MaxEdits

P(key, id) == [t |-> "prop", key |-> key, v |-> "good", id |-> id]
Bad(key, v) == [t |-> "prop", key |-> key, v |-> v, id |-> "x"]
H(n) == [t |-> "header", n |-> n]

MerchantBases == {
  << H("A"), P("match", "m1"), P("category", "c1"), P("subcategory", "s1"), P("tags", "t1") >>,
  << [t |-> "comment"], [t |-> "assign", var |-> "g1", v |-> "good"], [t |-> "transform", v |-> "good"], [t |-> "blank"],
     H("A"), P("let", "l1"), P("let", "l2"), P("match", "m1"), P("category", "c1"), P("field", "f1"), [t |-> "blank"],
     H("B"), P("match", "m2"), P("tags", "t1"), P("priority", "p1"), P("merchant", "n1") >> }
ViewBases == {
  << H("A"), P("filter", "m1") >>,
  << [t |-> "assign", var |-> "g1", v |-> "good"], [t |-> "comment"], H("A"), P("description", "d1"),
     [t |-> "assign", var |-> "v1", v |-> "good"], P("filter", "m1"), [t |-> "blank"], H("B"), P("filter", "m2") >> }
Bases == IF Kind = "merchants" THEN MerchantBases ELSE ViewBases

MerchantToks == { H("C"), [t |-> "headerjunk"], [t |-> "garbage"], [t |-> "comment"], [t |-> "blank"],
                  P("match", "m3"), Bad("match", "badexpr"), P("category", "c2"), P("subcategory", "s2"), P("tags", "t2"),
                  Bad("tags", "badexpr"), P("priority", "p2"), Bad("priority", "malformed"), P("let", "l3"),
                  Bad("let", "malformed"), Bad("let", "badexpr"), P("field", "f2"), Bad("field", "badexpr"), Bad("field", "malformed"),
                  Bad("bogus", "good"), [t |-> "assign", var |-> "g2", v |-> "good"], [t |-> "assign", var |-> "g3", v |-> "badexpr"],
                  [t |-> "transform", v |-> "good"], [t |-> "transform", v |-> "badexpr"] }
ViewToks == { H("C"), [t |-> "headerjunk"], [t |-> "garbage"], [t |-> "comment"], [t |-> "blank"],
              P("filter", "m3"), Bad("filter", "badexpr"), P("description", "d2"), Bad("bogus", "good"),
              [t |-> "assign", var |-> "g2", v |-> "good"], [t |-> "assign", var |-> "g3", v |-> "badexpr"] }
Toks == IF Kind = "merchants" THEN MerchantToks ELSE ViewToks

VARIABLES file, edits, res
vars == <<file, edits, res>>

Init == file \in Bases /\ edits = 0 /\ res = Result(file)
\* duplicate single-valued properties in one section are outside the statement (which one counts?): such edits are skipped
Dup(f) == \E i, j \in 1..Len(f) : i < j /\ f[i].t = "prop" /\ f[j].t = "prop" /\ f[i].key = f[j].key
             /\ f[i].key \notin {"let", "field"} /\ SectionOf(f, i) = SectionOf(f, j) /\ SectionOf(f, i) # 0
DupName(f) == \E i, j \in 1..Len(f) : i < j /\ f[i].t = "assign" /\ f[j].t = "assign" /\ f[i].var = f[j].var
Edit(nf) == /\ edits < MaxEdits /\ ~Dup(nf) /\ ~DupName(nf) /\ nf # file
            /\ file' = nf /\ edits' = edits + 1 /\ res' = Result(nf)
Next == \/ \E k \in 0..Len(file), x \in Toks : Edit(InsertAt(file, k, x))
        \/ \E k \in 1..Len(file) : Edit(RemoveAt(file, k))
        \/ \E k \in 1..Len(file), x \in Toks : Edit([file EXCEPT ![k] = x])
        \/ \E k \in 1..(Len(file) - 1) : Edit(SwapAt(file, k))
Spec == Init /\ [][Next]_vars

Inv_CommentsIrrelevant == CommentsIrrelevant(file)
Inv_PropOrderIrrelevant == PropOrderIrrelevant(file)
Inv_OneRulePerSection == OneRulePerSection(file)
Inv_ExactProps == ExactProps(file)
Inv_RejectNotTrim == RejectNotTrim(file)
Inv_ErrLinesNonEmpty == res.err => res.lines # {}
Neg_NeverRejects == ~res.err
=============================================================================
