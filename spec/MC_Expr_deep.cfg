SPECIFICATION Spec
CONSTANTS
  MaxDepth = 2
  EnvIdx = {1, 3}
  WithErr = FALSE
  IllTyped = FALSE
INVARIANT DoubleNeg
INVARIANT DeMorgan
INVARIANT Commute
INVARIANT ShortCircuit
INVARIANT ChainIsConjunction
INVARIANT EqNeComplement
INVARIANT DivModZero
INVARIANT CaseInsensitive
INVARIANT Deterministic
