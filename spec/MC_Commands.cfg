SPECIFICATION Spec
CONSTANTS
  MaxHist = 3
INVARIANT BackupKeptAndNothingLost
INVARIANT SettingsOnlyGrow
PROPERTY FrameReadOnly
PROPERTY InitKeeps
PROPERTY MigrationOnlyOnRequest
