SPECIFICATION FairSpec
CONSTANTS
  Impl = "intended"
  MaxWords = 3
INVARIANT Closure
PROPERTY StrictlyShrinks
PROPERTY Terminates
