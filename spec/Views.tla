------------------------------- MODULE Views -------------------------------
(***************************************************************************)
(* Views (C10): which merchants a views file lists under which view.       *)
(*   section_engine.classify_merchants / evaluate_section_filter           *)
(*   expr_parser.ExpressionEvaluator + ExpressionContext (the filter       *)
(*   language over ONE merchant's payments)                                *)
(*   analyzer.classify_by_sections / compute_section_totals                *)
(*                                                                         *)
(* A merchant  [name, cat, sub, tags (set of lower-case texts),            *)
(*              pays : Seq([date |-> <<y,m,d>>, amt |-> num value])]       *)
(* A view      [name, filter (AST), vars : Seq([n, e])]                    *)
(* A file      [globals : Seq([n, e]), views : Seq(view)]                  *)
(* Values / arithmetic / comparisons are those of Expr.tla; in addition    *)
(*   [t |-> "set", v]   the merchant's tags                                *)
(*   [t |-> "cv", q (cv squared, a num), neg]   the coefficient of         *)
(*        variation, kept exact by carrying its square: it may only be     *)
(*        compared with rational constants (anything else: Oou)            *)
(***************************************************************************)
EXTENDS Expr

\* ------------------------------------------------------------ aggregates --
Amts(m) == [i \in 1..Len(m.pays) |-> m.pays[i].amt]
RECURSIVE SumNums(_, _)
SumNums(vs, k) == IF k > Len(vs) THEN Int_(0) ELSE Arith("add", vs[k], SumNums(vs, k + 1))
MonthKey(d) == d[1] * 100 + d[2]
Keys(m, unit) == {IF unit = "year" THEN m.pays[i].date[1]
                  ELSE IF unit = "month" THEN MonthKey(m.pays[i].date)
                  ELSE MonthKey(m.pays[i].date) * 100 + m.pays[i].date[3] : i \in 1..Len(m.pays)}
KeyOf(p, unit) == IF unit = "year" THEN p.date[1] ELSE IF unit = "month" THEN MonthKey(p.date)
                  ELSE MonthKey(p.date) * 100 + p.date[3]
\* sorted sequence of a finite set of naturals
RECURSIVE SortedSeq(_)
SortedSeq(KS) == IF KS = {} THEN <<>> ELSE LET x == CHOOSE y \in KS : \A z \in KS : y <= z IN <<x>> \o SortedSeq(KS \ {x})
\* by(unit): the payments grouped by period, groups in period order, each group in payment order
RECURSIVE PickGroup(_, _, _, _)
PickGroup(m, unit, key, i) ==
  IF i > Len(m.pays) THEN <<>>
  ELSE (IF KeyOf(m.pays[i], unit) = key THEN <<m.pays[i].amt>> ELSE <<>>) \o PickGroup(m, unit, key, i + 1)
By(m, unit) == LET ks == SortedSeq(Keys(m, unit)) IN L([g \in 1..Len(ks) |-> L(PickGroup(m, unit, ks[g], 1))])

MonthsOf(m) == IF m.pays = <<>> THEN 1 ELSE Cardinality(Keys(m, "month"))
TotalOf(m) == SumNums(Amts(m), 1)

\* cv = population standard deviation of the monthly totals / their mean; 0 with fewer than two months or mean 0.
\* carried as its square q = (n * Sum x^2 - S^2) / S^2 with the sign of S
MonthlyTotals(m) == LET ks == SortedSeq(Keys(m, "month")) IN [g \in 1..Len(ks) |-> SumNums(PickGroup(m, "month", ks[g], 1), 1)]
RECURSIVE SumSq(_, _)
SumSq(vs, k) == IF k > Len(vs) THEN Int_(0) ELSE Arith("add", Arith("mult", vs[k], vs[k]), SumSq(vs, k + 1))
CvOf(m) ==
  LET mt == MonthlyTotals(m)
      n == Len(mt)
      s == SumNums(mt, 1) IN
  IF n < 2 \/ s.n = 0 THEN [t |-> "cv", q |-> Int_(0), neg |-> FALSE]
  ELSE LET num == Arith("sub", Arith("mult", Int_(n), SumSq(mt, 1)), Arith("mult", s, s))
           q == Arith("div", num, Arith("mult", s, s)) IN
       [t |-> "cv", q |-> q, neg |-> s.n < 0]

\* cv <op> c  for a rational constant c; exact ties are outside the universe (floating point square roots)
CmpCv(op, cv, c0, flipped) ==
  LET c == AsNum(c0)
      o == IF ~flipped THEN op ELSE CASE op = "lt" -> "gt" [] op = "le" -> "ge" [] op = "gt" -> "lt" [] op = "ge" -> "le" [] OTHER -> op
      csq == Arith("mult", c, c)
      \* sign-aware comparison of sqrt(q)*sgn with c
      less == IF cv.neg /\ cv.q.n # 0 THEN (IF c.n >= 0 THEN TRUE ELSE NumLess(csq, cv.q))      \* -sqrt(q) < c
              ELSE (IF c.n < 0 THEN FALSE ELSE NumLess(cv.q, csq))                                \*  sqrt(q) < c
      tie == (IF cv.neg /\ cv.q.n # 0 THEN c.n < 0 ELSE c.n >= 0) /\ NumEq(cv.q, csq)
  IN IF o \notin {"lt", "le", "gt", "ge"} \/ IsBad(cv.q) \/ IsBad(csq) THEN Oou      \* (squares beyond 32 bits: outside the model)
     ELSE IF tie THEN (IF cv.q.n = 0 THEN B(o \in {"le", "ge"}) ELSE Oou)      \* cv = 0 exactly is exact in floating point too
     ELSE B(IF o \in {"lt", "le"} THEN less ELSE ~less)

\* aggregate over a list of numbers, or mapped over a list of lists
Agg1(fn, vs) ==
  IF \E i \in 1..Len(vs) : ~IsNumLike(vs[i]) THEN Err
  ELSE CASE fn = "sum" -> SumNums(vs, 1)
         [] fn = "count" -> Int_(Len(vs))
         [] fn = "avg" -> IF vs = <<>> THEN Int_(0) ELSE Arith("div", SumNums(vs, 1), Int_(Len(vs)))
         [] fn = "max" -> IF vs = <<>> THEN Int_(0) ELSE Extreme(vs, 2, vs[1], TRUE)
         [] fn = "min" -> IF vs = <<>> THEN Int_(0) ELSE Extreme(vs, 2, vs[1], FALSE)
Agg(fn, x) ==
  IF x.t # "list" THEN Err
  ELSE IF x.v # <<>> /\ x.v[1].t = "list"
       THEN LET rs == [i \in 1..Len(x.v) |-> IF x.v[i].t = "list" THEN Agg1(fn, x.v[i].v) ELSE Err] IN
            IF \E i \in 1..Len(rs) : IsBad(rs[i]) THEN Err ELSE L(rs)
       ELSE Agg1(fn, x.v)

\* stddev(): the reference says "standard deviation" and no more (sample or population?).  What every definition agrees on is
\* all the specification states: fewer than two values, or values that are all equal, deviate by 0; anything else is outside
\* the model ("oou": never judged).  Like the other aggregates it maps over the groups of by().
Std1(vs) ==
  IF \E i \in 1..Len(vs) : ~IsNumLike(vs[i]) THEN Err
  ELSE IF Len(vs) < 2 \/ \A i \in 1..Len(vs) : NumEq(AsNum(vs[i]), AsNum(vs[1])) THEN Int_(0)
  ELSE Oou
StdAgg(x) ==
  IF x.t # "list" THEN Err
  ELSE IF x.v # <<>> /\ x.v[1].t = "list"
       THEN LET rs == [i \in 1..Len(x.v) |-> IF x.v[i].t = "list" THEN Std1(x.v[i].v) ELSE Err] IN
            IF \E i \in 1..Len(rs) : rs[i].t = "err" THEN Err
            ELSE IF \E i \in 1..Len(rs) : rs[i].t = "oou" THEN Oou ELSE L(rs)
       ELSE Std1(x.v)

\* --------------------------------------------------------------- evaluator --
\* ctx: [m (merchant), vars (name -> value), period ([month, year])]
RECURSIVE EvalV(_, _)
RECURSIVE EvalVBool(_, _, _, _)
RECURSIVE EvalVCmp(_, _, _, _)
RECURSIVE EvalVArgs(_, _, _, _)

VCmpLink(op, l, r) ==
  IF l.t = "cv" /\ IsNumLike(r) THEN CmpCv(op, l, r, FALSE)
  ELSE IF r.t = "cv" /\ IsNumLike(l) THEN CmpCv(op, r, l, TRUE)
  ELSE IF l.t = "cv" \/ r.t = "cv" THEN Oou
  ELSE IF op \in {"in", "notin"} /\ r.t = "set"
       THEN LET hit == IF l.t = "str" THEN LowerT(l.v) \in r.v ELSE FALSE IN B(IF op = "in" THEN hit ELSE ~hit)
  ELSE IF l.t = "set" \/ r.t = "set" THEN (IF op \in {"eq", "ne"} THEN Oou ELSE Err)
  ELSE IF (l.t = "list" \/ r.t = "list") /\ op \in {"lt", "le", "gt", "ge"} /\ ~(l.t = "list" /\ r.t = "list") THEN Err
  ELSE CmpLink(op, l, r)

EvalVArgs(nodes, k, ctx, acc) ==
  IF k > Len(nodes) THEN L(acc)
  ELSE LET v == EvalV(nodes[k], ctx) IN IF IsBad(v) THEN v ELSE EvalVArgs(nodes, k + 1, ctx, Append(acc, v))
EvalVBool(op, nodes, k, ctx) ==
  IF k > Len(nodes) THEN B(op = "and")
  ELSE LET v == EvalV(nodes[k], ctx) IN
       IF IsBad(v) THEN v
       ELSE IF v.t = "cv" THEN Oou
       ELSE IF op = "and" /\ ~Truthy(v) THEN B(FALSE)
       ELSE IF op = "or" /\ Truthy(v) THEN B(TRUE)
       ELSE EvalVBool(op, nodes, k + 1, ctx)
EvalVCmp(left, ops, rights, ctx) ==
  IF ops = <<>> THEN B(TRUE)
  ELSE LET r == EvalV(rights[1], ctx) IN
       IF IsBad(r) THEN r
       ELSE LET c == VCmpLink(ops[1], left, r) IN
            IF IsBad(c) THEN c ELSE IF ~c.v THEN B(FALSE) ELSE EvalVCmp(r, Tail(ops), Tail(rights), ctx)

EvalV(node, ctx) ==
  CASE node.k = "const" -> node.v
    [] node.k = "name" ->
         LET n == node.n IN
         IF n \in DOMAIN ctx.vars THEN ctx.vars[n]
         ELSE CASE n = "payments" -> L(Amts(ctx.m))
                [] n = "months" -> Int_(MonthsOf(ctx.m))
                [] n = "category" -> S(ctx.m.cat)
                [] n = "subcategory" -> S(ctx.m.sub)
                [] n = "merchant" -> S(ctx.m.name)
                [] n = "tags" -> [t |-> "set", v |-> ctx.m.tags]
                [] n = "cv" -> CvOf(ctx.m)
                [] n = "total" -> TotalOf(ctx.m)
                [] n = "true" -> B(TRUE)
                [] n = "false" -> B(FALSE)
                [] OTHER -> Err
    [] node.k = "boolop" -> EvalVBool(node.op, node.vals, 1, ctx)
    [] node.k = "not" -> LET v == EvalV(node.x, ctx) IN IF IsBad(v) THEN v ELSE IF v.t = "cv" THEN Oou ELSE B(~Truthy(v))
    [] node.k = "neg" -> LET v == EvalV(node.x, ctx) IN
                         IF IsBad(v) THEN v ELSE IF IsNumLike(v) THEN LET a == AsNum(v) IN Num(-a.n, a.d, a.f)
                         ELSE IF v.t = "cv" THEN Oou ELSE Err
    [] node.k = "bin" ->
         LET l == EvalV(node.l, ctx) IN
         IF IsBad(l) THEN l
         ELSE LET r == EvalV(node.r, ctx) IN
              IF IsBad(r) THEN r
              ELSE IF l.t = "cv" \/ r.t = "cv" THEN Oou
              ELSE IF l.t = "set" \/ r.t = "set" THEN (IF node.op = "sub" /\ l.t = "set" /\ r.t = "set" THEN Oou ELSE Err)
              ELSE ArithSafe(node.op, l, r)
    [] node.k = "cmp" -> LET l == EvalV(node.left, ctx) IN IF IsBad(l) THEN l ELSE EvalVCmp(l, node.ops, node.rights, ctx)
    [] node.k = "ifexp" -> LET c == EvalV(node.test, ctx) IN
                           IF IsBad(c) THEN c ELSE IF c.t = "cv" THEN Oou
                           ELSE IF Truthy(c) THEN EvalV(node.body, ctx) ELSE EvalV(node.orelse, ctx)
    [] node.k = "call" ->
         LET a == EvalVArgs(node.args, 1, ctx, <<>>) IN
         IF IsBad(a) THEN a
         ELSE LET args == a.v
                  n == Len(args) IN
           CASE node.fn \in {"sum", "count", "avg", "max", "min"} -> IF n # 1 THEN Err ELSE Agg(node.fn, args[1])
             [] node.fn = "stddev" -> IF n # 1 THEN Err ELSE StdAgg(args[1])
             [] node.fn = "abs" -> IF n # 1 THEN Err ELSE IF args[1].t = "cv" THEN Oou
                                   ELSE IF IsNumLike(args[1]) THEN LET x == AsNum(args[1]) IN Num(AbsI(x.n), x.d, x.f) ELSE Err
             [] node.fn = "round" -> IF n = 1 /\ IsNumLike(args[1]) /\ AsNum(args[1]).d = 1 /\ ~AsNum(args[1]).f THEN AsNum(args[1])
                                     ELSE IF n \in {1, 2} /\ (IsNumLike(args[1]) \/ args[1].t = "cv") THEN Oou ELSE Err
             [] node.fn = "by" -> IF n # 1 \/ args[1].t # "str" THEN Err
                                  ELSE LET u == LowerT(args[1].v) IN
                                       IF u = <<109, 111, 110, 116, 104>> THEN By(ctx.m, "month")
                                       ELSE IF u = <<121, 101, 97, 114>> THEN By(ctx.m, "year")
                                       ELSE IF u = <<100, 97, 121>> THEN By(ctx.m, "day")
                                       ELSE IF u = <<119, 101, 101, 107>> THEN Oou
                                       ELSE Err
             [] node.fn = "period" -> IF n # 1 \/ args[1].t # "str" THEN Err
                                      ELSE LET u == LowerT(args[1].v) IN
                                           IF u = <<109, 111, 110, 116, 104>> THEN Int_(ctx.period.month)
                                           ELSE IF u = <<121, 101, 97, 114>> THEN Int_(ctx.period.year)
                                           ELSE Err
             [] node.fn \in {"max_val", "min_val"} ->
                  IF n # 2 THEN Err ELSE IF args[1].t = "cv" \/ args[2].t = "cv" THEN Oou
                  ELSE Extreme(args, 2, args[1], node.fn = "max_val")
             [] OTHER -> Err
    [] OTHER -> Err          \* attributes, subscripts, comprehensions, methods: not in the view language

\* variables: evaluated in order, later ones may use earlier ones; one that cannot be evaluated is None
RECURSIVE BindVars(_, _, _, _, _)
BindVars(decls, k, m, vars, period) ==
  IF k > Len(decls) THEN vars
  ELSE LET v == EvalV(decls[k].e, [m |-> m, vars |-> vars, period |-> period]) IN
       BindVars(decls, k + 1, m, Bind(vars, decls[k].n, IF v.t = "err" THEN None ELSE v), period)

Excluded(m) == \E t \in m.tags : t \in {<<105, 110, 99, 111, 109, 101>>, <<116, 114, 97, 110, 115, 102, 101, 114>>,
                                        <<105, 110, 118, 101, 115, 116, 109, 101, 110, 116>>}
\* "T" member, "F" not a member, "O" outside what the specification defines
MemberOf(file, view, m, period) ==
  LET g == BindVars(file.globals, 1, m, <<>>, period)
      l == BindVars(view.vars, 1, m, g, period)
      v == EvalV(view.filter, [m |-> m, vars |-> l, period |-> period])
      anyOou == \E x \in DOMAIN l : l[x].t = "oou" IN
  IF Excluded(m) THEN "F"
  ELSE IF v.t = "oou" \/ anyOou \/ v.t = "cv" THEN "O"
  ELSE IF v.t = "err" THEN "F"
  ELSE IF Truthy(v) THEN "T" ELSE "F"

PeriodOf(ms) ==
  LET mo == UNION {Keys(ms[i], "month") : i \in {j \in 1..Len(ms) : ~Excluded(ms[j])}}
      yr == UNION {Keys(ms[i], "year") : i \in {j \in 1..Len(ms) : ~Excluded(ms[j])}} IN
  [month |-> Cardinality(mo), year |-> Cardinality(yr)]
=============================================================================
