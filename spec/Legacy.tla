------------------------------- MODULE Legacy -------------------------------
(***************************************************************************)
(* Legacy CSV rules (merchant_utils.load_merchant_rules, modifier_parser,  *)
(* the tuple loop of normalize_merchant) and their migration to .rules     *)
(* (merchant_engine.csv_to_merchants_content) - C14, and the CSV half of   *)
(* C01.                                                                    *)
(*                                                                         *)
(* A CSV rule [pat (Regex.tla element list), mods (sequence of modifiers), *)
(*             id, cat, sub, tags]                                         *)
(* A modifier [m |-> "amt", op, v (num), v2] | [m |-> "date", op, d, d2]   *)
(*            | [m |-> "month", mo] | [m |-> "rel", days]                  *)
(* A transaction [desc (codes), amount (num), date <<y,m,d>>]              *)
(*                                                                         *)
(* Convert is the INTENDED refinement mapping to the expression language   *)
(* of Expr.tla; MigrationPreserves (checked by TLC on the model) says the  *)
(* converted rule matches exactly the transactions the CSV rule matches.   *)
(* "rel" (date:lastNdays) has no counterpart in the expression language:   *)
(* Convertible is false for it (the known finding of C14).                 *)
(***************************************************************************)
EXTENDS Expr

\* ---- CSV side --------------------------------------------------------------
ModHolds(md, t) ==
  CASE md.m = "amt" ->
         LET a == t.amount IN
         (CASE md.op = "gt" -> NumLess(md.v, a) [] md.op = "ge" -> ~NumLess(a, md.v)
            [] md.op = "lt" -> NumLess(a, md.v) [] md.op = "le" -> ~NumLess(md.v, a)
            [] md.op = "eq" -> LET diff == Arith("sub", a, md.v)
                                   ad == Num(AbsI(diff.n), diff.d, TRUE) IN NumLess(ad, Num(1, 100, TRUE))
            [] md.op = "range" -> ~NumLess(a, md.v) /\ ~NumLess(md.v2, a))
    [] md.m = "date" -> (CASE md.op = "eq" -> t.date = md.d
                           [] md.op = "range" -> ~DateLess(t.date, md.d) /\ ~DateLess(md.d2, t.date))
    [] md.m = "month" -> t.date[2] = md.mo
    [] md.m = "rel" -> TRUE             \* depends on today's date: not part of the bounded universe's judgement

\* the legacy loop searches the UPPER-CASED description, case-insensitively
CsvRuleMatches(r, t) == Matches(r.pat, UpperT(t.desc)) /\ \A k \in 1..Len(r.mods) : ModHolds(r.mods[k], t)

\* ---- converted side ----------------------------------------------------------
C(v) == [k |-> "const", v |-> v]
Nm(n) == [k |-> "name", n |-> n]
Cmp1(op, l, r) == [k |-> "cmp", left |-> l, ops |-> <<op>>, rights |-> <<r>>]
DateText(d) ==  \* "YYYY-MM-DD"
  LET dg(n, k) == 48 + ((n \div k) % 10) IN
  << dg(d[1], 1000), dg(d[1], 100), dg(d[1], 10), dg(d[1], 1), 45, dg(d[2], 10), dg(d[2], 1), 45, dg(d[3], 10), dg(d[3], 1) >>
ModExpr(md) ==
  CASE md.m = "amt" ->
         (CASE md.op \in {"gt", "ge", "lt", "le"} -> <<Cmp1(md.op, Nm("amount"), C(md.v))>>
            [] md.op = "eq" -> <<Cmp1("lt", [k |-> "call", fn |-> "abs", args |-> <<[k |-> "bin", op |-> "sub", l |-> Nm("amount"), r |-> C(md.v)]>>],
                                      C(Num(1, 100, TRUE)))>>
            [] md.op = "range" -> <<Cmp1("ge", Nm("amount"), C(md.v)), Cmp1("le", Nm("amount"), C(md.v2))>>)
    [] md.m = "date" -> (CASE md.op = "eq" -> <<Cmp1("eq", Nm("date"), C(S(DateText(md.d))))>>
                           [] md.op = "range" -> <<Cmp1("ge", Nm("date"), C(S(DateText(md.d)))), Cmp1("le", Nm("date"), C(S(DateText(md.d2))))>>)
    [] md.m = "month" -> <<Cmp1("eq", Nm("month"), C(Int_(md.mo)))>>
    [] md.m = "rel" -> <<>>
RECURSIVE ModExprs(_, _)
ModExprs(mods, k) == IF k > Len(mods) THEN <<>> ELSE ModExpr(mods[k]) \o ModExprs(mods, k + 1)
Convertible(r) == \A k \in 1..Len(r.mods) : r.mods[k].m # "rel"
\* regex("<pattern>") and <modifier conditions>
Convert(r) ==
  LET rx == [k |-> "call", fn |-> "regex", args |-> <<C([t |-> "str", v |-> <<>>, re |-> r.pat])>>]
      conj == <<rx>> \o ModExprs(r.mods, 1) IN
  IF Len(conj) = 1 THEN rx ELSE [k |-> "boolop", op |-> "and", vals |-> conj]

EnvOf(t) == [desc |-> t.desc, amount |-> t.amount, date |-> t.date, field |-> <<>>, source |-> <<>>, location |-> <<>>,
             vars |-> <<>>, rows |-> <<>>]
ConvertedMatches(r, t) == LET v == Eval(Convert(r), EnvOf(t), <<>>).v IN v.t = "bool" /\ v.v

\* C14 on the model: the intended conversion preserves which transactions a rule matches
MigrationPreserves(r, t) == Convertible(r) => (ConvertedMatches(r, t) <=> CsvRuleMatches(r, t))

\* ---- classification of a transaction by a CSV rule file (first categorising match; tags from all matches) ----
CsvMatching(rules, t) == {i \in 1..Len(rules) : CsvRuleMatches(rules[i], t)}
CsvClassify(rules, t) ==
  LET MS == CsvMatching(rules, t)
      Cs == {i \in MS : rules[i].cat # ""}
      w == IF Cs = {} THEN 0 ELSE CHOOSE i \in Cs : \A j \in Cs : i <= j IN
  [win |-> w, tags |-> UNION {rules[i].tags : i \in MS}, matching |-> MS]
=============================================================================
