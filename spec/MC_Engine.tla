----------------------------- MODULE MC_Engine -----------------------------
(* Bounded universe of rule files x transactions for C01 / C02 / C08.        *)
(* A state is a rule file (built rule by rule) together with the spec's      *)
(* classification of EVERY transaction of the universe; TLC checks the laws   *)
(* for all transactions in every state, and every state is exported (-dump),  *)
(* concretised into real .rules / CSV text and replayed into the real engine. *)
EXTENDS Engine, SequencesExt

CONSTANTS MaxRules, Rich, Modes

\* ---- transactions: truth of the atoms, value class of the dynamic tag --------------------
TruthA == {"T", "F"}
TVs == {tv \in [{"A1", "A2", "AE"} -> {"T", "F", "E"}] : tv["A1"] \in TruthA /\ tv["A2"] \in TruthA}
Txns == [v : TVs, dyn : {"val", "empty", "err"}]
TxnSeq == SetToSeq(Txns)

\* ---- conditions ---------------------------------------------------------------------------
At(a) == [k |-> "atom", a |-> a]
V(n) == [k |-> "var", n |-> n]
Not(x) == [k |-> "not", x |-> x]
And(l, r) == [k |-> "and", l |-> l, r |-> r]
Or(l, r) == [k |-> "or", l |-> l, r |-> r]
NoLets == <<>>
Let1(n, c) == <<[n |-> n, c |-> c]>>

\* (condition, lets) pairs
PlainConds == {At("A1"), At("A2"), At("AE"), Not(At("A1"))}
RichConds ==
  { <<c, NoLets>> : c \in PlainConds \cup
       {And(At("A1"), At("A2")), Or(At("A1"), At("AE")), Or(At("AE"), At("A1")),
        And(At("AE"), At("A1")), And(At("A1"), At("AE")), Not(At("AE")),
        V("g1"), And(At("A1"), V("g1")), Not(V("g1")), V("l1")} }
  \cup { <<V("l1"), Let1("l1", At("A2"))>>, <<V("l1"), Let1("l1", At("AE"))>>,
         <<And(At("A1"), Not(V("l1"))), Let1("l1", At("AE"))>>,
         <<At("A1"), Let1("g1", At("A1"))>>,                           \* shadows the global, must stay local
         <<V("g1"), <<[n |-> "l1", c |-> At("A2")], [n |-> "g1", c |-> V("l1")]>> >>,
         \* the same second binding text (g1 = l1) after a DIFFERENT first one: a let's value depends on the rule's own
         \* earlier bindings, not on its text
         <<V("g1"), <<[n |-> "l1", c |-> At("A1")], [n |-> "g1", c |-> V("l1")]>> >>,
         <<V("g1"), <<[n |-> "l1", c |-> Not(At("A2"))], [n |-> "g1", c |-> V("l1")]>> >>,
         \* a binding that may FAIL followed by an independent one: only the failing binding becomes None
         <<V("g1"), <<[n |-> "l1", c |-> At("AE")], [n |-> "g1", c |-> At("A2")]>> >>,
         <<And(At("A1"), V("g1")), <<[n |-> "l1", c |-> At("AE")], [n |-> "g1", c |-> Not(At("A2"))]>> >> }
CondLets == IF Rich THEN RichConds ELSE {<<c, NoLets>> : c \in PlainConds}

\* (category, subcategory, tags, merchant-property) profiles; a rule needs a category or tags
Profiles ==
  { [cat |-> "C1", sub |-> "", tags |-> {}, m |-> ""],
    [cat |-> "C1", sub |-> "S1", tags |-> {}, m |-> "M1"],
    [cat |-> "C2", sub |-> "S1", tags |-> {"ta"}, m |-> ""],
    [cat |-> "C2", sub |-> "", tags |-> {"dyn"}, m |-> ""],
    [cat |-> "", sub |-> "", tags |-> {"ta"}, m |-> ""],
    [cat |-> "", sub |-> "", tags |-> {"tb", "dyn"}, m |-> "M2"],
    [cat |-> "", sub |-> "S2", tags |-> {"tb"}, m |-> ""] }

\* canonical specificity of a condition as the concretiser writes it:
\*   A1 = one pattern function over a 4-letter literal; A2 = an amount constraint; AE = a field constraint
RECURSIVE AtomsOf(_)
AtomsOf(c) == CASE c.k = "atom" -> {c.a} [] c.k = "var" -> {} [] c.k = "not" -> AtomsOf(c.x)
                [] OTHER -> AtomsOf(c.l) \cup AtomsOf(c.r)
RECURSIVE CountA1(_)
CountA1(c) == CASE c.k = "atom" -> (IF c.a = "A1" THEN 1 ELSE 0) [] c.k = "var" -> 0 [] c.k = "not" -> CountA1(c.x)
                [] OTHER -> CountA1(c.l) + CountA1(c.r)
RECURSIVE CountAE(_)
CountAE(c) == CASE c.k = "atom" -> (IF c.a = "AE" THEN 1 ELSE 0) [] c.k = "var" -> 0 [] c.k = "not" -> CountAE(c.x)
                [] OTHER -> CountAE(c.l) + CountAE(c.r)
\* the literal of the canonical field test (field.kind == "ach") is 3 characters long; whether a comparison literal is
\* "pattern text" is not fixed by C09 - the model follows the code here and C09's own universe (MC_Specific) avoids it
SpecOfCond(c) == <<50, CountA1(c), Cardinality(AtomsOf(c) \cap {"A2", "AE"}), 4 * CountA1(c) + 3 * CountAE(c)>>
RECURSIVE UsesVar(_)
UsesVar(c) == CASE c.k = "atom" -> FALSE [] c.k = "var" -> TRUE [] c.k = "not" -> UsesVar(c.x)
                [] OTHER -> UsesVar(c.l) \/ UsesVar(c.r)

Rule(id, cl, p) == [id |-> id, cond |-> cl[1], lets |-> cl[2], cat |-> p.cat, sub |-> p.sub,
                    tags |-> p.tags, m |-> p.m, spec |-> SpecOfCond(cl[1])]

GlobalsSet == IF Rich THEN {<<>>, <<[n |-> "g1", c |-> At("A2")]>>, <<[n |-> "g1", c |-> At("AE")]>>}
                      ELSE {<<>>}

VARIABLES f, res, txns
vars == <<f, res, txns>>

Results(file) == [k \in DOMAIN TxnSeq |-> Obs(file, TxnSeq[k])]

Init == \E g \in GlobalsSet, mode \in Modes :
          /\ f = [globals |-> g, rules |-> <<>>, mode |-> mode]
          /\ res = Results(f)
          /\ txns = TxnSeq

AddRule(cl, p) ==
  /\ Len(f.rules) < MaxRules
  \* in most_specific mode the ranking of variable-using conditions is not fixed by the property: keep them out
  /\ (f.mode = "most_specific" => ~UsesVar(cl[1]) /\ cl[2] = NoLets)
  /\ f' = [f EXCEPT !.rules = Append(@, Rule(Len(@) + 1, cl, p))]
  /\ res' = Results(f')
  /\ UNCHANGED txns

Next == \E cl \in CondLets, p \in Profiles : AddRule(cl, p)
Spec == Init /\ [][Next]_vars

ForAllT(P(_, _)) == \A k \in DOMAIN TxnSeq : P(f, TxnSeq[k])
Inv_NonMatchingIrrelevant == ForAllT(NonMatchingIrrelevant)
Inv_LaterRulesIrrelevant  == ForAllT(LaterRulesIrrelevant)
Inv_TagOnlyNeutral        == ForAllT(TagOnlyNeutral)
Inv_TagsAreUnion          == ForAllT(TagsAreUnion)
Inv_ErrorIsAbsence        == ForAllT(ErrorIsAbsence)
Inv_LetIsLocal            == ForAllT(LetIsLocal)
Inv_OrderIndependent      == ForAllT(OrderIndependent)
Inv_TagsOrderIndependent  == ForAllT(TagsOrderIndependent)
\* negative control (must be refuted): "a tag-only rule never matches"
Neg_TagOnlyNeverMatches == \A k \in DOMAIN TxnSeq : \A i \in Classify(f, TxnSeq[k]).matching : IsCat(f.rules[i])
=============================================================================
