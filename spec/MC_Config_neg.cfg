SPECIFICATION Spec
INVARIANT Neg_CsvAlwaysUsed
