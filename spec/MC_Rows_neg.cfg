SPECIFICATION Spec
CONSTANTS
  MaxRows = 1
  RowSet = "small"
INVARIANT Neg_EveryRowCounts
