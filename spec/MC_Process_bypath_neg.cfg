SPECIFICATION Spec
CONSTANTS
  RulesPaths = {"a.rules", "b.rules"}
  CsvPaths = {"c.csv"}
  RulesOK = {"R1", "R2", "R3", "R4"}
  RulesBad = {"RBAD", "RMISSING"}
  CsvOK = {"K1", "K2"}
  CsvBad = {"KMISSING"}
  Txns = {"t1", "t2", "t3", "t4"}
  Exprs = {"e1", "e2", "e3", "e4", "e5", "e6"}
  Impl = "bypath"
  WithClear = TRUE
  WithObj = FALSE
  MaxSteps = 100
VIEW view
INVARIANT HistoryIndependent
