SPECIFICATION Spec
CONSTANTS
  RowSet <- MCRows
  MaxLen = 2
  Src = "BOA"
INVARIANT Neg_EveryRow
