------------------------------ MODULE MC_Rows ------------------------------
(* Bounded universe for C05: tables of up to MaxRows rows, each row a good    *)
(* base row with (at most) one cell replaced by every vocabulary cell, or a   *)
(* short / long / empty-line row; every layout, sign mode, decimal            *)
(* convention, with and without header line.                                  *)
EXTENDS Rows, MC_RowsData

CONSTANTS MaxRows, RowSet

\* a row in a state holds cell ids only (small dumps); Resolve looks the cells up
Cell(S, i) == CHOOSE c \in S : c.id = i
Resolve(r) == [date |-> Cell(DateCells, r.date), desc |-> Cell(TextCells, r.desc), cap2 |-> Cell(TextCells, r.cap2),
               amt |-> Cell(AmtCells, r.amt), loc |-> Cell(TextCells, r.loc), extra |-> Cell(TextCells, r.extra), shape |-> r.shape]
ResolveAll(t) == [i \in 1..Len(t) |-> Resolve(t[i])]
Ids(S) == {c.id : c \in S}
Base1 == [date |-> "d1", desc |-> "A", cap2 |-> "k", amt |-> "p1250", loc |-> "loc", extra |-> "k", shape |-> "ok"]
Base2 == [date |-> "d2", desc |-> "Bp", cap2 |-> "A", amt |-> "m3", loc |-> "empty", extra |-> "empty", shape |-> "ok"]
BaseI == [Base1 EXCEPT !.date = "i1"]          \* good under the ISO layout
FullRows ==
     {[Base1 EXCEPT !.date = c] : c \in Ids(DateCells)} \cup {[Base1 EXCEPT !.desc = c] : c \in Ids(TextCells)}
  \cup {[Base1 EXCEPT !.amt = c] : c \in Ids(AmtCells)} \cup {[BaseI EXCEPT !.amt = c] : c \in Ids(AmtCells)}
  \cup {[Base1 EXCEPT !.shape = s] : s \in {"short", "long", "emptyline"}}
  \cup {[Base1 EXCEPT !.loc = "blank"], [Base1 EXCEPT !.cap2 = "empty"], Base2, BaseI,
        [BaseI EXCEPT !.shape = "long"], [BaseI EXCEPT !.date = "i2", !.desc = "uni"]}
SmallRows == {Base1, Base2, BaseI, [Base1 EXCEPT !.shape = "short"], [Base1 EXCEPT !.amt = "abc"],
              [Base1 EXCEPT !.amt = "zero"], [Base1 EXCEPT !.date = "bad30"],
              [Base1 EXCEPT !.desc = "empty"], [Base1 EXCEPT !.desc = "nl"],
              [BaseI EXCEPT !.amt = "paren3"], [Base1 EXCEPT !.shape = "emptyline"],
              [Base1 EXCEPT !.amt = "big"], [Base1 EXCEPT !.amt = "inf"]}
Rows_ == IF RowSet = "full" THEN FullRows ELSE SmallRows

Layouts == {"L1", "L2", "L3", "L4"}
CfgOf(l, sign, dec) ==
  [fmt |-> IF l = "L2" THEN "f2" ELSE "f1", sign |-> sign, mode |-> IF l = "L3" THEN "template" ELSE "desc",
   hasloc |-> l = "L2", hasextra |-> l = "L4", dec |-> dec]

VARIABLES table, layout, sign, dec, header, out
vars == <<table, layout, sign, dec, header, out>>
Cfg == CfgOf(layout, sign, dec)

Init == /\ table = <<>> /\ layout \in Layouts /\ sign \in {"plain", "negate", "abs"} /\ dec \in {"dot", "comma"}
        /\ header \in BOOLEAN /\ out = <<>>
AddRow == /\ Len(table) < MaxRows
          /\ \E r \in Rows_ : table' = Append(table, r)
          /\ out' = Parse(ResolveAll(table'), Cfg, header)
          /\ UNCHANGED <<layout, sign, dec, header>>
Next == AddRow
Spec == Init /\ [][Next]_vars

Inv_OnePerGoodRow == OnePerGoodRow(ResolveAll(table), Cfg)
Inv_RowLocal == RowLocal(ResolveAll(table), Cfg)
Inv_BadRowsIrrelevant == BadRowsIrrelevant(ResolveAll(table), Cfg)
Inv_SignLaw == SignLaw(ResolveAll(table), Cfg)
Inv_NegateIsMirror == NegateIsMirror(ResolveAll(table), Cfg)
Inv_HeaderSkipsExactlyOne == HeaderSkipsExactlyOne(ResolveAll(table), Cfg)
Neg_EveryRowCounts == Len(ParseAll(ResolveAll(table), Cfg)) = Len(table)
=============================================================================
