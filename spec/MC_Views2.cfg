SPECIFICATION Spec
CONSTANTS
  MaxViews = 2
  Combos = FALSE
INVARIANT ViewsIndependent
INVARIANT ExcludedNowhere
INVARIANT NegationPartitions
