------------------------------ MODULE Pipeline ------------------------------
(***************************************************************************)
(* `tally up` as a composition (C11), and explain / discover as views of   *)
(* the same classification (C16):                                          *)
(*                                                                         *)
(*   Report(b) = Totals( concat over the non-supplemental, present sources *)
(*                       of Classify(Parse(source, its own settings)) )    *)
(*                                                                         *)
(* Reading rows is Rows!Parse (C05's specification), classification is     *)
(* Engine!Classify (C01/C02/C09), money flow is Totals!Bucket (C06).  The  *)
(* budget fixes a small rule set whose atoms are decided by the row:       *)
(*   A1  description contains ALFA       A2  amount > 1000                 *)
(*   A3  amount < 0                      AS  a supplemental row has the    *)
(*   AP  description contains PAYROLL        same amount (needs the        *)
(*                                           supplemental source)          *)
(*   AW  the description rules see starts with APLPAY                      *)
(* A budget may carry a field transform that strips a leading "APLPAY "    *)
(* from the description BEFORE rules are matched (b.xform; .rules files    *)
(* only): rules then see the transformed text, the report keeps the raw    *)
(* one.  Rule 6 (startswith APLPAY) is therefore dead in such a budget.    *)
(***************************************************************************)
EXTENDS Integers, Sequences, FiniteSets, TLC

R == INSTANCE Rows
E == INSTANCE Engine
D == INSTANCE MC_RowsData
C == INSTANCE Config

\* what the budget's settings.yaml says and which files exist, as Config.tla sees it.  b.rules / b.mode / b.views are what
\* the user means to configure; b.modeBogus (rule_mode: misspelt), b.mfMissing (merchants_file: names a file that is not
\* there - while a legacy CSV lies next to it), b.vf (views file missing / unparsable) are the ways it can go wrong
SettingsOf(b) == [modeKey |-> IF b.modeBogus THEN "bogus" ELSE IF b.mode = "first_match" THEN "absent" ELSE b.mode,
                  mfKey |-> b.rules = "rules", mfFile |-> b.rules = "rules" /\ ~b.mfMissing,
                  csvFile |-> b.rules = "csv" \/ (b.rules = "rules" /\ b.mfMissing),
                  vfKey |-> b.views, vfFile |-> b.vf, cur |-> b.cur, year |-> b.year, out |-> b.out, removed |-> b.removed]
Eff(b) == C!Effective(SettingsOf(b))

\* ---- rows available to sources (ids into the Rows vocabulary) ---------------
Cell(S, i) == CHOOSE c \in S : c.id = i
Resolve(r) == [date |-> Cell(D!DateCells, r.date), desc |-> Cell(D!TextCells, r.desc), cap2 |-> Cell(D!TextCells, r.cap2),
               amt |-> Cell(D!AmtCells, r.amt), loc |-> Cell(D!TextCells, r.loc), extra |-> Cell(D!TextCells, r.extra), shape |-> r.shape]
Row(date, desc, amt) == [date |-> date, desc |-> desc, cap2 |-> "k", amt |-> amt, loc |-> "loc", extra |-> "k", shape |-> "ok"]
\* one table per date format; tables mix good rows, a bad row and rows whose sign matters
TableF1 == << Row("d1", "A", "p1250"), Row("bad30", "A", "p1250"), Row("d2", "Bp", "m3"), Row("d1", "A", "thou"), Row("d2", "pay", "big"),
              Row("d1", "apA", "p1250"), Row("d2", "apX", "plus7") >>
TableF2 == << Row("i1", "A", "p1250"), Row("i2", "Bp", "paren3"), Row("i1", "uni", "zero"), Row("i2", "A", "thou"),
              Row("i2", "apA", "thou"), Row("i1", "apX", "cur5") >>
\* a merchant whose transactions are classified differently (two rules with the SAME name, split by amount), oldest first
SplitF1 == << Row("d2", "spl", "thou"), Row("d1", "spl", "p1250") >>
SplitF2 == << Row("i2", "spl", "thou"), Row("i1", "spl", "p1250") >>
TableOf(layout, split) == (IF layout = "L2" THEN TableF2 ELSE TableF1) \o
                          (IF split THEN (IF layout = "L2" THEN SplitF2 ELSE SplitF1) ELSE <<>>)

CfgOf(s) == [fmt |-> IF s.layout = "L2" THEN "f2" ELSE "f1", sign |-> s.sign, mode |-> "desc",
             hasloc |-> s.layout = "L2", hasextra |-> s.layout = "L4", dec |-> s.dec]
ParseSourceS(s, split) == R!Parse([i \in 1..Len(TableOf(s.layout, split)) |-> Resolve(TableOf(s.layout, split)[i])], CfgOf(s), s.header)

\* ---- classification ------------------------------------------------------------
HasAlfa(descid) == descid \in {"A", "nv1", "nv4", "apA", "nvp"}
HasPrefix(descid) == descid \in {"apA", "apX", "nvp", "nvq"}
HasPayroll(descid) == descid \in {"pay", "nv2"}
SuppAmounts == {1250, 123456}          \* cents of the rows of the supplemental "orders" source
At(a) == [k |-> "atom", a |-> a]
And2(a, b) == [k |-> "and", l |-> a, r |-> b]
Rule(id, c, cat, sub, tags, spec) == [id |-> id, cond |-> c, lets |-> <<>>, cat |-> cat, sub |-> sub, tags |-> tags, m |-> "", spec |-> spec]
\* the .rules file of the budget (the legacy CSV file has the rules expressible there: 1, 2, 4 and the
\* split-by-amount pair 7, 8 - two rows with the SAME pattern that differ only in their [amount] modifier)
RulesFile(mode, kind) ==
  LET r1 == Rule(1, At("A1"), "Food", "Grocery", {"ta"}, <<50, 1, 0, 4>>)
      r2 == Rule(2, And2(At("A1"), At("A2")), "Big", "", {}, <<50, 1, 1, 4>>)
      r3 == Rule(3, At("A3"), "", "", {"refund"}, <<50, 0, 1, 0>>)
      r4 == Rule(4, At("AP"), "Income", "Salary", {"income"}, <<50, 1, 0, 7>>)
      r5 == Rule(5, At("AS"), "", "", {"matched"}, <<50, 0, 1, 0>>)
      r6 == Rule(6, At("AW"), "Shopping", "Grocery", {}, <<50, 1, 0, 6>>)
      \* rules 7 and 8 carry the same name ("Split"): one merchant, two classifications
      r7 == Rule(7, And2(At("AX"), At("A2")), "Shopping", "Wholesale", {}, <<50, 1, 1, 5>>)
      r8 == Rule(8, At("AX"), "Food", "Grocery", {}, <<50, 1, 0, 5>>)   \* same subcategory as rule 1: a merchant keeps ONE (category, subcategory) in the report
  IN [globals |-> <<>>, mode |-> mode,
      rules |-> IF kind = "none" THEN <<>> ELSE IF kind = "csv" THEN <<r1, r2, r4, r7, r8>> ELSE <<r6, r1, r2, r3, r4, r5, r7, r8>>]

TruthOf(t, suppVisible, stripped) ==
  [a \in {"A1", "A2", "A3", "AP", "AS", "AW", "AX"} |->
     CASE a = "A1" -> IF HasAlfa(t.desc[1]) THEN "T" ELSE "F"
       [] a = "A2" -> IF t.cents > 100000 THEN "T" ELSE "F"
       [] a = "A3" -> IF t.cents < 0 THEN "T" ELSE "F"
       [] a = "AP" -> IF HasPayroll(t.desc[1]) THEN "T" ELSE "F"
       [] a = "AX" -> IF t.desc[1] = "spl" THEN "T" ELSE "F"
       [] a = "AW" -> IF HasPrefix(t.desc[1]) /\ ~stripped THEN "T" ELSE "F"
       [] a = "AS" -> IF ~suppVisible THEN "E" ELSE IF t.cents \in SuppAmounts THEN "T" ELSE "F"]

\* one classified transaction
\* (two sources may carry the same NAME - one account exported as two files; they stay two sources)
\* migrated: the run that converts the legacy CSV to merchants.rules (`tally up --migrate`) classifies with the NEW file -
\* the same rules in the same order, now read under the configured rule mode
ClassifiedG(b, s, t, migrated) ==
  \* rule_mode is a property of .rules files: the legacy CSV loop is always first-match
  LET cfg == Eff(b)
      f == RulesFile(IF cfg.rules = "csv" /\ ~migrated THEN "first_match" ELSE cfg.mode, cfg.rules)
      c == E!Classify(f, [v |-> TruthOf(t, b.supp, b.xform /\ cfg.rules = "rules"), dyn |-> "val"]) IN
  [src |-> s.name, desc |-> t.desc[1], date |-> t.date, cents |-> t.cents,
   rule |-> IF c.win = 0 THEN 0 ELSE f.rules[c.win].id, cat |-> c.cat, sub |-> c.sub, tags |-> c.tags,
   \* the merchant a transaction is filed under: the winning rule's name (rules 7 and 8 share one), else the description
   mer |-> IF c.win = 0 THEN <<"unknown", t.desc[1]>>
           ELSE <<"rule", IF f.rules[c.win].id = 8 THEN 7 ELSE f.rules[c.win].id>>]

Classified(b, s, t) == ClassifiedG(b, s, t, FALSE)

Counted(b) == {i \in 1..Len(b.sources) : b.sources[i].status = "present"}
RECURSIVE Concat(_, _, _, _)
Concat(b, i, acc, migrated) ==
  IF i > Len(b.sources) THEN acc
  ELSE IF b.sources[i].status # "present" THEN Concat(b, i + 1, acc, migrated)
  ELSE LET ts == ParseSourceS(b.sources[i], b.split) IN
       Concat(b, i + 1, acc \o [k \in 1..Len(ts) |-> ClassifiedG(b, b.sources[i], ts[k], migrated) @@ [sid |-> i]], migrated)
AllTxns(b) == Concat(b, 1, <<>>, FALSE)
\* what `tally up --migrate` reports on a budget that still uses the legacy CSV
AllTxnsMigrating(b) == Concat(b, 1, <<>>, TRUE)

\* ---- totals ---------------------------------------------------------------------
Abs(x) == IF x < 0 THEN -x ELSE x
Bucket(t) == IF "income" \in t.tags THEN "income" ELSE IF "investment" \in t.tags THEN "investment"
             ELSE IF "transfer" \in t.tags THEN (IF t.cents > 0 THEN "transfer_in" ELSE "transfer_out")
             ELSE IF t.cents > 0 THEN "spending" ELSE "credits"
RECURSIVE SumOver(_, _)
SumOver(S, f) == IF S = {} THEN 0 ELSE LET x == CHOOSE y \in S : TRUE IN f[x] + SumOver(S \ {x}, f)
Flows(ts) == [bk \in {"income", "investment", "transfer_in", "transfer_out", "spending", "credits"} |->
                SumOver({i \in 1..Len(ts) : Bucket(ts[i]) = bk}, [i \in 1..Len(ts) |-> Abs(ts[i].cents)])]

\* The report files transactions under their merchant and shows ONE classification per merchant: that of the merchant's
\* last transaction in processing order (sources in settings order, rows in file order).
Shown(ts, k) == LET last == CHOOSE j \in 1..Len(ts) : ts[j].mer = ts[k].mer /\ \A i \in 1..Len(ts) : ts[i].mer = ts[k].mer => i <= j
                IN [cat |-> ts[last].cat, sub |-> ts[last].sub]
Report(b) ==
  LET ts0 == AllTxns(b)
      ts == [k \in 1..Len(ts0) |-> ts0[k] @@ [shown |-> Shown(ts0, k)]] IN
  [txns |-> ts, flows |-> Flows(ts),
   perSource |-> [i \in Counted(b) |-> Len(ParseSourceS(b.sources[i], b.split))],
   cfg |-> Eff(b),
   \* the per-merchant classification of the migrating run (only for budgets on the legacy CSV)
   migrating |-> IF Eff(b).rules # "csv" THEN <<>>
                 ELSE LET tm == AllTxnsMigrating(b) IN [k \in 1..Len(tm) |-> [rule |-> tm[k].rule, shown |-> Shown(tm, k)]]]

\* ---- C16: explain / discover are views of the same classification ------------------------
\* a description and amount typed at the command line (not in any statement) is classified like a transaction would be
\* (the sign of the amount is part of the query: -1500 is a refund, not a big purchase)
Probes == << [desc |-> "nv1", cents |-> 150000], [desc |-> "nv1", cents |-> -150000], [desc |-> "nv1", cents |-> 500], [desc |-> "nv2", cents |-> -80000],
             [desc |-> "nv3", cents |-> -200], [desc |-> "nv4", cents |-> -700], [desc |-> "nv3", cents |-> 1250],
             [desc |-> "nvp", cents |-> 500], [desc |-> "nvq", cents |-> 900] >>
Explain(b, p) == Classified(b, [name |-> "cli"], [desc |-> <<p.desc>>, date |-> <<2025, 1, 1>>, cents |-> p.cents]) @@ [sid |-> 0]
\* discover lists exactly the transactions `up` leaves Unknown
Discover(b) == SelectSeq(AllTxns(b), LAMBDA t : t.cat = "Unknown")

\* ---- C11 properties ---------------------------------------------------------------
\* changing one source's settings changes only that source's transactions
Compositional(b, i, s2) ==
  LET b2 == [b EXCEPT !.sources[i] = s2]
      other(bb) == SelectSeq(AllTxns(bb), LAMBDA t : t.sid # i) IN
  other(b2) = other(b)
\* a missing or supplemental source contributes no transactions and leaves the others intact
MissingIsolated(b, i) ==
  LET b2 == [b EXCEPT !.sources[i].status = "missing"] IN
  SelectSeq(AllTxns(b2), LAMBDA t : t.sid # i) = SelectSeq(AllTxns(b), LAMBDA t : t.sid # i)
SupplementalNeverCounted(b) == \A i \in 1..Len(b.sources) : b.sources[i].status = "supplemental" =>
                                  \A k \in 1..Len(AllTxns(b)) : AllTxns(b)[k].sid # i
=============================================================================
