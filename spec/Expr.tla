-------------------------------- MODULE Expr --------------------------------
(***************************************************************************)
(* Reference semantics of tally's rule-expression language as evaluated    *)
(* against ONE transaction (expr_parser.TransactionEvaluator), C04 / C08.  *)
(*                                                                         *)
(* Values   [t |-> "bool", v]  [t |-> "num", n, d, f]  (rational n/d, f =  *)
(*          Python float)  [t |-> "str", v (codes)]  [t |-> "date", v]     *)
(*          [t |-> "none"]  [t |-> "list", v]  [t |-> "row", v (name->val)]*)
(*          [t |-> "gen", ...] (an unconsumed generator)                   *)
(* Outcomes a value, or [t |-> "err"] (the evaluator reports an expression *)
(*          error: the rule / binding / tag is skipped), or [t |-> "oou"]  *)
(*          (the construct is outside what this specification defines;     *)
(*          such cases are counted and skipped, never judged).             *)
(* AST      records with field k: const name boolop not neg bin cmp call   *)
(*          method ifexp attr listcomp genexp sub walrus                   *)
(* Env      [desc, amount, date (<<>> if missing), field (name -> text),   *)
(*           hasfield, source, location, vars (name -> value),             *)
(*           rows (source name -> list of rows)]                           *)
(* Evaluation threads the evaluator's mutable scope (loop variables and := *)
(* bindings): Eval returns [v |-> outcome, sc |-> scope].                  *)
(***************************************************************************)
EXTENDS Regex

\* ----------------------------------------------------------------- values --
B(b) == [t |-> "bool", v |-> b]
RECURSIVE Gcd(_, _)
Gcd(a, b) == IF b = 0 THEN a ELSE Gcd(b, a % b)
AbsI(a) == IF a < 0 THEN -a ELSE a
Num(n, d, f) == LET g == Gcd(AbsI(n), AbsI(d))
                    s == IF d < 0 THEN -1 ELSE 1 IN
                IF n = 0 THEN [t |-> "num", n |-> 0, d |-> 1, f |-> f]
                ELSE [t |-> "num", n |-> s * (n \div g), d |-> s * (d \div g), f |-> f]
Int_(n) == [t |-> "num", n |-> n, d |-> 1, f |-> FALSE]
S(s) == [t |-> "str", v |-> s]
D(d) == [t |-> "date", v |-> d]
None == [t |-> "none"]
L(s) == [t |-> "list", v |-> s]
Err == [t |-> "err"]
Oou == [t |-> "oou"]
IsBad(x) == x.t \in {"err", "oou"}

\* bool is an int in Python
AsNum(x) == IF x.t = "bool" THEN Int_(IF x.v THEN 1 ELSE 0) ELSE x
IsNumLike(x) == x.t \in {"num", "bool"}
\* Exact order of rationals WITHOUT cross-multiplying: TLC integers are 32-bit and n1 * d2 overflows for long numerals.
\* FracLess(a, b, c, d): a/b < c/d for a, c >= 0 and b, d > 0 - compare the integer parts, then the reciprocals of the
\* fractional parts (Euclid's algorithm, so it terminates).
RECURSIVE FracLess(_, _, _, _)
FracLess(a, b, c, d) ==
  LET qa == a \div b
      qc == c \div d IN
  IF qa # qc THEN qa < qc
  ELSE LET ra == a % b
           rc == c % d IN
       IF rc = 0 THEN FALSE
       ELSE IF ra = 0 THEN TRUE
       ELSE FracLess(d, rc, b, ra)
NumLess(a, b) == IF a.n < 0 /\ b.n >= 0 THEN TRUE
                 ELSE IF a.n >= 0 /\ b.n < 0 THEN FALSE
                 ELSE IF a.n >= 0 THEN FracLess(a.n, a.d, b.n, b.d)
                 ELSE FracLess(-b.n, b.d, -a.n, a.d)
NumEq(a, b) == ~NumLess(a, b) /\ ~NumLess(b, a)
\* arithmetic whose exact result (or an intermediate product) does not fit TLC's integers is outside the specification
MaxI == 2147483647
MulOk(x, y) == x = 0 \/ y = 0 \/ AbsI(y) <= MaxI \div AbsI(x)
AddOk(p, q) == IF p >= 0 THEN q <= MaxI - p ELSE q >= (-MaxI) - p

Truthy(x) ==
  CASE x.t = "bool" -> x.v
    [] x.t = "num" -> x.n # 0
    [] x.t = "str" -> x.v # <<>>
    [] x.t = "none" -> FALSE
    [] x.t = "list" -> x.v # <<>>
    [] x.t = "row" -> DOMAIN x.v # {}
    [] OTHER -> TRUE                     \* dates, generators

\* Python ==  (strings case-SENSITIVELY: this is the plain equality used inside lists and by the `in` operator on lists)
RECURSIVE PyEq(_, _)
PyEq(a, b) ==
  IF IsNumLike(a) /\ IsNumLike(b) THEN NumEq(AsNum(a), AsNum(b))
  ELSE IF a.t # b.t THEN FALSE
  ELSE CASE a.t = "str" -> a.v = b.v
         [] a.t = "date" -> a.v = b.v
         [] a.t = "none" -> TRUE
         [] a.t = "list" -> Len(a.v) = Len(b.v) /\ \A i \in 1..Len(a.v) : PyEq(a.v[i], b.v[i])
         [] a.t = "row" -> DOMAIN a.v = DOMAIN b.v /\ \A k \in DOMAIN a.v : PyEq(a.v[k], b.v[k])
         [] OTHER -> FALSE

\* str(x) where the specification defines it
RECURSIVE DigitsOf(_)
DigitsOf(n) == IF n < 10 THEN <<48 + n>> ELSE Append(DigitsOf(n \div 10), 48 + (n % 10))
StrOf(x) ==
  CASE x.t = "str" -> S(x.v)
    [] x.t = "num" /\ ~x.f /\ x.d = 1 -> S(IF x.n < 0 THEN <<45>> \o DigitsOf(-x.n) ELSE DigitsOf(x.n))
    [] x.t = "bool" -> S(IF x.v THEN <<84, 114, 117, 101>> ELSE <<70, 97, 108, 115, 101>>)
    [] x.t = "none" -> S(<<78, 111, 110, 101>>)
    [] OTHER -> Oou                       \* repr of floats, dates, lists: not specified here

\* ------------------------------------------------------------- arithmetic --
Arith(op, a0, b0) ==
  IF op = "add" /\ a0.t = "str" /\ b0.t = "str" THEN S(a0.v \o b0.v)
  ELSE IF op = "add" /\ a0.t = "list" /\ b0.t = "list" THEN L(a0.v \o b0.v)
  ELSE IF ~(IsNumLike(a0) /\ IsNumLike(b0)) THEN
       (IF op \in {"div", "mod"} /\ IsNumLike(b0) /\ AsNum(b0).n = 0 THEN Int_(0)     \* "right == 0" is tested first
        ELSE IF op = "mult" /\ ((a0.t \in {"str", "list"} /\ IsNumLike(b0)) \/ (b0.t \in {"str", "list"} /\ IsNumLike(a0)))
             THEN Oou                                                                 \* sequence repetition: not specified
        ELSE IF op = "mod" /\ a0.t = "str" THEN Oou                                   \* printf-style formatting: not specified
        ELSE Err)
  ELSE LET a == AsNum(a0)
           b == AsNum(b0)
           fl == a.f \/ b.f
           fits == CASE op \in {"add", "sub"} -> /\ MulOk(a.n, b.d) /\ MulOk(b.n, a.d) /\ MulOk(a.d, b.d)
                                                /\ AddOk(a.n * b.d, IF op = "add" THEN b.n * a.d ELSE -(b.n * a.d))
                     [] op = "mult" -> MulOk(a.n, b.n) /\ MulOk(a.d, b.d)
                     [] op = "div" -> MulOk(a.n, b.d) /\ MulOk(a.d, b.n)
                     [] OTHER -> TRUE IN
    IF ~fits THEN Oou ELSE
    CASE op = "add" -> Num(a.n * b.d + b.n * a.d, a.d * b.d, fl)
      [] op = "sub" -> Num(a.n * b.d - b.n * a.d, a.d * b.d, fl)
      [] op = "mult" -> Num(a.n * b.n, a.d * b.d, fl)
      [] op = "div" -> IF b.n = 0 THEN Int_(0) ELSE Num(a.n * b.d, a.d * b.n, TRUE)
      [] op = "mod" -> IF b.n = 0 THEN Int_(0)
                       ELSE IF a.d = 1 /\ b.d = 1
                            THEN Num(((a.n % b.n) + b.n) % b.n, 1, fl)       \* Python: result has the sign of the divisor
                            ELSE Oou
\* TLC's % needs a positive divisor: negative divisors are kept out of the universe (Oou) by ArithSafe
ArithSafe(op, a, b) ==
  IF op = "mod" /\ IsNumLike(a) /\ IsNumLike(b) /\ AsNum(b).n < 0 THEN Oou ELSE Arith(op, a, b)

\* ------------------------------------------------------------ comparisons --
\* one link  left <op> right ; returns B(..), Err or Oou.  Date-vs-ISO-string coercion happens first.
RECURSIVE ListHas(_, _)
ListHas(seq, x) == \E i \in 1..Len(seq) : PyEq(seq[i], x)
StrLess(a, b) ==   \* Python's code-point order
  \E k \in 1..(Len(a) + 1) :
     /\ \A i \in 1..(k - 1) : i <= Len(b) /\ a[i] = b[i]
     /\ k - 1 <= Len(b)
     /\ \/ (k > Len(a) /\ Len(b) >= k)
        \/ (k <= Len(a) /\ k <= Len(b) /\ a[k] < b[k])
CmpLink(op, l0, r0) ==
  LET lc == IF l0.t = "str" /\ r0.t = "date" THEN (IF ParseISO(l0.v) = <<>> THEN Err ELSE D(ParseISO(l0.v))) ELSE l0
      rc == IF l0.t = "date" /\ r0.t = "str" THEN (IF ParseISO(r0.v) = <<>> THEN Err ELSE D(ParseISO(r0.v))) ELSE r0
  IN IF IsBad(lc) THEN lc ELSE IF IsBad(rc) THEN rc ELSE
  CASE op = "eq" -> IF lc.t = "str" /\ rc.t = "str" THEN B(LowerT(lc.v) = LowerT(rc.v)) ELSE B(PyEq(lc, rc))
    [] op = "ne" -> IF lc.t = "str" /\ rc.t = "str" THEN B(LowerT(lc.v) # LowerT(rc.v)) ELSE B(~PyEq(lc, rc))
    [] op \in {"lt", "le", "gt", "ge"} ->
         IF IsNumLike(lc) /\ IsNumLike(rc) THEN
            LET a == AsNum(lc)
                b == AsNum(rc) IN
            B(CASE op = "lt" -> NumLess(a, b) [] op = "le" -> ~NumLess(b, a)
                [] op = "gt" -> NumLess(b, a) [] op = "ge" -> ~NumLess(a, b))
         ELSE IF lc.t = "date" /\ rc.t = "date" THEN
            B(CASE op = "lt" -> DateLess(lc.v, rc.v) [] op = "le" -> ~DateLess(rc.v, lc.v)
                [] op = "gt" -> DateLess(rc.v, lc.v) [] op = "ge" -> ~DateLess(lc.v, rc.v))
         ELSE IF lc.t = "str" /\ rc.t = "str" THEN
            B(CASE op = "lt" -> StrLess(lc.v, rc.v) [] op = "le" -> ~StrLess(rc.v, lc.v)
                [] op = "gt" -> StrLess(rc.v, lc.v) [] op = "ge" -> ~StrLess(lc.v, rc.v))
         ELSE IF lc.t = "list" /\ rc.t = "list" THEN Oou
         ELSE Err                                  \* ordering across types cannot be evaluated
    [] op \in {"in", "notin"} ->
         LET r == IF rc.t = "str" THEN (IF lc.t = "str" THEN B(Contains(UpperT(rc.v), UpperT(lc.v))) ELSE Err)
                  ELSE IF rc.t = "list" THEN B(ListHas(rc.v, lc))
                  ELSE IF rc.t = "row" THEN (IF lc.t = "str" THEN (IF "name" \in DOMAIN lc THEN B(lc.name \in DOMAIN rc.v) ELSE Oou)
                                            ELSE B(FALSE))
                  ELSE IF rc.t = "gen" THEN Oou
                  ELSE Err
         IN IF r.t = "bool" /\ op = "notin" THEN B(~r.v) ELSE r

\* ---------------------------------------------------------- text builtins --
IsStr(x) == x.t = "str"
IsInt(x) == x.t = "num" /\ x.d = 1 /\ ~x.f
\* regex patterns arrive as values [t |-> "str", v |-> codes, re |-> element list] when the literal lies in the fragment
HasRe(x) == x.t = "str" /\ "re" \in DOMAIN x

\* fn applied to evaluated arguments (a sequence of values) with the description as implicit subject
Builtin(fn, args, env) ==
  LET n == Len(args)
      subj2 == IF n = 2 THEN args[1] ELSE S(env.desc)       \* f(pattern) / f(text, pattern)
      pat2 == IF n = 2 THEN args[2] ELSE IF n = 1 THEN args[1] ELSE None
  IN
  CASE fn \in {"contains", "startswith", "normalized", "regex", "extract"} ->
         IF n \notin {1, 2} THEN Err
         ELSE IF ~(IsStr(subj2) /\ IsStr(pat2)) THEN Err
         ELSE (CASE fn = "contains" -> B(Contains(UpperT(subj2.v), UpperT(pat2.v)))
                [] fn = "startswith" -> B(StartsWith(UpperT(subj2.v), UpperT(pat2.v)))
                [] fn = "normalized" -> B(Contains(Normalize(subj2.v), Normalize(pat2.v)))
                [] fn = "regex" -> IF HasRe(pat2) THEN B(Matches(pat2.re, subj2.v)) ELSE Oou
                [] fn = "extract" -> IF HasRe(pat2) THEN S(Extract(pat2.re, subj2.v)) ELSE Oou)
    [] fn = "anyof" ->
         IF \E i \in 1..n : ~IsStr(args[i]) THEN Err
         ELSE B(\E i \in 1..n : Contains(UpperT(env.desc), UpperT(args[i].v)))
    [] fn = "abs" -> IF n # 1 \/ ~IsNumLike(args[1]) THEN Err
                     ELSE LET a == AsNum(args[1]) IN Num(AbsI(a.n), a.d, a.f)
    [] fn = "round" -> IF n = 1 /\ IsInt(AsNum(args[1])) /\ IsNumLike(args[1]) THEN AsNum(args[1])
                       ELSE IF n \in {1, 2} /\ IsNumLike(args[1]) THEN Oou ELSE Err   \* float rounding: not specified here
    [] fn = "split" ->
         IF n \notin {2, 3} THEN Err
         ELSE LET text == IF n = 3 THEN args[1] ELSE S(env.desc)
                  dl == IF n = 3 THEN args[2] ELSE args[1]
                  ix == IF n = 3 THEN args[3] ELSE args[2] IN
              IF ~IsInt(ix) \/ ix.t = "bool" THEN (IF ix.t = "bool" THEN Oou ELSE Err)
              ELSE IF ~(IsStr(text) /\ IsStr(dl)) \/ dl.v = <<>> THEN Err
              ELSE LET parts == Split(text.v, dl.v) IN
                   IF ix.n >= 0 /\ ix.n < Len(parts) THEN S(Strip(parts[ix.n + 1])) ELSE S(<<>>)
    [] fn = "substring" ->
         IF n \notin {2, 3} THEN Err
         ELSE LET text == IF n = 3 THEN args[1] ELSE S(env.desc)
                  a == IF n = 3 THEN args[2] ELSE args[1]
                  b == IF n = 3 THEN args[3] ELSE args[2] IN
              IF a.t = "bool" \/ b.t = "bool" THEN Oou
              ELSE IF ~(IsInt(a) /\ IsInt(b)) THEN Err
              ELSE IF ~IsStr(text) THEN (IF text.t = "list" THEN Oou ELSE Err)
              ELSE S(PySlice(text.v, a.n, b.n))
    [] fn = "trim" -> IF n = 0 THEN S(Strip(env.desc))
                      ELSE IF n # 1 THEN Err
                      ELSE LET s == StrOf(args[1]) IN IF IsBad(s) THEN s ELSE S(Strip(s.v))
    [] fn \in {"uppercase", "lowercase"} ->
         IF n # 1 THEN Err
         ELSE LET s == StrOf(args[1]) IN
              IF IsBad(s) THEN s ELSE S(IF fn = "uppercase" THEN UpperT(s.v) ELSE LowerT(s.v))
    [] fn \in {"strip_prefix", "strip_suffix"} ->
         IF n # 2 THEN Err
         ELSE LET s == StrOf(args[1])
                  p == StrOf(args[2]) IN
              IF IsBad(s) THEN s ELSE IF IsBad(p) THEN p
              ELSE IF fn = "strip_prefix"
                   THEN (IF StartsWith(UpperT(s.v), UpperT(p.v)) THEN S(Slice(s.v, Len(p.v), Len(s.v))) ELSE S(s.v))
                   ELSE (IF EndsWith(UpperT(s.v), UpperT(p.v)) /\ p.v # <<>>
                         THEN S(Slice(s.v, 0, Len(s.v) - Len(p.v)))
                         ELSE IF p.v = <<>> THEN S(<<>>) ELSE S(s.v))       \* text[:-0] is the empty string
    [] fn = "regex_replace" ->
         IF n # 3 THEN Err
         ELSE LET s == StrOf(args[1])
                  r == StrOf(args[3]) IN
              IF IsBad(s) THEN s ELSE IF IsBad(r) THEN r
              ELSE IF ~HasRe(args[2]) THEN Oou
              ELSE IF AnyEmptyMatch(args[2].re, s.v, 0) THEN Oou
              ELSE S(SubAll(args[2].re, s.v, 0, r.v))
    \* fuzzy(): "similar to" is documented by example only.  What every reading agrees on is all that is stated here: a text that
    \* CONTAINS the pattern verbatim (ignoring case) is similar to it at any threshold up to 1, a text that shares no character
    \* with the pattern is similar at no positive threshold; everything in between is outside the model.
    [] fn = "fuzzy" ->
         IF n \notin {1, 2, 3} THEN Err
         ELSE LET thr == IF n = 3 THEN args[3] ELSE IF n = 2 /\ IsNumLike(args[2]) THEN args[2] ELSE Num(4, 5, TRUE)
                  text == IF n = 3 \/ (n = 2 /\ ~IsNumLike(args[2])) THEN args[1] ELSE S(env.desc)
                  pat == IF n = 3 \/ (n = 2 /\ ~IsNumLike(args[2])) THEN args[2] ELSE args[1] IN
              IF ~(IsStr(text) /\ IsStr(pat)) THEN (IF text.t = "bool" \/ pat.t = "bool" THEN Oou ELSE Err)
              ELSE IF ~IsNumLike(thr) \/ thr.t = "bool" THEN Oou
              ELSE LET t == AsNum(thr) IN
                   IF t.n <= 0 \/ NumLess(Int_(1), t) THEN Oou                       \* thresholds outside (0, 1]: not judged
                   ELSE IF pat.v = <<>> \/ text.v = <<>> THEN Oou
                   ELSE IF Contains(UpperT(text.v), UpperT(pat.v)) THEN B(TRUE)
                   ELSE IF \A i \in 1..Len(pat.v) : \A j \in 1..Len(text.v) : UpperT(pat.v)[i] # UpperT(text.v)[j] THEN B(FALSE)
                   ELSE Oou
    [] OTHER -> Err                                    \* unknown function

\* ------------------------------------------------------------- evaluation --
Res(v, sc) == [v |-> v, sc |-> sc]
Bind(sc, n, v) == [x \in DOMAIN sc \cup {n} |-> IF x = n THEN v ELSE sc[x]]
Unbind(sc, n) == [x \in DOMAIN sc \ {n} |-> sc[x]]

DateOrNone(env) == IF env.date = <<>> THEN None ELSE D(env.date)
DatePart(env, k) == IF env.date = <<>> THEN Int_(0)
                    ELSE Int_(CASE k = "month" -> env.date[2] [] k = "year" -> env.date[1]
                                [] k = "day" -> env.date[3] [] k = "weekday" -> Weekday(env.date))
Primitive(n, env) ==
  CASE n = "description" -> S(env.desc)
    [] n = "amount" -> env.amount
    [] n = "date" -> DateOrNone(env)
    [] n \in {"month", "year", "day", "weekday"} -> DatePart(env, n)
    [] n = "source" -> S(env.source)
    [] n = "true" -> B(TRUE)
    [] n = "false" -> B(FALSE)
    [] OTHER -> IF n \in DOMAIN env.rows THEN L(env.rows[n]) ELSE Err

TxnAttr(a, env) ==
  CASE a = "description" -> S(env.desc) [] a = "amount" -> env.amount [] a = "date" -> DateOrNone(env)
    [] a = "source" -> S(env.source) [] a = "location" -> S(env.location)
    [] a \in {"month", "year", "day", "weekday"} -> DatePart(env, a)
    [] OTHER -> Err
FieldAttr(a, env) ==
  CASE a = "description" -> S(env.desc) [] a = "amount" -> env.amount [] a = "date" -> DateOrNone(env)
    [] a = "source" -> S(env.source) [] a = "location" -> S(env.location)
    [] OTHER -> IF a \in DOMAIN env.field THEN S(env.field[a]) ELSE Err

RECURSIVE Eval(_, _, _)
RECURSIVE EvalArgs(_, _, _, _, _)
RECURSIVE EvalBool(_, _, _, _, _)
RECURSIVE EvalCmp(_, _, _, _, _)
RECURSIVE Loop(_, _, _, _, _, _, _, _)
RECURSIVE Conds(_, _, _, _)
RECURSIVE Items(_, _, _, _)

\* evaluate a list of argument nodes left to right; result [v |-> sequence of values | bad outcome, sc]
EvalArgs(nodes, k, env, sc, acc) ==
  IF k > Len(nodes) THEN Res(L(acc), sc)
  ELSE LET r == Eval(nodes[k], env, sc) IN
       IF IsBad(r.v) THEN r ELSE EvalArgs(nodes, k + 1, env, r.sc, Append(acc, r.v))

\* and / or : always a bool; short-circuit left to right; an operand that fails makes the whole expression fail
EvalBool(op, nodes, k, env, sc) ==
  IF k > Len(nodes) THEN Res(B(op = "and"), sc)
  ELSE LET r == Eval(nodes[k], env, sc) IN
       IF IsBad(r.v) THEN r
       ELSE IF op = "and" /\ ~Truthy(r.v) THEN Res(B(FALSE), r.sc)
       ELSE IF op = "or" /\ Truthy(r.v) THEN Res(B(TRUE), r.sc)
       ELSE EvalBool(op, nodes, k + 1, env, r.sc)

\* comparison chain: left evaluated once, then each comparator in turn; stops at the first false link
EvalCmp(left, ops, rights, env, sc) ==
  IF ops = <<>> THEN Res(B(TRUE), sc)
  ELSE LET r == Eval(rights[1], env, sc) IN
       IF IsBad(r.v) THEN r
       ELSE LET c == CmpLink(ops[1], left, r.v) IN
            IF IsBad(c) THEN Res(c, r.sc)
            ELSE IF ~c.v THEN Res(B(FALSE), r.sc)
            ELSE \* the code continues with the (possibly date-coerced) right operand as the new left
                 LET nl == IF left.t = "date" /\ r.v.t = "str" THEN D(ParseISO(r.v.v)) ELSE r.v IN
                 EvalCmp(nl, Tail(ops), Tail(rights), env, r.sc)

\* all `if` clauses of one comprehension level, lazily (all(...) over a generator): [v |-> B / bad, sc]
Conds(ifs, k, env, sc) ==
  IF k > Len(ifs) THEN Res(B(TRUE), sc)
  ELSE LET r == Eval(ifs[k], env, sc) IN
       IF IsBad(r.v) THEN r
       ELSE IF ~Truthy(r.v) THEN Res(B(FALSE), r.sc)
       ELSE Conds(ifs, k + 1, env, r.sc)

\* element stream of a comprehension: gens = sequence of [var, iter, ifs]; level g; items of the current level's
\* iterable from position i on; acc = values produced so far.  `stop` makes consumption lazy, as any() / all() /
\* next() consume a generator: "truthy" / "falsy" / "first" end the evaluation right after the deciding element
\* (later elements - and their errors - are never evaluated).  Result [v |-> L(acc) | bad, sc, done].
Res3(v, sc, done) == [v |-> v, sc |-> sc, done |-> done]
StopNow(stop, e) == (stop = "truthy" /\ Truthy(e)) \/ (stop = "falsy" /\ ~Truthy(e)) \/ stop = "first"
Loop(node, g, items, i, env, sc, acc, stop) ==
  IF i > Len(items) THEN Res3(L(acc), sc, FALSE)
  ELSE LET gen == node.gens[g]
           had == gen.var \in DOMAIN sc
           old == IF had THEN sc[gen.var] ELSE None
           sc1 == Bind(sc, gen.var, items[i])
           c == Conds(gen.ifs, 1, env, sc1) IN
       IF IsBad(c.v) THEN Res3(c.v, c.sc, FALSE)
       ELSE LET inner ==
                  IF ~c.v.v THEN Res3(L(acc), c.sc, FALSE)
                  ELSE IF g < Len(node.gens)
                       THEN LET it == Eval(node.gens[g + 1].iter, env, c.sc) IN
                            IF IsBad(it.v) THEN Res3(it.v, it.sc, FALSE)
                            ELSE IF it.v.t = "list" THEN Loop(node, g + 1, it.v.v, 1, env, it.sc, acc, stop)
                            ELSE IF it.v.t \in {"str", "row", "gen"} THEN Res3(Oou, it.sc, FALSE)
                            ELSE Res3(Err, it.sc, FALSE)
                       ELSE LET e == Eval(node.elt, env, c.sc) IN
                            IF IsBad(e.v) THEN Res3(e.v, e.sc, FALSE)
                            ELSE Res3(L(Append(acc, e.v)), e.sc, StopNow(stop, e.v))
            IN IF IsBad(inner.v) \/ inner.done THEN inner
               ELSE \* restore the loop variable: the implementation cannot tell "absent" from "bound to None"
                    LET sc2 == IF ~had \/ old.t = "none" THEN Unbind(inner.sc, gen.var)
                                                       ELSE Bind(inner.sc, gen.var, old) IN
                    Loop(node, g, items, i + 1, env, sc2, inner.v.v, stop)

\* all elements of a comprehension / generator node; [v |-> L(items) | bad, sc, done]
Items(node, env, sc, stop) ==
  LET it == Eval(node.gens[1].iter, env, sc) IN
  IF IsBad(it.v) THEN Res3(it.v, it.sc, FALSE)
  ELSE IF it.v.t = "list" THEN Loop(node, 1, it.v.v, 1, env, it.sc, <<>>, stop)
  ELSE IF it.v.t \in {"str", "row", "gen"} THEN Res3(Oou, it.sc, FALSE)
  ELSE Res3(Err, it.sc, FALSE)

\* numeric fold helpers over a list of values
RECURSIVE SumVals(_, _, _)
SumVals(vs, k, acc) == IF k > Len(vs) THEN acc
                       ELSE LET a == ArithSafe("add", acc, vs[k]) IN IF IsBad(a) THEN a ELSE SumVals(vs, k + 1, a)
RECURSIVE Extreme(_, _, _, _)
Extreme(vs, k, best, wantMax) ==
  IF k > Len(vs) THEN best
  ELSE LET c == CmpLink(IF wantMax THEN "gt" ELSE "lt", vs[k], best) IN
       IF IsBad(c) THEN c ELSE Extreme(vs, k + 1, IF c.v THEN vs[k] ELSE best, wantMax)
FirstIdx(vs, P(_)) == IF \E i \in 1..Len(vs) : P(vs[i])
                      THEN CHOOSE i \in 1..Len(vs) : P(vs[i]) /\ \A j \in 1..(i - 1) : ~P(vs[j]) ELSE 0

Eval(node, env, sc) ==
  CASE node.k = "const" -> Res(node.v, sc)
    [] node.k = "name" ->
         LET n == node.n IN
         IF n \in DOMAIN sc THEN Res(sc[n], sc)
         ELSE IF n \in DOMAIN env.vars THEN Res(env.vars[n], sc)
         ELSE Res(Primitive(n, env), sc)
    [] node.k = "boolop" -> EvalBool(node.op, node.vals, 1, env, sc)
    [] node.k = "not" -> LET r == Eval(node.x, env, sc) IN IF IsBad(r.v) THEN r ELSE Res(B(~Truthy(r.v)), r.sc)
    [] node.k = "neg" -> LET r == Eval(node.x, env, sc) IN
                         IF IsBad(r.v) THEN r
                         ELSE IF IsNumLike(r.v) THEN LET a == AsNum(r.v) IN Res(Num(-a.n, a.d, a.f), r.sc)
                         ELSE Res(Err, r.sc)
    [] node.k = "bin" ->
         LET l == Eval(node.l, env, sc) IN
         IF IsBad(l.v) THEN l
         ELSE LET r == Eval(node.r, env, l.sc) IN
              IF IsBad(r.v) THEN r ELSE Res(ArithSafe(node.op, l.v, r.v), r.sc)
    [] node.k = "cmp" ->
         LET l == Eval(node.left, env, sc) IN
         IF IsBad(l.v) THEN l ELSE EvalCmp(l.v, node.ops, node.rights, env, l.sc)
    [] node.k = "ifexp" ->
         LET c == Eval(node.test, env, sc) IN
         IF IsBad(c.v) THEN c ELSE IF Truthy(c.v) THEN Eval(node.body, env, c.sc) ELSE Eval(node.orelse, env, c.sc)
    [] node.k = "attr" ->
         IF node.obj.k = "name" /\ node.obj.n = "txn" THEN Res(TxnAttr(node.a, env), sc)
         ELSE IF node.obj.k = "name" /\ node.obj.n = "field" THEN Res(FieldAttr(node.a, env), sc)
         ELSE LET o == Eval(node.obj, env, sc) IN
              IF o.v.t = "oou" THEN o
              ELSE IF o.v.t = "row" /\ node.a \in DOMAIN o.v.v THEN Res(o.v.v[node.a], o.sc)
              ELSE Res(Err, o.sc)          \* (the scope effects of a failed object evaluation are not observable: the whole expression fails)
    [] node.k = "sub" ->
         LET o == Eval(node.obj, env, sc) IN
         IF IsBad(o.v) THEN o
         ELSE LET i == Eval(node.idx, env, o.sc) IN
              IF IsBad(i.v) THEN i
              ELSE IF o.v.t = "list" THEN
                      (IF i.v.t = "bool" THEN Res(Oou, i.sc)
                       ELSE IF ~IsInt(i.v) THEN Res(Err, i.sc)
                       ELSE LET p == IF i.v.n < 0 THEN Len(o.v.v) + i.v.n ELSE i.v.n IN
                            IF p >= 0 /\ p < Len(o.v.v) THEN Res(o.v.v[p + 1], i.sc) ELSE Res(Err, i.sc))
              ELSE IF o.v.t = "str" THEN
                      (IF i.v.t = "bool" THEN Res(Oou, i.sc)
                       ELSE IF ~IsInt(i.v) THEN Res(Err, i.sc)
                       ELSE LET p == IF i.v.n < 0 THEN Len(o.v.v) + i.v.n ELSE i.v.n IN
                            IF p >= 0 /\ p < Len(o.v.v) THEN Res(S(<<o.v.v[p + 1]>>), i.sc) ELSE Res(Err, i.sc))
              ELSE IF o.v.t = "row" THEN
                      \* string constants carry their text as `name` (row keys are TLA+ strings)
                      (IF i.v.t = "str" /\ "name" \notin DOMAIN i.v THEN Res(Oou, i.sc)
                       ELSE IF i.v.t = "str" /\ i.v.name \in DOMAIN o.v.v THEN Res(o.v.v[i.v.name], i.sc)
                       ELSE Res(Err, i.sc))
              ELSE Res(Err, i.sc)
    [] node.k = "walrus" ->
         LET r == Eval(node.val, env, sc) IN
         IF IsBad(r.v) THEN r ELSE Res(r.v, Bind(r.sc, node.n, r.v))
    [] node.k = "listcomp" ->
         LET r == Items(node, env, sc, "none") IN Res(r.v, r.sc)
    [] node.k = "genexp" ->
         \* a generator that nobody consumes is a value, but not one this specification gives a meaning to
         Res([t |-> "gen"], sc)
    [] node.k = "method" ->
         LET o == Eval(node.obj, env, sc) IN
         IF IsBad(o.v) THEN o
         ELSE IF o.v.t # "str" THEN Res(Err, o.sc)
         ELSE IF node.m \in {"lower", "upper", "strip"} THEN
              \* arguments are not evaluated and not checked
              Res(S(CASE node.m = "lower" -> LowerT(o.v.v) [] node.m = "upper" -> UpperT(o.v.v) [] OTHER -> Strip(o.v.v)), o.sc)
         ELSE IF node.m \in {"startswith", "endswith"} THEN
              IF Len(node.args) # 1 THEN Res(Err, o.sc)
              ELSE LET a == Eval(node.args[1], env, o.sc) IN
                   IF IsBad(a.v) THEN a
                   ELSE IF a.v.t # "str" THEN Res(Err, a.sc)
                   ELSE Res(B(IF node.m = "startswith" THEN StartsWith(o.v.v, a.v.v) ELSE EndsWith(o.v.v, a.v.v)), a.sc)
         ELSE IF node.m = "replace" THEN
              IF Len(node.args) # 2 THEN Res(Err, o.sc)
              ELSE LET a == EvalArgs(node.args, 1, env, o.sc, <<>>) IN
                   IF IsBad(a.v) THEN a
                   ELSE IF ~(IsStr(a.v.v[1]) /\ IsStr(a.v.v[2])) THEN Res(Err, a.sc)
                   ELSE IF a.v.v[1].v = <<>> THEN Res(Oou, a.sc)
                   ELSE Res(S(Replace(o.v.v, a.v.v[1].v, a.v.v[2].v)), a.sc)
         ELSE Res(Err, o.sc)
    [] node.k = "call" ->
         LET fn == node.fn
             n == Len(node.args) IN
         IF fn = "exists" THEN
              IF n # 1 THEN Res(Err, sc)
              ELSE LET a == Eval(node.args[1], env, sc) IN
                   IF a.v.t = "oou" THEN a
                   ELSE IF a.v.t = "err" THEN Res(B(FALSE), a.sc)
                   ELSE IF ~Truthy(a.v) THEN Res(B(FALSE), a.sc)
                   ELSE LET s == StrOf(a.v) IN
                        IF s.t = "oou" THEN Res(B(TRUE), a.sc)          \* str() of floats, dates, non-empty lists is never blank
                        ELSE Res(B(Strip(s.v) # <<>>), a.sc)
         ELSE IF fn \in {"len", "sum", "any", "all", "next", "min", "max"} THEN
              IF (fn \in {"len", "any", "all"} /\ n # 1) \/ (fn \in {"sum", "next"} /\ n \notin {1, 2}) THEN Res(Err, sc)
              ELSE IF fn \in {"min", "max"} /\ n = 0 THEN Res(Oou, sc)
              ELSE IF fn \in {"min", "max"} /\ n > 1 THEN
                   LET a == EvalArgs(node.args, 1, env, sc, <<>>) IN
                   IF IsBad(a.v) THEN a ELSE Res(Extreme(a.v.v, 2, a.v.v[1], fn = "max"), a.sc)
              ELSE IF node.args[1].k = "genexp" THEN
                   \* a generator argument is consumed on the spot, lazily where the consumer is lazy
                   LET g == node.args[1] IN
                   (CASE fn = "len" -> Res(Err, sc)                       \* generators have no len()
                     [] fn = "any" -> LET r == Items(g, env, sc, "truthy") IN
                                      IF IsBad(r.v) THEN Res(r.v, r.sc) ELSE Res(B(r.done), r.sc)
                     [] fn = "all" -> LET r == Items(g, env, sc, "falsy") IN
                                      IF IsBad(r.v) THEN Res(r.v, r.sc) ELSE Res(B(~r.done), r.sc)
                     [] fn = "next" ->
                          \* the default (2nd argument) is evaluated BEFORE the generator is advanced
                          LET dflt == IF n = 2 THEN Eval(node.args[2], env, sc) ELSE Res(None, sc) IN
                          IF IsBad(dflt.v) THEN dflt
                          ELSE LET r == Items(g, env, dflt.sc, "first") IN
                               IF IsBad(r.v) THEN Res(r.v, r.sc)
                               ELSE IF r.done THEN Res(r.v.v[Len(r.v.v)], r.sc)
                               ELSE IF n = 2 THEN Res(dflt.v, r.sc)
                               ELSE Res(Err, r.sc)                       \* exhausted generator, no default
                     [] fn = "sum" ->
                          LET r == Items(g, env, sc, "none") IN
                          IF IsBad(r.v) THEN Res(r.v, r.sc)
                          ELSE IF n = 2 THEN Res(Oou, r.sc)              \* evaluation order of start vs generator: unspecified here
                          ELSE Res(SumVals(r.v.v, 1, Int_(0)), r.sc)
                     [] fn \in {"min", "max"} ->
                          LET r == Items(g, env, sc, "none") IN
                          IF IsBad(r.v) THEN Res(r.v, r.sc)
                          ELSE IF r.v.v = <<>> THEN Res(Err, r.sc)
                          ELSE Res(Extreme(r.v.v, 2, r.v.v[1], fn = "max"), r.sc))
              ELSE
              LET src == Eval(node.args[1], env, sc) IN
                 IF IsBad(src.v) THEN src
                 ELSE IF fn = "len" THEN
                      (IF src.v.t \in {"list", "str"} THEN Res(Int_(Len(src.v.v)), src.sc)
                       ELSE IF src.v.t = "row" THEN Res(Int_(Cardinality(DOMAIN src.v.v)), src.sc)
                       ELSE Res(Err, src.sc))
                 ELSE IF src.v.t # "list" THEN Res(IF src.v.t \in {"str", "row", "gen"} THEN Oou ELSE Err, src.sc)
                 ELSE LET vs == src.v.v IN
                   CASE fn = "sum" ->
                          IF n = 2 THEN LET st == Eval(node.args[2], env, src.sc) IN
                                        IF IsBad(st.v) THEN st ELSE Res(SumVals(vs, 1, st.v), st.sc)
                          ELSE Res(SumVals(vs, 1, Int_(0)), src.sc)
                     [] fn = "any" -> Res(B(\E i \in 1..Len(vs) : Truthy(vs[i])), src.sc)
                     [] fn = "all" -> Res(B(\A i \in 1..Len(vs) : Truthy(vs[i])), src.sc)
                     [] fn = "next" -> Res(Err, src.sc)                        \* next() of a list: not an iterator
                     [] fn \in {"min", "max"} ->
                          IF vs = <<>> THEN Res(Err, src.sc) ELSE Res(Extreme(vs, 2, vs[1], fn = "max"), src.sc)
         ELSE LET a == EvalArgs(node.args, 1, env, sc, <<>>) IN
              IF IsBad(a.v) THEN a ELSE Res(Builtin(fn, a.v.v, env), a.sc)

\* the value of a whole expression: a bare generator expression is materialised as the list of its items
EvalTop(node, env) ==
  IF node.k = "genexp" THEN LET r == Items(node, env, <<>>, "none") IN Res(r.v, r.sc) ELSE Eval(node, env, <<>>)
=============================================================================
