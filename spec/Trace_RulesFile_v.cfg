SPECIFICATION Spec
CONSTANTS
  Kind = "views"
POSTCONDITION Done
CHECK_DEADLOCK FALSE
