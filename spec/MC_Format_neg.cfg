SPECIFICATION Spec
CONSTANTS
  MaxWidth = 3
INVARIANT Neg_AlwaysAccepts
