SPECIFICATION Spec
CONSTANTS
  HeaderWidth = 6
  MaxWidth = 3
INVARIANT Neg_AlwaysAccepts
