---------------------------- MODULE Trace_Format ----------------------------
(* Code -> spec for format strings and inspect's suggestion (C18).           *)
(*                                                                           *)
(* kind "format"   a random concrete format string (up to 12 columns, every  *)
(*     token spelling: letter case, blanks around commas, {_} / {*}, date    *)
(*     formats, signs, any number of custom captures, malformed parts) with  *)
(*     or without a description template, parsed by the real                 *)
(*     parse_format_string.  r.toks is the string as a sequence of column    *)
(*     tokens produced by the harness's own tokeniser (the documented        *)
(*     {name} / {name:format} syntax); Format!ParseFormat must give r.obs.   *)
(* kind "suggest"  a random statement file whose header row is detected by   *)
(*     the real auto-detection and for which `tally inspect` prints a format *)
(*     string: r.toks is that string tokenised, r.det what the detection     *)
(*     reported; the suggestion must parse and select exactly those columns  *)
(*     (Format!SuggestRoundTrips, on what the code really printed).          *)
EXTENDS Format, Json, IOUtils, TLCExt

Recs == ndJsonDeserialize(IOEnv.TRACE_FILE)
VARIABLE i

ToSet(s) == {s[k] : k \in 1..Len(s)}
Tmpl(r) == [has |-> r.tmpl.has, refs |-> ToSet(r.tmpl.refs)]

FormatClauses(r) ==
  LET want == ParseFormat(r.toks, Tmpl(r))
      o == r.obs IN
  IF want.err THEN (IF o.err THEN {} ELSE {"accepted-an-invalid-format"})
  ELSE IF o.err THEN {"rejected-a-valid-format"}
  ELSE (IF o.date = want.date /\ o.amount = want.amount /\ o.desc = want.desc /\ o.location = want.location THEN {} ELSE {"column-positions"})
       \cup (IF o.fmt = want.fmt THEN {} ELSE {"date-format"})
       \cup (IF o.negate = want.negate /\ o.abs = want.abs THEN {} ELSE {"sign-mode"})
       \cup (IF ToSet(o.captures) = want.captures THEN {} ELSE {"captures"})
       \cup (IF ToSet(o.extras) = want.extras THEN {} ELSE {"extra-fields"})
       \cup (IF PositionBijection(r.toks, Tmpl(r)) THEN {} ELSE {"MODEL PositionBijection"})

SuggestClauses(r) ==
  LET s == ParseFormat(r.toks, [has |-> FALSE, refs |-> {}])
      d == r.det IN
  IF s.err THEN {"suggestion-does-not-parse"}
  ELSE IF s.date = d.date /\ s.desc = d.desc /\ s.amount = d.amount /\ s.location = d.location THEN {}
  ELSE {"suggestion-selects-other-columns"}

Clauses(r) == IF r.kind = "format" THEN FormatClauses(r) ELSE SuggestClauses(r)

Init == i = 0 /\ TLCSet(1, {})
Next == /\ i < Len(Recs)
        /\ i' = i + 1
        /\ LET r == Recs[i + 1]
               bad == Clauses(r) IN
           IF bad = {} THEN TRUE ELSE TLCSet(1, TLCGet(1) \cup {<<r.id, bad>>})
Spec == Init /\ [][Next]_i

Done == /\ PrintT(<<"REJECTED", TLCGet(1)>>)
        /\ PrintT(<<"CONSUMED", TLCGet("stats").diameter - 1, Len(Recs)>>)
        /\ TLCGet("stats").diameter - 1 = Len(Recs)
=============================================================================
