SPECIFICATION Spec
CONSTANTS
  MaxViews = 1
  Combos = TRUE
INVARIANT ViewsIndependent
INVARIANT ExcludedNowhere
INVARIANT NegationPartitions
