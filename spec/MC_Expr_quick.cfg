SPECIFICATION Spec
CONSTANTS
  MaxDepth = 1
  EnvIdx = {1, 2, 3, 4}
  WithErr = FALSE
  IllTyped = FALSE
INVARIANT DoubleNeg
INVARIANT DeMorgan
INVARIANT Commute
INVARIANT ShortCircuit
INVARIANT ChainIsConjunction
INVARIANT EqNeComplement
INVARIANT DivModZero
INVARIANT CaseInsensitive
INVARIANT Deterministic
