--------------------------- MODULE LegacyParsers ---------------------------
(***************************************************************************)
(* The two bank-specific statement readers of src/tally/parsers.py that a   *)
(* source reaches with `type: amex` / `type: boa` (deprecated in favour of  *)
(* format strings, still shipped): parse_amex (a CSV with the named columns *)
(* Date, Description, Amount) and parse_boa (text lines                     *)
(* "MM/DD/YYYY  description  amount  balance").                             *)
(*                                                                         *)
(* Both are the same machine as Rows.tla's reader with a fixed layout: a    *)
(* physical row either yields exactly one transaction or is skipped ON ITS  *)
(* OWN.  What they do NOT do (and Rows!Parse does): no currency symbols,    *)
(* parentheses or thousands separators in an amex amount, no sign modes.    *)
(*                                                                         *)
(* A row, as the abstraction function of the harness describes it:          *)
(*   shape : the row has the parts the reader needs (amex: the three named  *)
(*           columns exist in the header; boa: the line has the four-part   *)
(*           shape, date and both numerals of the right form)               *)
(*   date  : [ok, v]   v = ISO date when the date text is a real date       *)
(*   amt   : [ok, m]   m = the numeral's value in thousandths               *)
(*   desc  : id of the description text, loc : trailing two-capital code    *)
(***************************************************************************)
EXTENDS Integers, Sequences, FiniteSets

Good(r) == r.shape /\ r.amt.ok /\ r.amt.m # 0 /\ r.date.ok

Out(r, src) == [date |-> r.date.v, m |-> r.amt.m, desc |-> r.desc, loc |-> r.loc, source |-> src]

RECURSIVE Parse(_, _)
Parse(rows, src) ==
  IF rows = <<>> THEN <<>>
  ELSE (IF Good(Head(rows)) THEN <<Out(Head(rows), src)>> ELSE <<>>) \o Parse(Tail(rows), src)

GoodIdx(rows) == {k \in 1..Len(rows) : Good(rows[k])}

\* ----------------------------------------------------------------- laws ---
OnePerGoodRowOf(rows, src) == Len(Parse(rows, src)) = Cardinality(GoodIdx(rows))
\* a row is read on its own: the file cut anywhere reads as the two pieces read
RowLocalOf(rows, src) ==
  \A k \in 0..Len(rows) :
     Parse(rows, src) = Parse(SubSeq(rows, 1, k), src) \o Parse(SubSeq(rows, k + 1, Len(rows)), src)
\* the amount keeps the sign it is written with and is never zero; the source label is the reader's
FaithfulOf(rows, src) ==
  LET out == Parse(rows, src) IN
  \A i \in 1..Len(out) : out[i].m # 0 /\ out[i].source = src /\
     \E k \in GoodIdx(rows) : out[i] = Out(rows[k], src)

=============================================================================
