SPECIFICATION Spec
CONSTANTS
  MaxDepth = 1
  EnvIdx = {1, 3}
  WithErr = TRUE
  IllTyped = TRUE
INVARIANT DoubleNeg
INVARIANT DeMorgan
INVARIANT Commute
INVARIANT ShortCircuit
INVARIANT ChainIsConjunction
INVARIANT EqNeComplement
INVARIANT DivModZero
INVARIANT CaseInsensitive
INVARIANT Deterministic
