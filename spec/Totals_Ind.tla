----------------------------- MODULE Totals_Ind -----------------------------
(* Unbounded-amount companion of Totals.tla for Apalache (C06): the fold of    *)
(* analyze_transactions over transactions with ARBITRARY integer amounts.      *)
(* TLC checks Totals.tla on small amount alphabets; here conservation and the   *)
(* agreement of the marginals are discharged as an INDUCTIVE invariant         *)
(*     IndInit => IndInv        (apalache-mc check --init=IndInit --inv=IndInv --length=0)  *)
(*     IndInv /\ Next => IndInv' (apalache-mc check --init=IndStep --inv=IndInv --length=1)  *)
(* for every integer amount and every number of merchants / categories /       *)
(* months (their per-key totals are summarised by their sums, which is all the *)
(* laws speak about).  A tag list is abstracted to its CLASS - what            *)
(* Totals!Bucket reads off it: "income" if it contains income (any case),      *)
(* else "investment", else "transfer", else "none"; MC_Totals / MC_Classify    *)
(* check that reading on concrete tag texts.                                   *)
EXTENDS Integers

VARIABLES
  \* @type: Int;
  income,
  \* @type: Int;
  investment,
  \* @type: Int;
  transferIn,
  \* @type: Int;
  transferOut,
  \* @type: Int;
  spending,
  \* @type: Int;
  credits,
  \* @type: Int;
  absSum,        \* ghost: sum of |amount| over the transactions seen
  \* @type: Int;
  rawSum,        \* sum of the signed amounts (stats['total'])
  \* @type: Int;
  merchSum,      \* sum over merchants of by_merchant[m].total
  \* @type: Int;
  catSum,        \* sum over categories of by_category[c].total
  \* @type: Int;
  monthSum,      \* sum over months of by_month[mo]
  \* @type: Int;
  count,
  \* @type: Int;
  merchCount,    \* sum over merchants of by_merchant[m].count
  \* @type: Int;
  catCount

Abs(a) == IF a < 0 THEN -a ELSE a
Classes == {"income", "investment", "transfer", "none"}

\* Totals!Effective and Totals!Bucket on (amount, class)
Effective(a, cl) == IF cl \in {"income", "investment"} THEN Abs(a) ELSE a

Init ==
  /\ income = 0 /\ investment = 0 /\ transferIn = 0 /\ transferOut = 0 /\ spending = 0 /\ credits = 0
  /\ absSum = 0 /\ rawSum = 0 /\ merchSum = 0 /\ catSum = 0 /\ monthSum = 0 /\ count = 0 /\ merchCount = 0 /\ catCount = 0

\* one loop iteration of analyze_transactions: Totals!Step projected onto the sums
AddTxn(a, cl) ==
  /\ income'      = income      + (IF cl = "income" THEN Abs(a) ELSE 0)
  /\ investment'  = investment  + (IF cl = "investment" THEN Abs(a) ELSE 0)
  /\ transferIn'  = transferIn  + (IF cl = "transfer" /\ a > 0 THEN Abs(a) ELSE 0)
  /\ transferOut' = transferOut + (IF cl = "transfer" /\ ~(a > 0) THEN Abs(a) ELSE 0)
  /\ spending'    = spending    + (IF cl = "none" /\ a > 0 THEN Abs(a) ELSE 0)
  /\ credits'     = credits     + (IF cl = "none" /\ ~(a > 0) THEN Abs(a) ELSE 0)
  /\ absSum' = absSum + Abs(a)
  /\ rawSum' = rawSum + a
  /\ merchSum' = merchSum + Effective(a, cl)
  /\ catSum' = catSum + Effective(a, cl)
  /\ monthSum' = monthSum + Effective(a, cl)
  /\ count' = count + 1 /\ merchCount' = merchCount + 1 /\ catCount' = catCount + 1

Next == \E a \in Int : \E cl \in Classes : AddTxn(a, cl)

\* ---- the laws of C06 as ONE inductive invariant ---------------------------------
Conservation == income + investment + transferIn + transferOut + spending + credits = absSum
NonNegative  == income >= 0 /\ investment >= 0 /\ transferIn >= 0 /\ transferOut >= 0 /\ spending >= 0 /\ credits >= 0
Marginals    == /\ merchSum = catSum /\ merchSum = monthSum
                /\ merchSum = income + investment + transferIn - transferOut + spending - credits
                /\ merchCount = count /\ catCount = count /\ count >= 0
\* the signed total is what the buckets say once income / investment are counted with their own sign lost:
\* rawSum lies between -absSum and absSum
RawBound     == rawSum <= absSum /\ -absSum <= rawSum

IndInv == Conservation /\ NonNegative /\ Marginals /\ RawBound
IndInit == Init
\* an arbitrary state satisfying the invariant (the start of the inductive step)
AnyState ==
  /\ income \in Int /\ investment \in Int /\ transferIn \in Int /\ transferOut \in Int /\ spending \in Int /\ credits \in Int
  /\ absSum \in Int /\ rawSum \in Int /\ merchSum \in Int /\ catSum \in Int /\ monthSum \in Int
  /\ count \in Int /\ merchCount \in Int /\ catCount \in Int
IndStep == AnyState /\ IndInv
\* negative controls (must be REFUTED): without the bucket precedence the marginals law is not inductive; credits are not spending
Neg_SpendingIsAllPositive == spending = absSum
Neg_RawIsMerchSum == rawSum = merchSum
=============================================================================
