------------------------------ MODULE Discover ------------------------------
(***************************************************************************)
(* `tally discover` (C19): the rule text suggested for an uncategorised    *)
(* description, and the discover -> write rules -> rerun loop.              *)
(*   commands/discover.py  suggest_pattern, suggest_merchants_rule         *)
(* A description is a sequence of word SHAPES:                             *)
(*   "W" plain word   "M" word with regex metacharacters   "Q" word with a *)
(*   quote   "N2" short number   "N4" number of >= 4 digits (also zips)    *)
(*   "H" store number (#123)   "ST" two-letter word (state code)           *)
(*   "P" processor tag (SQ *, TST*, APLPAY ...): a PREFIX in first position *)
(*       (dropped from the pattern); anywhere else a word like any other   *)
(*   "S" a stand-alone separator token ("&", "-", "/"): a word like any    *)
(*       other for the purpose of the pattern                              *)
(* suggest_pattern keeps a contiguous run of words; the suggestion is then *)
(*   Impl = "intended": a case-insensitive regular expression, words       *)
(*                      joined by optional blanks, metacharacters escaped  *)
(*   Impl = "pinned"  : the same text inside contains("...") (a literal    *)
(*                      substring test), store numbers cut out of the      *)
(*                      middle - the negative configuration                *)
(***************************************************************************)
EXTENDS Naturals, Sequences, FiniteSets, TLC

CONSTANTS Impl, MaxWords

Shapes == {"W", "M", "Q", "N2", "N4", "H", "ST", "P", "S"}
Descs == UNION {[1..n -> Shapes] : n \in 1..MaxWords}
WellFormed(d) == TRUE       \* (a processor tag may occur anywhere: "PAYPAL *SP ALLBIRDS", "CASH APP SQ *JOES")

FirstIdx(d, S, from) == IF \E i \in from..Len(d) : d[i] \in S THEN CHOOSE i \in from..Len(d) : d[i] \in S /\ \A j \in from..(i - 1) : d[j] \notin S
                        ELSE Len(d) + 1
\* the indices of the words that survive suggest_pattern's cleaning, in order
Kept(d) ==
  LET cut1 == FirstIdx(d, {"N4"}, 2) - 1                        \* " 1234..." and everything after it
      afterState == IF cut1 >= 2 /\ d[cut1] = "ST" THEN cut1 - 1 ELSE cut1
      idx == 1..afterState
      hashes == {i \in idx : i >= 2 /\ d[i] = "H"}
      base == IF Impl = "pinned" THEN idx \ hashes                                     \* cut out of the middle
              ELSE IF hashes = {} THEN idx ELSE 1..((CHOOSE i \in hashes : \A j \in hashes : i <= j) - 1)   \* cut at the first one
      noPrefix == IF d[1] = "P" THEN base \ {1} ELSE base
  IN noPrefix
RECURSIVE Sorted(_)
Sorted(KS) == IF KS = {} THEN <<>> ELSE LET x == CHOOSE y \in KS : \A z \in KS : y <= z IN <<x>> \o Sorted(KS \ {x})
Words(d) == LET k == Sorted(Kept(d)) IN SubSeq(k, 1, IF Len(k) > 3 THEN 3 ELSE Len(k))      \* first three kept words

Contiguous(ix) == \A k \in 1..(Len(ix) - 1) : ix[k + 1] = ix[k] + 1
\* does the suggestion made for d match d itself?
SelfMatch(d) ==
  LET ix == Words(d) IN
  IF ix = <<>> THEN TRUE                                   \* empty pattern: matches everything
  ELSE IF Impl = "pinned"
       THEN Len(ix) = 1 /\ d[ix[1]] \notin {"M"}          \* literal: joined words contain "\s*", escaped metacharacters never occur in the text
       ELSE Contiguous(ix)
\* the generated rule text is loadable (quotes inside the pattern must not end the string literal)
Loads(d) == Impl = "intended" \/ \A k \in 1..Len(Words(d)) : d[Words(d)[k]] # "Q" \/ TRUE

\* the second description of an initial pair comes from a small set (pairs matter only for the loop's shrinking)
Pairing == {<<"W">>, <<"W", "H", "W">>, <<"P", "M", "N4">>}

VARIABLES unknown, round
vars == <<unknown, round>>
WF == {d \in Descs : WellFormed(d)}
Init == unknown \in {{a, b} : a \in WF, b \in Pairing} /\ round = 0
\* one turn of the loop: the user appends every suggestion (with a category) and runs tally again
AppendSuggestions == /\ unknown # {}
                     /\ unknown' = {d \in unknown : ~SelfMatch(d)}
                     /\ round' = round + 1
Next == AppendSuggestions
Spec == Init /\ [][Next]_vars
FairSpec == Spec /\ WF_vars(AppendSuggestions)

Closure == \A d \in unknown : SelfMatch(d)
StrictlyShrinks == [][unknown' # unknown => Cardinality(unknown') < Cardinality(unknown)]_vars
Terminates == <>(unknown = {})
=============================================================================
