---------------------------- MODULE MC_Pipeline ----------------------------
(* C11 / C16 universe: budgets reached from a one-source budget by single      *)
(* setting changes (each step changes exactly one setting of one source, or a  *)
(* budget-level setting, or adds a source).  Every state carries the report    *)
(* the composition specifies; TLC checks on every step that a change to one    *)
(* source leaves the other sources' transactions untouched.                    *)
EXTENDS Pipeline

CONSTANTS MaxSteps,
          PairInit     \* start from budgets with TWO sources that have the same layout (textually identical format strings)

VARIABLES b, rep, steps, probes
vars == <<b, rep, steps, probes>>

Src(name, layout) == [name |-> name, layout |-> layout, sign |-> "plain", dec |-> "dot", header |-> TRUE, status |-> "present", delim |-> "comma"]
Init == /\ b \in IF PairInit
                  THEN {[sources |-> <<Src("Card", l), Src(nm, l)>>, rules |-> "rules", mode |-> "first_match", supp |-> FALSE, views |-> FALSE, xform |-> FALSE, cur |-> "absent", modeBogus |-> FALSE, mfMissing |-> FALSE, vf |-> "ok", year |-> "absent", out |-> "absent", split |-> FALSE, removed |-> FALSE] :
                          l \in {"L1", "L2", "L4"}, nm \in {"Bank", "Card"}}
                  ELSE {[sources |-> <<Src("Card", l)>>, rules |-> r, mode |-> "first_match", supp |-> FALSE, views |-> FALSE, xform |-> FALSE, cur |-> "absent", modeBogus |-> FALSE, mfMissing |-> FALSE, vf |-> "ok", year |-> "absent", out |-> "absent", split |-> FALSE, removed |-> FALSE] :
                          l \in {"L1", "L2", "L4"}, r \in {"none", "rules", "csv"}}
        /\ rep = Report(b) /\ steps = 0 /\ probes = [k \in 1..Len(Probes) |-> Explain(b, Probes[k])]

Set(nb) == /\ steps < MaxSteps /\ nb # b /\ b' = nb /\ rep' = Report(nb) /\ steps' = steps + 1
           /\ probes' = [k \in 1..Len(Probes) |-> Explain(nb, Probes[k])]

ChangeSource ==
  \E i \in 1..Len(b.sources) :
     \/ \E v \in {"L1", "L2", "L4"} : Set([b EXCEPT !.sources[i].layout = v])
     \/ \E v \in {"plain", "negate", "abs"} : Set([b EXCEPT !.sources[i].sign = v])
     \/ \E v \in {"dot", "comma"} : Set([b EXCEPT !.sources[i].dec = v])
     \/ \E v \in BOOLEAN : Set([b EXCEPT !.sources[i].header = v])
     \/ \E v \in {"comma", "semicolon", "tab"} : Set([b EXCEPT !.sources[i].delim = v])
     \* missing: no such file; unreadable: the path exists but cannot be read as a statement (it is a directory)
     \/ \E v \in {"present", "missing", "unreadable"} : Set([b EXCEPT !.sources[i].status = v])
ChangeBudget ==
  \/ \E v \in {"none", "rules", "csv"} : Set([b EXCEPT !.rules = v])
  \/ \E v \in {"first_match", "most_specific"} : Set([b EXCEPT !.mode = v])
  \/ \E v \in BOOLEAN : Set([b EXCEPT !.supp = v])
  \/ \E v \in BOOLEAN : Set([b EXCEPT !.views = v])
  \/ \E v \in BOOLEAN : Set([b EXCEPT !.xform = v])
  \/ \E v \in {"absent", "eur", "zl"} : Set([b EXCEPT !.cur = v])
  \/ \E v \in BOOLEAN : Set([b EXCEPT !.modeBogus = v])
  \/ \E v \in BOOLEAN : Set([b EXCEPT !.mfMissing = v])
  \/ \E v \in {"ok", "missing", "corrupt"} : Set([b EXCEPT !.vf = v])
  \/ \E v \in {"absent", "y2024"} : Set([b EXCEPT !.year = v])
  \/ \E v \in {"absent", "custom"} : Set([b EXCEPT !.out = v])
  \/ \E v \in BOOLEAN : Set([b EXCEPT !.split = v])
  \/ \E v \in BOOLEAN : Set([b EXCEPT !.removed = v])
  \/ (Len(b.sources) = 1 /\ \E l \in {"L1", "L2", "L4"}, nm \in {"Bank", "Card"} : Set([b EXCEPT !.sources = Append(@, Src(nm, l))]))
Next == ChangeSource \/ ChangeBudget
Spec == Init /\ [][Next]_vars

\* a step that touches source i leaves every other source's transactions as they were
OtherSourcesUntouched ==
  [][\A i \in 1..Len(b.sources) :
        (Len(b'.sources) = Len(b.sources) /\ b'.sources[i] # b.sources[i]
           /\ b'.rules = b.rules /\ b'.mode = b.mode /\ b'.supp = b.supp /\ b'.xform = b.xform) =>
        SelectSeq(rep'.txns, LAMBDA t : t.sid # i) = SelectSeq(rep.txns, LAMBDA t : t.sid # i)]_vars
Inv_MissingIsolated == \A i \in 1..Len(b.sources) : MissingIsolated(b, i)
Inv_SupplementalNeverCounted == SupplementalNeverCounted(b)
\* the flows always add up to the absolute amounts of the counted transactions
Inv_FlowsConserve == SumOver(DOMAIN rep.flows, rep.flows) = SumOver(1..Len(rep.txns), [k \in 1..Len(rep.txns) |-> Abs(rep.txns[k].cents)])
\* C16 on the model: what explain says about a probe is what up would say about such a transaction - by construction one function;
\* discover's list is the Unknown part of the report
Inv_DiscoverIsUnknownPart == \A k \in 1..Len(Discover(b)) : Discover(b)[k].cat = "Unknown" /\ Discover(b)[k].rule = 0
\* what the run uses is what Config.tla derives from the settings, and every setting that is not honoured is reported
Inv_ConfigReported == C!NothingIgnoredSilently(SettingsOf(b)) /\ C!KeyWins(SettingsOf(b))
Neg_ModeNeverMatters == \A k \in 1..Len(rep.txns) : rep.txns[k].cat # "Big"
=============================================================================
