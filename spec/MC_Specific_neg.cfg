SPECIFICATION Spec
CONSTANTS
  MaxRules = 2
INVARIANT Neg_FirstWins
