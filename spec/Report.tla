------------------------------- MODULE Report -------------------------------
(***************************************************************************)
(* The HTML report's embedded data (report.write_summary_file_vue) - C12.  *)
(*                                                                         *)
(* 1. Assembly.  The template has three placeholders; the document is a    *)
(*    sequence of chunks and str.replace() substitutes EVERY occurrence of *)
(*    a placeholder, including occurrences that arrived inside content     *)
(*    inserted by an earlier replacement.  The data is a sequence of atoms *)
(*    (pieces of text inside JSON strings) among which the user's own text *)
(*    may spell a placeholder or "</script>".  A browser / html.parser     *)
(*    ends the data <script> element at the first "</script>".             *)
(*      Impl "intended": CSS, then JS, then DATA last; "</" written "<\/"  *)
(*      Impl "pinned"  : CSS, DATA, JS; json.dumps as is                   *)
(* 2. Merchant ids.  Each merchant gets an id used as a dictionary key;    *)
(*    two merchants with the same id overwrite each other.                 *)
(*      Impl "intended": ids made unique;  "pinned": drop quotes, blanks   *)
(*      become underscores (collides on names differing only in those)     *)
(***************************************************************************)
EXTENDS Naturals, Sequences, FiniteSets, TLC

CONSTANTS Impl

Atoms == {"txt", "quote", "backslash", "endscript", "css_ph", "data_ph", "js_ph", "nonascii"}

\* ---- assembly ---------------------------------------------------------------
Template == <<"html", "css_ph", "html", "script_open", "data_ph", "script_close", "script_open", "js_ph", "script_close">>
\* what json.dumps writes for one atom
Written(a) == IF a = "endscript" /\ Impl = "intended" THEN "endscript_escaped" ELSE a
DataChunk(data) == <<"data_begin">> \o [i \in 1..Len(data) |-> Written(data[i])] \o <<"data_end">>

RECURSIVE ReplaceAll(_, _, _)
ReplaceAll(doc, ph, content) ==
  IF doc = <<>> THEN <<>>
  ELSE (IF Head(doc) = ph THEN content ELSE <<Head(doc)>>) \o ReplaceAll(Tail(doc), ph, content)

Assemble(data) ==
  LET css == <<"css_text">>
      js == <<"js_text">>
      d == DataChunk(data) IN
  IF Impl = "pinned"
  THEN ReplaceAll(ReplaceAll(ReplaceAll(Template, "css_ph", css), "data_ph", d), "js_ph", js)
  ELSE ReplaceAll(ReplaceAll(ReplaceAll(Template, "css_ph", css), "js_ph", js), "data_ph", d)

\* what a reader recovers: the content of the first script element that starts with data_begin, up to the first
\* raw "endscript" or script_close
RECURSIVE TakeUntil(_)
TakeUntil(doc) == IF doc = <<>> \/ Head(doc) \in {"endscript", "script_close"} THEN <<>> ELSE <<Head(doc)>> \o TakeUntil(Tail(doc))
RECURSIVE FindData(_)
FindData(doc) == IF doc = <<>> THEN <<"nothing">>
                 ELSE IF Len(doc) >= 2 /\ doc[1] = "script_open" /\ doc[2] = "data_begin" THEN TakeUntil(Tail(doc))
                 ELSE FindData(Tail(doc))
Unwrite(x) == IF x = "endscript_escaped" THEN "endscript" ELSE x
Decode(doc) ==
  LET raw == FindData(doc) IN
  IF Len(raw) < 2 \/ raw[1] # "data_begin" \/ raw[Len(raw)] # "data_end" THEN <<"corrupt">>
  ELSE [i \in 1..(Len(raw) - 2) |-> Unwrite(raw[i + 1])]

RoundTrip(data) == Decode(Assemble(data)) = data

\* ---- merchant ids -----------------------------------------------------------
\* a name is a sequence of name atoms
NameAtoms == {"w1", "w2", "space", "underscore", "squote", "dquote"}
RECURSIVE PinnedId(_)
PinnedId(n) == IF n = <<>> THEN <<>>
               ELSE (IF Head(n) \in {"squote", "dquote"} THEN <<>> ELSE IF Head(n) = "space" THEN <<"underscore">> ELSE <<Head(n)>>) \o PinnedId(Tail(n))
\* intended: the k-th merchant whose base id is already taken gets a numeric suffix
IdsOf(names) ==      \* names: a sequence of distinct names -> sequence of ids
  IF Impl = "pinned" THEN [i \in 1..Len(names) |-> PinnedId(names[i])]
  ELSE [i \in 1..Len(names) |-> <<PinnedId(names[i]), Cardinality({j \in 1..(i - 1) : PinnedId(names[j]) = PinnedId(names[i])})>>]
IdsInjective(names) == \A i, j \in 1..Len(names) : i # j => IdsOf(names)[i] # IdsOf(names)[j]
\* every merchant appears exactly once in the id-keyed dictionary
EachMerchantOnce(names) == Cardinality({IdsOf(names)[i] : i \in 1..Len(names)}) = Len(names)

NameSet == {<<"w1">>, <<"w1", "space", "w2">>, <<"w1", "underscore", "w2">>, <<"w1", "squote", "w2">>, <<"w1", "w2">>,
            <<"dquote", "w1", "dquote">>, <<"w1", "space", "squote", "w2">>, <<"w2">>}

VARIABLES data, names
vars == <<data, names>>
Init == /\ data \in UNION {[1..n -> Atoms] : n \in 0..3}
        /\ names \in {<<a, b>> : a \in NameSet, b \in NameSet}
        /\ names[1] # names[2]
Next == UNCHANGED vars
Spec == Init /\ [][Next]_vars

Inv_RoundTrip == RoundTrip(data)
Inv_EachMerchantOnce == EachMerchantOnce(names)
=============================================================================
