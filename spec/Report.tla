------------------------------- MODULE Report -------------------------------
(***************************************************************************)
(* The HTML report's embedded data (report.write_summary_file_vue) - C12.  *)
(*                                                                         *)
(* 1. Assembly.  The template has three placeholders; the document is a    *)
(*    sequence of chunks and str.replace() substitutes EVERY occurrence of *)
(*    a placeholder, including occurrences that arrived inside content     *)
(*    inserted by an earlier replacement.  The data is a sequence of atoms *)
(*    (pieces of text inside JSON strings) among which the user's own text *)
(*    may spell a placeholder or "</script>" (the atom "endscript" stands  *)
(*    for ANY spelling a browser accepts as the end tag: the tag name is   *)
(*    matched case-insensitively, blanks may precede ">").  A browser /    *)
(*    html.parser ends the data <script> element at the first such tag.    *)
(*      Impl "intended": CSS, then JS, then DATA last; "</" written "<\/"  *)
(*      Impl "pinned"  : CSS, DATA, JS; json.dumps as is                   *)
(* 2. Merchant ids.  Each merchant gets an id used as a dictionary key;    *)
(*    two merchants with the same id overwrite each other.                 *)
(*      Impl "intended": ids made unique by probing base, base_2, ...      *)
(*      "pinned": drop quotes, blanks become underscores (collides on      *)
(*      names differing only in those); "counter": a running number per    *)
(*      base (collides with a merchant NAMED like a numbered duplicate)    *)
(***************************************************************************)
EXTENDS Naturals, Sequences, FiniteSets, TLC

CONSTANTS Impl

\* "x_ph": any FURTHER placeholder the assembly substitutes (the current template has none; the harness takes the actual set
\* from the template and from report.py, so a placeholder added later is covered by the same rule: the data goes in last)
Atoms == {"txt", "quote", "backslash", "endscript", "css_ph", "data_ph", "js_ph", "x_ph", "nonascii"}

\* ---- assembly ---------------------------------------------------------------
Template == <<"html", "x_ph", "css_ph", "html", "script_open", "data_ph", "script_close", "script_open", "js_ph", "script_close">>
\* what json.dumps writes for one atom
Written(a) == IF a = "endscript" /\ Impl = "intended" THEN "endscript_escaped" ELSE a
DataChunk(data) == <<"data_begin">> \o [i \in 1..Len(data) |-> Written(data[i])] \o <<"data_end">>

RECURSIVE ReplaceAll(_, _, _)
ReplaceAll(doc, ph, content) ==
  IF doc = <<>> THEN <<>>
  ELSE (IF Head(doc) = ph THEN content ELSE <<Head(doc)>>) \o ReplaceAll(Tail(doc), ph, content)

Assemble(data) ==
  LET css == <<"css_text">>
      js == <<"js_text">>
      d == DataChunk(data)
      x == <<"x_text">> IN
  IF Impl = "pinned"
  THEN ReplaceAll(ReplaceAll(ReplaceAll(ReplaceAll(Template, "x_ph", x), "css_ph", css), "data_ph", d), "js_ph", js)
  ELSE IF Impl = "xlate"          \* a placeholder added later and substituted AFTER the data went in
  THEN ReplaceAll(ReplaceAll(ReplaceAll(ReplaceAll(Template, "css_ph", css), "js_ph", js), "data_ph", d), "x_ph", x)
  ELSE ReplaceAll(ReplaceAll(ReplaceAll(ReplaceAll(Template, "x_ph", x), "css_ph", css), "js_ph", js), "data_ph", d)

\* what a reader recovers: the content of the first script element that starts with data_begin, up to the first
\* raw "endscript" or script_close
RECURSIVE TakeUntil(_)
TakeUntil(doc) == IF doc = <<>> \/ Head(doc) \in {"endscript", "script_close"} THEN <<>> ELSE <<Head(doc)>> \o TakeUntil(Tail(doc))
RECURSIVE FindData(_)
FindData(doc) == IF doc = <<>> THEN <<"nothing">>
                 ELSE IF Len(doc) >= 2 /\ doc[1] = "script_open" /\ doc[2] = "data_begin" THEN TakeUntil(Tail(doc))
                 ELSE FindData(Tail(doc))
Unwrite(x) == IF x = "endscript_escaped" THEN "endscript" ELSE x
Decode(doc) ==
  LET raw == FindData(doc) IN
  IF Len(raw) < 2 \/ raw[1] # "data_begin" \/ raw[Len(raw)] # "data_end" THEN <<"corrupt">>
  ELSE [i \in 1..(Len(raw) - 2) |-> Unwrite(raw[i + 1])]

RoundTrip(data) == Decode(Assemble(data)) = data

\* ---- merchant ids -----------------------------------------------------------
\* a name is a sequence of name atoms ("d2": the digit 2 - a name may itself look like a numbered duplicate)
NameAtoms == {"w1", "w2", "space", "underscore", "squote", "dquote", "d2"}
RECURSIVE PinnedId(_)
PinnedId(n) == IF n = <<>> THEN <<>>
               ELSE (IF Head(n) \in {"squote", "dquote"} THEN <<>> ELSE IF Head(n) = "space" THEN <<"underscore">> ELSE <<Head(n)>>) \o PinnedId(Tail(n))
\* ids are TEXT: a numbered duplicate is the base followed by "_<k>", which another merchant's own name may spell
Numbered(base, k) == IF k = 1 THEN base ELSE base \o <<"underscore", IF k = 2 THEN "d2" ELSE IF k = 3 THEN "d3" ELSE "d4">>
\* intended (report.make_merchant_id): probe base, base_2, base_3 ... for the first id not handed out yet
RECURSIVE Probe(_, _, _)
Probe(names, i, ids) ==
  IF i > Len(names) THEN ids
  ELSE LET base == PinnedId(names[i])
           used == {ids[j] : j \in 1..Len(ids)}
           k == CHOOSE k \in 1..4 : Numbered(base, k) \notin used /\ \A m \in 1..(k - 1) : Numbered(base, m) \in used
       IN Probe(names, i + 1, Append(ids, Numbered(base, k)))
\* a plausible simplification: a running number per base (base, base_2, ...) without looking at the ids already handed out
Counted(names) == [i \in 1..Len(names) |->
                     Numbered(PinnedId(names[i]), 1 + Cardinality({j \in 1..(i - 1) : PinnedId(names[j]) = PinnedId(names[i])}))]
IdsOf(names) ==      \* names: a sequence of distinct names -> sequence of ids
  IF Impl = "pinned" THEN [i \in 1..Len(names) |-> PinnedId(names[i])]
  ELSE IF Impl = "counter" THEN Counted(names)
  ELSE Probe(names, 1, <<>>)
IdsInjective(names) == \A i, j \in 1..Len(names) : i # j => IdsOf(names)[i] # IdsOf(names)[j]
\* every merchant appears exactly once in the id-keyed dictionary
EachMerchantOnce(names) == Cardinality({IdsOf(names)[i] : i \in 1..Len(names)}) = Len(names)

NameSet == {<<"w1">>, <<"w1", "space", "w2">>, <<"w1", "underscore", "w2">>, <<"w1", "squote", "w2">>, <<"w1", "w2">>,
            <<"dquote", "w1", "dquote">>, <<"w1", "space", "squote", "w2">>, <<"w2">>,
            <<"w1", "underscore", "w2", "underscore", "d2">>, <<"w1", "space", "w2", "space", "d2">>}

VARIABLES data, names
vars == <<data, names>>
Distinct(ns) == \A i, j \in 1..Len(ns) : i # j => ns[i] # ns[j]
Init == \/ /\ data \in UNION {[1..n -> Atoms] : n \in 0..3}
           /\ names \in {<<a, b>> : a \in NameSet, b \in NameSet}
           /\ Distinct(names)
        \/ /\ data \in UNION {[1..n -> Atoms] : n \in 0..1}
           /\ names \in {<<a, b, c>> : a \in NameSet, b \in NameSet, c \in NameSet}
           /\ Distinct(names)
Next == UNCHANGED vars
Spec == Init /\ [][Next]_vars

Inv_RoundTrip == RoundTrip(data)
Inv_EachMerchantOnce == EachMerchantOnce(names)
=============================================================================
