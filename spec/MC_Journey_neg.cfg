SPECIFICATION Spec
CONSTANTS
  MaxUnknown = 4
INVARIANT Neg_NeverUnknown
