------------------------------ MODULE Journey ------------------------------
(***************************************************************************)
(* The journey `tally workflow` guides a user (or an agent) through: from  *)
(* an empty directory to a budget whose merchants are all categorised.     *)
(*   commands/workflow.py  (the advice), commands/init.py, discover.py     *)
(*                                                                         *)
(*   stage    "empty"    no config directory                               *)
(*            "starter"  what `tally init` creates: settings without data  *)
(*                       sources, rule and view files with comments only   *)
(*            "sources"  data sources configured and statements present    *)
(*   unknown  number of distinct descriptions `tally up` leaves Unknown    *)
(*                                                                         *)
(* Advice is what the workflow command says; each piece of advice names an *)
(* action.  The discover round relies on C19: every suggested rule matches *)
(* the description it was suggested for, so appending k suggestions (with  *)
(* a category) removes at least k descriptions from the Unknown list.      *)
(***************************************************************************)
EXTENDS Naturals, Sequences, TLC

CONSTANTS MaxUnknown

VARIABLES stage, unknown, hist
vars == <<stage, unknown, hist>>

Advice == CASE stage = "empty" -> "no-config"
            [] stage = "starter" -> "no-sources"
            [] stage = "sources" /\ unknown > 0 -> "unknowns"
            [] OTHER -> "done"

Init == stage = "empty" /\ unknown = 0 /\ hist = <<>>

\* `tally init`: creates the starter files; in an initialised directory it changes nothing the journey looks at
InitCmd == /\ stage' = IF stage = "empty" THEN "starter" ELSE stage
           /\ UNCHANGED unknown /\ hist' = Append(hist, [a |-> "init"])
\* the user configures a data source and drops a statement with n distinct, so far unknown, descriptions
AddSources(n) == /\ stage = "starter" /\ stage' = "sources" /\ unknown' = n
                 /\ hist' = Append(hist, [a |-> "sources", n |-> n])
\* one round of the loop: `tally discover`, append k of its suggestions with a category, run again
DiscoverRound(k) == /\ stage = "sources" /\ unknown > 0 /\ k \in 1..unknown
                    /\ unknown' = unknown - k            \* the statements of the journey use unrelated descriptions: exactly k
                    /\ UNCHANGED stage /\ hist' = Append(hist, [a |-> "discover", k |-> k])

\* following the advice
Follow == \/ Advice = "no-config" /\ InitCmd
          \/ Advice = "no-sources" /\ \E n \in 0..MaxUnknown : AddSources(n)
          \/ Advice = "unknowns" /\ \E k \in 1..unknown : DiscoverRound(k)
\* things a user may also do at any time
Detour == Len(hist) < 8 /\ InitCmd
Next == Follow \/ Detour
Spec == Init /\ [][Next]_vars /\ WF_vars(Follow)

\* ---- properties ---------------------------------------------------------------
TypeOK == stage \in {"empty", "starter", "sources"} /\ unknown \in 0..MaxUnknown
\* the advice always names something that can be done (the journey never gets stuck before it is done)
AdviceIsActionable == Advice # "done" => ENABLED Follow
\* every followed step makes progress on (stage, unknown), so the journey ends
Rank == (IF stage = "empty" THEN 2 ELSE IF stage = "starter" THEN 1 ELSE 0) * (MaxUnknown + 1) + unknown
FollowingMakesProgress == [][Follow => (stage' # stage \/ unknown' < unknown)]_vars
EventuallyDone == <>(Advice = "done")
DoneIsStable == [][Advice = "done" => Advice' = "done"]_vars
\* negative control (must be refuted): "no statement ever has unknown merchants"
Neg_NeverUnknown == unknown = 0
=============================================================================
