----------------------------- MODULE MC_Config -----------------------------
(* every settings record is one state; the harness materialises each as a real budget directory and compares         *)
(* load_config's result (and the warnings `tally up` prints) with Effective                                         *)
EXTENDS Config, TLC
VARIABLES s, eff, diag
vars == <<s, eff, diag>>
Init == s \in Settings /\ eff = Effective(s) /\ diag = Diag(s)
Next == UNCHANGED vars
Spec == Init /\ [][Next]_vars
Inv_NothingIgnoredSilently == NothingIgnoredSilently(s)
Inv_NoSpuriousWarnings == NoSpuriousWarnings(s)
Inv_KeyWins == KeyWins(s)
Inv_Independent == Independent(s)
Inv_DiagAgrees == DiagAgrees(s)
Inv_UnusedRulesPointedOut == UnusedRulesPointedOut(s)
\* negative control: "the legacy CSV is used whenever it exists" must be refuted
Neg_CsvAlwaysUsed == s.csvFile => eff.rules = "csv"
=============================================================================
