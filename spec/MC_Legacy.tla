----------------------------- MODULE MC_Legacy -----------------------------
(* C14 universe: CSV rule files of up to MaxRules rules (pattern x modifiers   *)
(* x category/tag profile) against every transaction of the universe.  Each    *)
(* state carries the classification the CSV semantics gives; TLC also checks   *)
(* that the intended conversion matches the same transactions.                 *)
EXTENDS Legacy, MC_LegacyData

CONSTANTS MaxRules, CoreP, CoreM      \* second and later rules are drawn from these index sets

Profiles == { [cat |-> "C1", sub |-> "S1", tags |-> {"ta"}], [cat |-> "C2", sub |-> "", tags |-> {}], [cat |-> "", sub |-> "", tags |-> {"tb"}] }
RuleOf(pi, mi, pr, id) == [pat |-> Patterns[pi], mods |-> ModLists[mi], pi |-> pi, mi |-> mi, id |-> id,
                           cat |-> pr.cat, sub |-> pr.sub, tags |-> pr.tags]

VARIABLES rules, res
vars == <<rules, res>>
Results(rs) == [k \in 1..Len(Txns) |-> CsvClassify(rs, Txns[k])]

Init == rules = <<>> /\ res = Results(<<>>)
Add == /\ Len(rules) < MaxRules
       /\ \E pi \in (IF rules = <<>> THEN 1..Len(Patterns) ELSE CoreP),
             mi \in (IF rules = <<>> THEN 1..Len(ModLists) ELSE CoreM), pr \in Profiles :
             rules' = Append(rules, RuleOf(pi, mi, pr, Len(rules) + 1))
       /\ res' = Results(rules')
Next == Add
Spec == Init /\ [][Next]_vars

Inv_MigrationPreserves == \A i \in 1..Len(rules) : \A k \in 1..Len(Txns) : MigrationPreserves(rules[i], Txns[k])
\* negative control: exact equality instead of the CSV's +-0.01 tolerance is NOT a refinement
ExactEq(r) == [r EXCEPT !.mods = [k \in 1..Len(r.mods) |-> IF r.mods[k].m = "amt" /\ r.mods[k].op = "eq"
                                                           THEN [r.mods[k] EXCEPT !.op = "range", !.v2 = r.mods[k].v] ELSE r.mods[k]]]
Neg_ExactEqualityIsFine == \A i \in 1..Len(rules) : \A k \in 1..Len(Txns) : CsvRuleMatches(ExactEq(rules[i]), Txns[k]) = CsvRuleMatches(rules[i], Txns[k])
=============================================================================
