SPECIFICATION Spec
CONSTANTS
  Impl = "intended"
INVARIANT Inv_RoundTrip
INVARIANT Inv_EachMerchantOnce
