SPECIFICATION Spec
INVARIANT Neg_NothingEverEvaluates
