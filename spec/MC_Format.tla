----------------------------- MODULE MC_Format -----------------------------
(* Bounded universe for C18: every token sequence up to MaxWidth, every      *)
(* template; every header row up to MaxWidth over the header vocabulary.     *)
EXTENDS Format

CONSTANTS MaxWidth,
          HeaderWidth    \* header rows over the PLAIN classes are explored to this (larger) width: real statements have many columns

Tokens == { [k |-> "date", fmt |-> ""], [k |-> "date", fmt |-> "f2"], [k |-> "description"],
            [k |-> "amount", sign |-> ""], [k |-> "amount", sign |-> "-"], [k |-> "amount", sign |-> "+"],
            [k |-> "location"], [k |-> "custom", n |-> "ca"], [k |-> "custom", n |-> "cb"],
            [k |-> "skip"], [k |-> "field"], [k |-> "bad"] }
NoT == [has |-> FALSE, refs |-> {}]
T(r) == [has |-> TRUE, refs |-> r]
Templates == {NoT, T({}), T({"ca"}), T({"ca", "cb"}), T({"cz"})}
\* header classes: which detection patterns the header text matches
Headers == { {"date"}, {"desc"}, {"amount"}, {"loc"}, {}, {"date", "amount"}, {"desc", "loc"}, {"amount", "loc"}, {"date", "desc"} }

PlainHeaders == { {"date"}, {"desc"}, {"amount"}, {"loc"}, {} }

VARIABLES mode, toks, tmpl, out
vars == <<mode, toks, tmpl, out>>

Init == \/ /\ mode = "format" /\ toks = <<>> /\ tmpl \in Templates /\ out = ParseFormat(toks, tmpl)
        \/ /\ mode = "headers" /\ toks = <<>> /\ tmpl = NoT /\ out = DetectHeaders(toks)
        \/ /\ mode = "wide" /\ toks = <<>> /\ tmpl = NoT /\ out = DetectHeaders(toks)
Extend == /\ \/ mode = "format" /\ Len(toks) < MaxWidth /\ \E t \in Tokens : toks' = Append(toks, t) /\ out' = ParseFormat(toks', tmpl)
             \/ mode = "headers" /\ Len(toks) < MaxWidth /\ \E h \in Headers : toks' = Append(toks, h) /\ out' = DetectHeaders(toks')
             \/ mode = "wide" /\ Len(toks) < HeaderWidth /\ \E h \in PlainHeaders : toks' = Append(toks, h) /\ out' = DetectHeaders(toks')
          /\ UNCHANGED <<mode, tmpl>>
Next == Extend
Spec == Init /\ [][Next]_vars

Inv_PositionBijection == mode = "format" => PositionBijection(toks, tmpl)
Inv_RejectsMissing == mode = "format" => RejectsMissing(toks, tmpl)
Inv_RejectsDuplicate == mode = "format" => RejectsDuplicate(toks, tmpl)
Inv_RejectsUncapturedTemplateRef == mode = "format" => RejectsUncapturedTemplateRef(toks, tmpl)
Inv_SuggestRoundTrips == mode \in {"headers", "wide"} => SuggestRoundTrips(toks)
Neg_AlwaysAccepts == mode = "format" /\ Len(toks) >= 3 => ~out.err
=============================================================================
