------------------------------ MODULE Confine ------------------------------
(***************************************************************************)
(* C03: what an expression can reach.  The language is a whitelist of      *)
(* Python AST node kinds (expr_parser.ALLOWED_NODES, validate_ast) plus an *)
(* evaluator that resolves names, attributes, subscripts and calls ONLY    *)
(* through explicit tables.  This module states, for every node kind and   *)
(* for every (access shape, receiver class, attribute class), the outcome  *)
(* class the design permits:                                               *)
(*     "rej"  refused when the file is loaded (validate_ast)               *)
(*     "err"  fails as an expression error                                 *)
(*     "val"  a value - and then of a SAFE kind only                       *)
(* TLC enumerates the whole table (every state is one access pattern) and  *)
(* checks Confined; the harness concretises each state with every real     *)
(* attribute name of that class (dir() of the real Python types) and       *)
(* requires the real outcome class and the real result type to conform.    *)
(***************************************************************************)
EXTENDS Naturals, FiniteSets, TLC

\* ---- node kinds -----------------------------------------------------------
AllowedKinds ==
  {"Expression", "BoolOp", "BinOp", "UnaryOp", "Compare", "Call", "IfExp", "And", "Or", "Not", "Add", "Sub", "Mult",
   "Div", "Mod", "USub", "Eq", "NotEq", "Lt", "LtE", "Gt", "GtE", "In", "NotIn", "Constant", "Name", "Load", "Store",
   "Attribute", "ListComp", "comprehension", "GeneratorExp", "Subscript", "Index", "NamedExpr"}
OtherKinds ==
  {"Lambda", "Dict", "Set", "List", "Tuple", "DictComp", "SetComp", "JoinedStr", "FormattedValue", "Starred", "Slice",
   "Await", "Yield", "YieldFrom", "keyword", "Pow", "FloorDiv", "MatMult", "BitOr", "BitAnd", "BitXor", "LShift",
   "RShift", "Invert", "UAdd", "Is", "IsNot", "Del"}
Kinds == AllowedKinds \cup OtherKinds
Validate(kinds) == kinds \subseteq AllowedKinds

\* ---- access patterns --------------------------------------------------------
Shapes == {"attr", "method", "sub_int", "sub_str", "call", "name"}
Recv == {"txn", "field", "row", "str", "num", "bool", "date", "none", "list", "gen", "exotic_const", "unknown"}
AttrClass == {"txn_known", "field_builtin", "field_captured", "row_key", "str_method_ok", "str_method_other",
              "dunder", "other"}
\* "module_public": a public name of a Python module the interpreter has loaded (statistics.median, itertools.repeat,
\* collections.namedtuple, operator.itemgetter, math.sqrt ...) - not a name of the language
NameClass == {"primitive", "variable", "data_source", "whitelisted_fn", "python_builtin", "dunder_name", "module_public", "unknown"}
\* the two evaluators have separate name and function tables: rule expressions (TransactionEvaluator) and view filters
\* (ExpressionEvaluator); view filters have no data sources
Evaluators == {"txn", "view"}

SafeKinds == {"str", "num", "bool", "date", "none", "list_of_safe", "row", "gen_of_safe", "exotic_const"}

\* the value kind produced when the outcome is "val"
ResultKind(shape, recv, cls) ==
  CASE shape = "attr" /\ recv = "txn" /\ cls = "txn_known" -> "safe_scalar"
    [] shape = "attr" /\ recv = "field" /\ cls \in {"field_builtin", "field_captured"} -> "safe_scalar"
    [] shape = "attr" /\ recv = "row" /\ cls = "row_key" -> "safe_scalar"
    [] shape = "method" /\ recv = "str" /\ cls = "str_method_ok" -> "safe_scalar"
    [] shape = "sub_int" /\ recv \in {"list", "str", "exotic_const"} -> "safe_scalar"   \* b"x"[0] is an int
    [] shape = "sub_str" /\ recv = "row" /\ cls = "row_key" -> "safe_scalar"
    [] OTHER -> "none"

Outcome(shape, recv, cls) ==
  IF ResultKind(shape, recv, cls) # "none" THEN {"val", "err"}      \* err: index out of range, wrong arity, ...
  ELSE {"err"}

\* bare names and calls by name
NameOutcome(shape, ncls) ==
  CASE shape = "name" /\ ncls \in {"primitive", "variable", "data_source"} -> {"val"}
    [] shape = "name" -> {"err"}                                     \* functions are not first-class: abs, len, print, __import__ ...
    [] shape = "call" /\ ncls = "whitelisted_fn" -> {"val", "err"}
    [] shape = "call" -> {"err"}                                     \* eval(), open(), getattr(), type(), __import__() ...

VARIABLES shape, recv, cls, out, ev
vars == <<shape, recv, cls, out, ev>>

Init == \/ /\ shape \in {"attr", "method", "sub_int", "sub_str"} /\ recv \in Recv /\ cls \in AttrClass
           /\ out = Outcome(shape, recv, cls) /\ ev = "txn"
        \/ /\ shape \in {"name", "call"} /\ recv = "-" /\ cls \in NameClass /\ ev \in Evaluators
           /\ ~(ev = "view" /\ cls = "data_source")
           /\ out = NameOutcome(shape, cls)
        \/ /\ shape = "kind" /\ recv = "-" /\ cls \in Kinds /\ ev = "txn"
           /\ out = IF Validate({cls}) THEN {"ok"} ELSE {"rej"}
Next == UNCHANGED vars
Spec == Init /\ [][Next]_vars

\* ---- properties -------------------------------------------------------------
\* nothing outside the tables ever yields a value
Confined ==
  /\ (shape \in {"attr", "method", "sub_int", "sub_str"} /\ "val" \in out) => ResultKind(shape, recv, cls) = "safe_scalar"
  /\ (shape \in {"attr", "method"} /\ cls \in {"dunder", "other", "str_method_other"}) => out = {"err"}
  /\ (shape \in {"name", "call"} /\ cls \in {"python_builtin", "dunder_name", "module_public", "unknown"}) => out = {"err"}
  /\ (shape = "kind" /\ cls \in OtherKinds) => out = {"rej"}
\* attribute access never works on values the language computes (only on txn / field / rows)
NoAttrOnValues == (shape = "attr" /\ recv \in {"str", "num", "bool", "date", "none", "list", "gen", "exotic_const", "unknown"}) => out = {"err"}
\* methods only on strings, and only the six listed
MethodsOnlyOnStr == (shape = "method" /\ "val" \in out) => (recv = "str" /\ cls = "str_method_ok")
\* negative control (must be refuted)
Neg_NothingEverEvaluates == "val" \notin out
=============================================================================
