SPECIFICATION Spec
CONSTANTS
  Impl = "xlate"
INVARIANT Inv_RoundTrip
