------------------------ MODULE Trace_LegacyParsers ------------------------
(* Code -> spec for parse_amex / parse_boa: random statement files written  *)
(* by the harness (harness/legacy_trace.py), abstracted cell by cell by its *)
(* own reading of the date and numeral notations, read by the real code;    *)
(* LegacyParsers!Parse must give what the code returned.                    *)
EXTENDS LegacyParsers, Json, IOUtils, TLC, TLCExt

Recs == ndJsonDeserialize(IOEnv.TRACE_FILE)
VARIABLE i

RowsOf(r) == [k \in 1..Len(r.rows) |-> r.rows[k]]

Clauses(r) ==
  LET rs == RowsOf(r)
      want == Parse(rs, r.source)
      o == r.obs
      n == Len(want)
      all(P(_)) == Len(o) # n \/ \A k \in 1..n : P(k)
      pd(k) == want[k].date = o[k].date
      pm(k) == want[k].m = o[k].m
      ps(k) == want[k].desc = o[k].desc
      pl(k) == want[k].loc = o[k].loc
      pc(k) == want[k].source = o[k].source
  IN  (IF Len(o) = n THEN {} ELSE {"count"})
      \cup (IF all(pd) THEN {} ELSE {"date"})
      \cup (IF all(pm) THEN {} ELSE {"amount"})
      \cup (IF all(ps) THEN {} ELSE {"description"})
      \cup (IF all(pl) THEN {} ELSE {"location"})
      \cup (IF all(pc) THEN {} ELSE {"source"})
      \cup (IF \A k \in 1..Len(o) : o[k].m # 0 THEN {} ELSE {"INV NonZero"})
      \cup (IF OnePerGoodRowOf(rs, r.source) /\ RowLocalOf(rs, r.source) /\ FaithfulOf(rs, r.source) THEN {} ELSE {"MODEL laws"})

Init == i = 0 /\ TLCSet(1, {})
Next == /\ i < Len(Recs)
        /\ i' = i + 1
        /\ LET r == Recs[i + 1]
               bad == Clauses(r) IN
           IF bad = {} THEN TRUE ELSE TLCSet(1, TLCGet(1) \cup {<<r.id, bad>>})
TraceSpec == Init /\ [][Next]_i

Done == /\ PrintT(<<"REJECTED", TLCGet(1)>>)
        /\ PrintT(<<"CONSUMED", TLCGet("stats").diameter - 1, Len(Recs)>>)
        /\ TLCGet("stats").diameter - 1 = Len(Recs)
=============================================================================
