SPECIFICATION Spec
CONSTANTS
  Impl = "pinned"
INVARIANT Inv_EachMerchantOnce
