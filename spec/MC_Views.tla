------------------------------ MODULE MC_Views ------------------------------
(* C10 universe: views files of up to MaxViews views; a view's filter is an    *)
(* atom, a negated atom, or a conjunction / disjunction of an atom with a core *)
(* atom; global and view-local variable declarations from small sets.  Each    *)
(* state carries the membership matrix (view x merchant) the spec computes.    *)
EXTENDS Views, MC_ViewsData

CONSTANTS MaxViews, Combos

A(i) == Atoms[i]
AllIdx == 1..(NAtoms + NErr)
Filters ==
     {[src |-> <<"a", i, 0>>, f |-> A(i)] : i \in AllIdx}
  \cup {[src |-> <<"n", i, 0>>, f |-> [k |-> "not", x |-> A(i)]] : i \in AllIdx}
  \cup (IF Combos THEN
          {[src |-> <<"and", i, j>>, f |-> [k |-> "boolop", op |-> "and", vals |-> <<A(i), A(j)>>]] : i \in AllIdx, j \in CoreIdx}
     \cup {[src |-> <<"or", i, j>>, f |-> [k |-> "boolop", op |-> "or", vals |-> <<A(i), A(j)>>]] : i \in AllIdx, j \in CoreIdx}
        ELSE {})
CoreFilters == {x \in Filters : x.src[1] = "a" /\ x.src[2] \in CoreIdx}

VARIABLES gi, views, mem
vars == <<gi, views, mem>>

File == [globals |-> GlobalsSet[gi], views |-> [i \in 1..Len(views) |-> [name |-> i, filter |-> views[i].f.f, vars |-> LocalsSet[views[i].li]]]]
Period == PeriodOf(Merchants)
Membership(file) == [i \in 1..Len(file.views) |-> [j \in 1..Len(Merchants) |-> MemberOf(file, file.views[i], Merchants[j], Period)]]

Init == gi \in 1..Len(GlobalsSet) /\ views = <<>> /\ mem = <<>>
AddView == /\ Len(views) < MaxViews
           /\ \E x \in (IF views = <<>> THEN Filters ELSE CoreFilters), li \in 1..Len(LocalsSet) :
                 views' = Append(views, [f |-> x, li |-> li])
           /\ UNCHANGED gi
           /\ mem' = LET fl == [globals |-> GlobalsSet[gi],
                                views |-> [i \in 1..Len(views') |-> [name |-> i, filter |-> views'[i].f.f, vars |-> LocalsSet[views'[i].li]]]]
                     IN Membership(fl)
Next == AddView
Spec == Init /\ [][Next]_vars

\* views are independent: a view's members are those it has when it is the only view of the file
ViewsIndependent ==
  \A i \in 1..Len(views) :
     LET solo == [globals |-> GlobalsSet[gi], views |-> <<[name |-> 1, filter |-> views[i].f.f, vars |-> LocalsSet[views[i].li]]>>] IN
     Membership(solo)[1] = mem[i]
\* merchants tagged income / transfer / investment are in no view
ExcludedNowhere == \A i \in 1..Len(views) : \A j \in 1..Len(Merchants) : Excluded(Merchants[j]) => mem[i][j] = "F"
\* a filter and its negation partition the (evaluable, non-excluded) merchants
NegationPartitions ==
  \A i \in 1..Len(views) : views[i].f.src[1] = "n" =>
     LET pos == [globals |-> GlobalsSet[gi], views |-> <<[name |-> 1, filter |-> views[i].f.f.x, vars |-> LocalsSet[views[i].li]]>>] IN
     \A j \in 1..Len(Merchants) :
        (mem[i][j] = "T" => Membership(pos)[1][j] = "F") /\ (Membership(pos)[1][j] = "T" => mem[i][j] = "F")
Neg_EveryoneEverywhere == \A i \in 1..Len(views) : \A j \in 1..Len(Merchants) : mem[i][j] # "F"
=============================================================================
