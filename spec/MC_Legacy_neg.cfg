SPECIFICATION Spec
CONSTANTS
  MaxRules = 1
  CoreP = {1}
  CoreM = {1}
INVARIANT Neg_ExactEqualityIsFine
