---------------------------- MODULE MC_Specific ----------------------------
(* C09 universe: rule files in most_specific mode whose rules differ in       *)
(* priority, number of pattern conditions, number of constraint kinds and     *)
(* pattern length (one shape per adjacent inversion of the lexicographic      *)
(* order), with and without subcategory, plus tag-only rules.                 *)
EXTENDS Engine, SequencesExt

CONSTANTS MaxRules

TVs == [{"A1", "A2"} -> {"T", "F"}]
Txns == [v : TVs, dyn : {"val"}]
TxnSeq == SetToSeq(Txns)

At(a) == [k |-> "atom", a |-> a]

\* prio, npat, nkinds, long
Shapes == { <<50, 1, 0, FALSE>>, <<50, 1, 0, TRUE>>, <<50, 2, 0, FALSE>>, <<50, 1, 1, TRUE>>,
            <<50, 1, 2, FALSE>>, <<60, 1, 0, FALSE>>, <<40, 2, 2, TRUE>>, <<50, 2, 1, FALSE>>,
            \* the ends of the priority scale: 0 and negative numbers are priorities like any other (below every default)
            <<0, 2, 2, TRUE>>, <<-10, 2, 2, TRUE>> }
SpecOf(sh) == <<sh[1], sh[2], sh[3], (IF sh[4] THEN 10 ELSE 4) + 5 * (sh[2] - 1)>>
CatSubs == { <<"C1", "">>, <<"C2", "S1">>, <<"C1", "S2">> }

CatRules == { [cond |-> At(a), lets |-> <<>>, cat |-> cs[1], sub |-> cs[2], tags |-> {}, m |-> "",
               shape |-> sh, spec |-> SpecOf(sh)] : a \in {"A1", "A2"}, sh \in Shapes, cs \in CatSubs }
TagRules == { [cond |-> At("A1"), lets |-> <<>>, cat |-> "", sub |-> s, tags |-> {"ta"}, m |-> "",
               shape |-> sh, spec |-> SpecOf(sh)] : sh \in {<<60, 2, 2, TRUE>>, <<50, 1, 0, FALSE>>}, s \in {"", "S1"} }
RuleSet == CatRules \cup TagRules

VARIABLES f, res, txns
vars == <<f, res, txns>>
Results(file) == [k \in DOMAIN TxnSeq |-> Obs(file, TxnSeq[k])]

Init == /\ f = [globals |-> <<>>, rules |-> <<>>, mode |-> "most_specific"]
        /\ res = Results(f) /\ txns = TxnSeq
AddRule(r) == /\ Len(f.rules) < MaxRules
              /\ f' = [f EXCEPT !.rules = Append(@, [r EXCEPT !.tags = @] @@ [id |-> Len(f.rules) + 1])]
              /\ res' = Results(f') /\ UNCHANGED txns
Next == \E r \in RuleSet : AddRule(r)
Spec == Init /\ [][Next]_vars

ForAllT(P(_, _)) == \A k \in DOMAIN TxnSeq : P(f, TxnSeq[k])
Inv_OrderIndependent     == ForAllT(OrderIndependent)
Inv_TagsOrderIndependent == ForAllT(TagsOrderIndependent)
Inv_TagOnlyNeutral       == ForAllT(TagOnlyNeutral)
Inv_NonMatchingIrrelevant == ForAllT(NonMatchingIrrelevant)
\* the winner is maximal: no matching categorising rule ranks strictly above it, and among equals it is the earliest
WinnerIsMaximal(file, t) ==
  LET c == Classify(file, t) IN
  c.matched => \A j \in c.matching :
      IsCat(file.rules[j]) =>
         /\ ~SpecLess(file.rules[c.win].spec, file.rules[j].spec)
         /\ (file.rules[j].spec = file.rules[c.win].spec => c.win <= j)
Inv_WinnerIsMaximal == ForAllT(WinnerIsMaximal)
\* lexicographic order: priority dominates count dominates kinds dominates length
LexSanity == /\ SpecLess(<<50, 9, 9, 99>>, <<60, 0, 0, 0>>)
             /\ SpecLess(<<50, 1, 9, 99>>, <<50, 2, 0, 0>>)
             /\ SpecLess(<<50, 1, 1, 99>>, <<50, 1, 2, 0>>)
             /\ SpecLess(<<50, 1, 1, 4>>, <<50, 1, 1, 5>>)
             /\ ~SpecLess(<<50, 1, 1, 4>>, <<50, 1, 1, 4>>)
Inv_Lex == LexSanity
\* negative control: "the first matching categorising rule always wins" must be refuted in this mode
Neg_FirstWins == \A k \in DOMAIN TxnSeq :
   LET c == Classify(f, TxnSeq[k]) IN c.matched => c.win = FirstMatch(f.rules, c.matching).win
=============================================================================
