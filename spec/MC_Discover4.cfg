SPECIFICATION FairSpec
CONSTANTS
  Impl = "intended"
  MaxWords = 4
INVARIANT Closure
PROPERTY StrictlyShrinks
PROPERTY Terminates
