---------------------------- MODULE MC_RowsData ----------------------------
(* GENERATED from harness/rows_conc.py (tools/gen_mc_rows.py): the cell vocabulary of the C05 universe *)
EXTENDS Integers

DateCells == {
  [id |-> "d1", val |-> <<2025, 1, 5>>, fmts |-> {"f1"}, blank |-> FALSE],
  [id |-> "d2", val |-> <<2024, 12, 31>>, fmts |-> {"f1"}, blank |-> FALSE],
  [id |-> "d1p", val |-> <<2025, 1, 5>>, fmts |-> {"f1"}, blank |-> FALSE],
  [id |-> "i1", val |-> <<2025, 1, 5>>, fmts |-> {"f2"}, blank |-> FALSE],
  [id |-> "i2", val |-> <<2024, 2, 29>>, fmts |-> {"f2"}, blank |-> FALSE],
  [id |-> "bad30", val |-> <<>>, fmts |-> {}, blank |-> FALSE],
  [id |-> "badiso", val |-> <<>>, fmts |-> {}, blank |-> FALSE],
  [id |-> "text", val |-> <<>>, fmts |-> {}, blank |-> FALSE],
  [id |-> "empty", val |-> <<>>, fmts |-> {}, blank |-> TRUE],
  [id |-> "blank", val |-> <<>>, fmts |-> {}, blank |-> TRUE],
  [id |-> "partial", val |-> <<>>, fmts |-> {}, blank |-> FALSE] }

TextCells == {
  [id |-> "A", blank |-> FALSE],
  [id |-> "Bp", blank |-> FALSE],
  [id |-> "comma", blank |-> FALSE],
  [id |-> "quote", blank |-> FALSE],
  [id |-> "nl", blank |-> FALSE],
  [id |-> "nlend", blank |-> FALSE],
  [id |-> "uni", blank |-> FALSE],
  [id |-> "semi", blank |-> FALSE],
  [id |-> "empty", blank |-> TRUE],
  [id |-> "blank", blank |-> TRUE],
  [id |-> "loc", blank |-> FALSE],
  [id |-> "k", blank |-> FALSE],
  [id |-> "pay", blank |-> FALSE],
  [id |-> "nv1", blank |-> FALSE],
  [id |-> "nv2", blank |-> FALSE],
  [id |-> "nv3", blank |-> FALSE],
  [id |-> "nv4", blank |-> FALSE],
  [id |-> "spl", blank |-> FALSE],
  [id |-> "apA", blank |-> FALSE],
  [id |-> "apX", blank |-> FALSE],
  [id |-> "nvp", blank |-> FALSE],
  [id |-> "nvq", blank |-> FALSE] }

AmtCells == {
  [id |-> "p1250", blank |-> FALSE, dot |-> [ok |-> TRUE, cents |-> 1250], comma |-> [ok |-> TRUE, cents |-> 1250]],
  [id |-> "m3", blank |-> FALSE, dot |-> [ok |-> TRUE, cents |-> -300], comma |-> [ok |-> TRUE, cents |-> -300]],
  [id |-> "plus7", blank |-> FALSE, dot |-> [ok |-> TRUE, cents |-> 700], comma |-> [ok |-> TRUE, cents |-> 700]],
  [id |-> "paren3", blank |-> FALSE, dot |-> [ok |-> TRUE, cents |-> -300], comma |-> [ok |-> TRUE, cents |-> -300]],
  [id |-> "big", blank |-> FALSE, dot |-> [ok |-> TRUE, cents |-> -123456], comma |-> [ok |-> TRUE, cents |-> -123456]],
  [id |-> "thou", blank |-> FALSE, dot |-> [ok |-> TRUE, cents |-> 123456], comma |-> [ok |-> TRUE, cents |-> 123456]],
  [id |-> "cur5", blank |-> FALSE, dot |-> [ok |-> TRUE, cents |-> 500], comma |-> [ok |-> TRUE, cents |-> 500]],
  [id |-> "pad", blank |-> FALSE, dot |-> [ok |-> TRUE, cents |-> 825], comma |-> [ok |-> TRUE, cents |-> 825]],
  [id |-> "sp", blank |-> FALSE, dot |-> [ok |-> TRUE, cents |-> 999], comma |-> [ok |-> TRUE, cents |-> 123400]],
  [id |-> "k1", blank |-> FALSE, dot |-> [ok |-> TRUE, cents |-> 123400], comma |-> [ok |-> TRUE, cents |-> 123400]],
  [id |-> "k2m", blank |-> FALSE, dot |-> [ok |-> TRUE, cents |-> -250000], comma |-> [ok |-> TRUE, cents |-> -250000]],
  [id |-> "zero", blank |-> FALSE, dot |-> [ok |-> TRUE, cents |-> 0], comma |-> [ok |-> TRUE, cents |-> 0]],
  [id |-> "zero2", blank |-> FALSE, dot |-> [ok |-> TRUE, cents |-> 0], comma |-> [ok |-> TRUE, cents |-> 0]],
  [id |-> "pzero", blank |-> FALSE, dot |-> [ok |-> TRUE, cents |-> 0], comma |-> [ok |-> TRUE, cents |-> 0]],
  [id |-> "nzero", blank |-> FALSE, dot |-> [ok |-> TRUE, cents |-> 0], comma |-> [ok |-> TRUE, cents |-> 0]],
  [id |-> "abc", blank |-> FALSE, dot |-> [ok |-> FALSE, cents |-> 0], comma |-> [ok |-> FALSE, cents |-> 0]],
  [id |-> "empty", blank |-> TRUE, dot |-> [ok |-> FALSE, cents |-> 0], comma |-> [ok |-> FALSE, cents |-> 0]],
  [id |-> "blank", blank |-> TRUE, dot |-> [ok |-> FALSE, cents |-> 0], comma |-> [ok |-> FALSE, cents |-> 0]],
  [id |-> "nan", blank |-> FALSE, dot |-> [ok |-> FALSE, cents |-> 0], comma |-> [ok |-> FALSE, cents |-> 0]],
  [id |-> "inf", blank |-> FALSE, dot |-> [ok |-> FALSE, cents |-> 0], comma |-> [ok |-> FALSE, cents |-> 0]],
  [id |-> "ninf", blank |-> FALSE, dot |-> [ok |-> FALSE, cents |-> 0], comma |-> [ok |-> FALSE, cents |-> 0]],
  [id |-> "dots", blank |-> FALSE, dot |-> [ok |-> FALSE, cents |-> 0], comma |-> [ok |-> FALSE, cents |-> 0]],
  [id |-> "usd", blank |-> FALSE, dot |-> [ok |-> FALSE, cents |-> 0], comma |-> [ok |-> FALSE, cents |-> 0]],
  [id |-> "dd", blank |-> FALSE, dot |-> [ok |-> FALSE, cents |-> 0], comma |-> [ok |-> FALSE, cents |-> 0]] }

=============================================================================
