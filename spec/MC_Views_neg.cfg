SPECIFICATION Spec
CONSTANTS
  MaxViews = 1
  Combos = FALSE
INVARIANT Neg_EveryoneEverywhere
