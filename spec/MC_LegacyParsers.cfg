SPECIFICATION Spec
CONSTANTS
  RowSet <- MCRows
  MaxLen = 3
  Src = "AMEX"
INVARIANT OnePerGoodRow
INVARIANT RowLocal
INVARIANT Faithful
