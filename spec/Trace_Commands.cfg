SPECIFICATION TSpec
CONSTANTS
  MaxHist = 1
POSTCONDITION Done
CHECK_DEADLOCK FALSE
