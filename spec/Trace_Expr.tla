----------------------------- MODULE Trace_Expr -----------------------------
(* Code -> spec for C04 / C08 (and the trusted base of C14 / C19):            *)
(*  kind "eval"   an expression evaluated by the real TransactionEvaluator on *)
(*                a real transaction: abstracted AST, environment, observed   *)
(*                outcome.  Accepted iff Expr!Eval gives the same outcome.    *)
(*  kind "regex"  Python's re on a fragment pattern (validates Regex.tla      *)
(*                itself against the library tally delegates to)              *)
(* Register 1 collects rejected ids with the failing clause, register 2 the   *)
(* ids the specification has no opinion on (outside its universe).            *)
EXTENDS Expr, Json, IOUtils, TLCExt

Recs == ndJsonDeserialize(IOEnv.TRACE_FILE)
VARIABLE i

\* equality of two rationals without cross-multiplying (TLC integers are 32-bit: n1 * d2 overflows for long numerals)
RECURSIVE TGcd(_, _)
TGcd(a, b) == IF b = 0 THEN a ELSE TGcd(b, a % b)
SameRat(a, b) == LET ga == TGcd(IF a.n < 0 THEN -a.n ELSE a.n, a.d)
                     gb == TGcd(IF b.n < 0 THEN -b.n ELSE b.n, b.d) IN
                 a.n \div ga = b.n \div gb /\ a.d \div ga = b.d \div gb
RECURSIVE Agree(_, _)
Agree(s, o) ==
  CASE s.t = "bool" -> o.t = "bool" /\ o.v = s.v
    [] s.t = "num" -> o.t = "num" /\ SameRat(s, o) /\ s.f = o.f
    [] s.t = "str" -> o.t = "str" /\ o.v = s.v
    [] s.t = "date" -> o.t = "date" /\ o.v = s.v
    [] s.t = "none" -> o.t = "none"
    [] s.t = "list" -> o.t = "list" /\ Len(o.v) = Len(s.v) /\ \A k \in 1..Len(s.v) : Agree(s.v[k], o.v[k])
    [] s.t = "row" -> o.t = "row" /\ DOMAIN o.v = DOMAIN s.v /\ \A k \in DOMAIN s.v : Agree(s.v[k], o.v[k])
    [] s.t = "err" -> o.t = "err"
    [] s.t = "gen" -> o.t = "other"
    [] OTHER -> FALSE

EvalClauses(r) ==
  LET s == EvalTop(r.ast, r.env).v IN
  IF s.t = "oou" THEN {"SKIP"}
  ELSE IF Agree(s, r.obs) THEN {}
  ELSE {"spec " \o s.t \o " / code " \o r.obs.t}

RegexClauses(r) ==
  LET m == Search(r.pat, r.text) IN
     (IF m = r.obs.search THEN {} ELSE {"search"})
  \cup (IF Extract(r.pat, r.text) = r.obs.extract THEN {} ELSE {"extract"})
  \cup (IF r.obs.subok /\ ~AnyEmptyMatch(r.pat, r.text, 0) /\ SubAll(r.pat, r.text, 0, <<35>>) # r.obs.sub THEN {"sub"} ELSE {})

Clauses(r) == IF r.kind = "eval" THEN EvalClauses(r) ELSE RegexClauses(r)

Init == i = 0 /\ TLCSet(1, {}) /\ TLCSet(2, {})
Next == /\ i < Len(Recs)
        /\ i' = i + 1
        /\ LET r == Recs[i + 1]
               bad == Clauses(r) IN
           IF bad = {} THEN TRUE
           ELSE IF bad = {"SKIP"} THEN TLCSet(2, TLCGet(2) \cup {r.id})
           ELSE TLCSet(1, TLCGet(1) \cup {<<r.id, bad>>})
Spec == Init /\ [][Next]_i
Done == /\ PrintT(<<"REJECTED", TLCGet(1)>>)
        /\ PrintT(<<"SKIPPED", TLCGet(2)>>)
        /\ PrintT(<<"CONSUMED", TLCGet("stats").diameter - 1, Len(Recs)>>)
=============================================================================
