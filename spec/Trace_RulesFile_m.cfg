SPECIFICATION Spec
CONSTANTS
  Kind = "merchants"
POSTCONDITION Done
CHECK_DEADLOCK FALSE
