SPECIFICATION Spec
CONSTANTS
  Nums = {0, 1, 2}
INVARIANT Irreflexive
INVARIANT Asymmetric
INVARIANT Total
INVARIANT DevPrecedesRelease
INVARIANT CheckTouchesNothing
INVARIANT InstallOnlyWhenOffered
INVARIANT FailedLookupOffersNothing
INVARIANT NoDowngrade
