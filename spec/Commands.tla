------------------------------ MODULE Commands ------------------------------
(***************************************************************************)
(* What each tally command does to the user's budget directory (C20).      *)
(* The directory is a record of content classes; every command is one      *)
(* action (a completed, uninterrupted run - interruptions are BudgetFS's   *)
(* subject).  The model is deterministic per command, so a behaviour of    *)
(* this spec predicts the exact abstract tree after every command of a     *)
(* history; TLC-generated histories are replayed against the real CLI and  *)
(* the real tree is compared with the predicted one after every command.   *)
(*                                                                         *)
(*  settings : [base, app]   (base "absent" = no settings.yaml)                                      *)
(*      base "user"    the user's settings: data source, no rule/view keys *)
(*           "userref" the same plus merchants_file: config/merchants.rules*)
(*           "starter" what tally init writes (has merchants_file, no data *)
(*                     sources, mentions views_file in a comment)          *)
(*      app  sequence of chunks appended by tally: "mf" (merchants_file)   *)
(*           and "vf" (views_file)                                         *)
(*  csv      : "absent" | "R"      legacy merchant_categories.csv          *)
(*  csvbak   : "absent" | "B" | "R"   ...csv.bak                           *)
(*  csvbak1  : "absent" | "R"         ...csv.bak1                          *)
(*  rules    : "absent" | "U" | "E" | "M" | "starter"   merchants.rules    *)
(*             ("E": the user's file with notes, a variable and a field     *)
(*              transform but no [rule] section - it is still their file)   *)
(*  rulesbak : "absent" | "U" | "E" | "starter"     merchants.rules.bak    *)
(*  views    : "absent" | "V" | "X" | "starter"     views.rules            *)
(*             ("X": the user's views file in the middle of being written:  *)
(*              a section without its filter - tally cannot load it)        *)
(*  data     : "absent" | "D"                       data/card.csv          *)
(*  gitignore: "absent" | "G" | "starter"                                  *)
(*  report   : "absent" | "old" | "new"   output/spending_summary.html     *)
(* The budget may sit in either folder layout (./config, or ./tally/config *)
(* with the commands run from the project folder): nothing below depends   *)
(* on it, and the replay materialises both.                                *)
(***************************************************************************)
EXTENDS Naturals, Sequences, FiniteSets, TLC

CONSTANTS MaxHist

VARIABLES fs, fs0, hist
vars == <<fs, fs0, hist>>

ReadOnlyCmds == {"explain", "discover", "diag", "inspect", "workflow", "reference", "up_json", "up_summary"}
Cmds == ReadOnlyCmds \cup {"up_html", "up_migrate", "init"}

\* ------------------------------------------------------------- helpers ----
HasMfKey(s) == s.base # "absent" /\ (s.base \in {"userref", "starter"} \/ \E k \in 1..Len(s.app) : s.app[k] = "mf")
MentionsVf(s) == s.base # "absent" /\ (s.base = "starter" \/ \E k \in 1..Len(s.app) : s.app[k] = "vf")
HasSources(s) == s.base \in {"user", "userref"}

\* load_config: which rule file a run uses
RuleFormat(f) ==
  IF f.settings.base = "absent" THEN "error"
  ELSE IF HasMfKey(f.settings) THEN (IF f.rules # "absent" THEN "new" ELSE "none")
  ELSE IF f.csv = "R" THEN "csv" ELSE "none"

\* cli._migrate_csv_to_rules as repaired (complete run)
Migrate(f) ==
  LET f1 == IF f.rules # "absent" THEN [f EXCEPT !.rulesbak = f.rules] ELSE f
      f2 == [f1 EXCEPT !.rules = "M"]
      f3 == IF f2.settings.base # "absent" /\ ~HasMfKey(f2.settings)
            THEN [f2 EXCEPT !.settings = [base |-> @.base, app |-> Append(@.app, "mf")]] ELSE f2
      f4 == IF f3.csvbak = "absent" THEN [f3 EXCEPT !.csvbak = "R", !.csv = "absent"]
                                     ELSE [f3 EXCEPT !.csvbak1 = "R", !.csv = "absent"]
  IN f4

\* tally up: report written only for html output of a run that finds transactions
UpWrites(f) == HasSources(f.settings) /\ f.data = "D"
Up(f, migrate, html) ==
  LET g == IF migrate /\ RuleFormat(f) = "csv" /\ HasSources(f.settings) THEN Migrate(f) ELSE f
  IN IF html /\ UpWrites(g) THEN [g EXCEPT !.report = "new"] ELSE g

\* tally init (in a directory that already has config/)
Init_(f) ==
  LET g == IF f.csv = "R" /\ f.rules = "absent" THEN Migrate(f) ELSE f
      g1 == IF g.settings.base = "absent" THEN [g EXCEPT !.settings = [base |-> "starter", app |-> <<>>]] ELSE g
      g2 == IF g1.rules = "absent" THEN [g1 EXCEPT !.rules = "starter"] ELSE g1
      g3 == IF g2.views = "absent" THEN [g2 EXCEPT !.views = "starter"] ELSE g2
      g4 == IF g3.gitignore = "absent" THEN [g3 EXCEPT !.gitignore = "starter"] ELSE g3
      g5 == IF ~MentionsVf(g4.settings)
            THEN [g4 EXCEPT !.settings = [base |-> @.base, app |-> Append(@.app, "vf")]] ELSE g4
  IN g5

Apply(c, f) ==
  CASE c \in ReadOnlyCmds -> f
    [] c = "up_html" -> Up(f, FALSE, TRUE)
    [] c = "up_migrate" -> Up(f, TRUE, FALSE)
    [] c = "init" -> Init_(f)

\* --------------------------------------------------------------- behaviour --
FS0s == [settings : {[base |-> "absent", app |-> <<>>], [base |-> "user", app |-> <<>>], [base |-> "userref", app |-> <<>>]},
         csv : {"absent", "R"}, csvbak : {"absent", "B"}, csvbak1 : {"absent"},
         rules : {"absent", "U", "E"}, rulesbak : {"absent"}, views : {"absent", "V", "X"},
         data : {"absent", "D"}, gitignore : {"absent", "G"}, report : {"absent", "old"}]

Init == fs \in FS0s /\ fs0 = fs /\ hist = <<>>
Run(c) == /\ Len(hist) < MaxHist
          /\ fs' = Apply(c, fs)
          /\ hist' = Append(hist, c)
          /\ UNCHANGED fs0
Next == \E c \in Cmds : Run(c)
Spec == Init /\ [][Next]_vars

\* --------------------------------------------------------------- properties --
UserFields == {"settings", "csv", "csvbak", "csvbak1", "rules", "rulesbak", "views", "data", "gitignore"}
LastCmd == hist[Len(hist)]

\* up / explain / discover / diag / inspect (and the other read-only commands) change nothing but the report
FrameReadOnly ==
  [][\A c \in ReadOnlyCmds \cup {"up_html"} :
        (hist' = Append(hist, c)) => \A x \in UserFields : fs'[x] = fs[x]]_vars
\* init keeps every existing file (settings may only gain appended chunks; the legacy CSV may only move to a backup)
IsExtension(a, b) == /\ a.base = b.base
                     /\ Len(a.app) <= Len(b.app) /\ \A k \in 1..Len(a.app) : a.app[k] = b.app[k]
InitKeeps ==
  [][(hist' = Append(hist, "init")) =>
       /\ \A x \in {"views", "data", "gitignore", "csvbak"} : fs[x] # "absent" => fs'[x] = fs[x]
       /\ (fs.rules # "absent" => fs'.rules = fs.rules)
       /\ (fs.settings.base # "absent" => IsExtension(fs.settings, fs'.settings))
       /\ (fs.csv = "R" => fs'.csv = "R" \/ fs'.csvbak = "R" \/ fs'.csvbak1 = "R")
       /\ fs'.report = fs.report]_vars
\* rules are migrated only by up --migrate and by init
MigrationOnlyOnRequest ==
  [][(fs'.rules = "M" /\ fs.rules # "M") => (hist' = Append(hist, "up_migrate") \/ hist' = Append(hist, "init"))]_vars
\* the original rules are kept as a backup, and nothing the user had is ever lost (over whole histories)
OnDisk(f, x) ==
  CASE x = "R" -> f.csv = "R" \/ f.csvbak = "R" \/ f.csvbak1 = "R"
    [] x = "U" -> f.rules = "U" \/ f.rulesbak = "U"
    [] x = "E" -> f.rules = "E" \/ f.rulesbak = "E"
    [] x = "B" -> f.csvbak = "B"
    [] x = "V" -> f.views = "V"
    [] x = "X" -> f.views = "X"
    [] x = "D" -> f.data = "D"
    [] x = "G" -> f.gitignore = "G"
BackupKeptAndNothingLost == \A x \in {"R", "U", "E", "B", "V", "X", "D", "G"} : OnDisk(fs0, x) => OnDisk(fs, x)
SettingsOnlyGrow == fs0.settings.base # "absent" => IsExtension(fs0.settings, fs.settings)
\* negative control: must be refuted
Neg_NeverMigrates == fs.rules # "M"
=============================================================================
