SPECIFICATION FairSpec
CONSTANTS
  Impl = "pinned"
  MaxWords = 3
INVARIANT Closure
PROPERTY StrictlyShrinks
PROPERTY Terminates
