SPECIFICATION Spec
CONSTANTS
  MaxRows = 3
  RowSet = "small"
INVARIANT Inv_OnePerGoodRow
INVARIANT Inv_RowLocal
INVARIANT Inv_BadRowsIrrelevant
INVARIANT Inv_SignLaw
INVARIANT Inv_NegateIsMirror
INVARIANT Inv_HeaderSkipsExactlyOne
