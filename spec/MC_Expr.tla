------------------------------ MODULE MC_Expr ------------------------------
(***************************************************************************)
(* Bounded universe of rule expressions for C04 (and C08).                 *)
(* A state is (expression, its static type, environment index, the value   *)
(* the specification computes).  Expressions are built through Next steps  *)
(* (so that all TLC workers share the enumeration): Init picks a typed     *)
(* atom, Wrap applies one language construct to the current expression     *)
(* and, where binary, a typed atom on either side.                         *)
(* In every state TLC checks the rewriting laws of C04; every state is     *)
(* exported and the expression is printed to source text and evaluated by  *)
(* the real TransactionEvaluator.                                          *)
(***************************************************************************)
EXTENDS Expr, MC_ExprData

CONSTANTS MaxDepth, EnvIdx, WithErr, IllTyped

VARIABLES e, ty, depth, ei, val
vars == <<e, ty, depth, ei, val>>

V(ast, k) == EvalTop(ast, Envs[k]).v

AtomsOf(t) == CASE t = "n" -> NumAtoms [] t = "s" -> StrAtoms [] t = "b" -> BoolAtoms [] t = "d" -> DateAtoms
                [] t = "l" -> ListAtoms [] t = "x" -> ErrAtoms

Not(x) == [k |-> "not", x |-> x]
Neg(x) == [k |-> "neg", x |-> x]
Bin(op, l, r) == [k |-> "bin", op |-> op, l |-> l, r |-> r]
Cmp1(op, l, r) == [k |-> "cmp", left |-> l, ops |-> <<op>>, rights |-> <<r>>]
Cmp2(o1, o2, a, b, c) == [k |-> "cmp", left |-> a, ops |-> <<o1, o2>>, rights |-> <<b, c>>]
And2(a, b) == [k |-> "boolop", op |-> "and", vals |-> <<a, b>>]
Or2(a, b) == [k |-> "boolop", op |-> "or", vals |-> <<a, b>>]
IfE(c, a, b) == [k |-> "ifexp", test |-> c, body |-> a, orelse |-> b]
Call(fn, args) == [k |-> "call", fn |-> fn, args |-> args]

Init == /\ \E t \in (IF WithErr THEN {"n", "s", "b", "d", "l", "x"} ELSE {"n", "s", "b", "d", "l"}) :
             /\ ty = t /\ e \in AtomsOf(t)
        /\ depth = 0 /\ ei \in EnvIdx /\ val = V(e, ei)

Set(ne, nt) == /\ depth < MaxDepth /\ e' = ne /\ ty' = nt /\ depth' = depth + 1
               /\ UNCHANGED ei /\ val' = V(ne, ei)

NumOps == {"add", "sub", "mult", "div", "mod"}
OrdOps == {"lt", "le", "gt", "ge", "eq", "ne"}

Wrap ==
  \/ ty = "b" /\ Set(Not(e), "b")
  \/ ty = "n" /\ Set(Neg(e), "n")
  \/ ty = "n" /\ \E op \in NumOps, a \in NumAtoms : Set(Bin(op, e, a), "n") \/ Set(Bin(op, a, e), "n")
  \/ ty = "n" /\ \E op \in OrdOps, a \in NumAtoms : Set(Cmp1(op, e, a), "b") \/ Set(Cmp1(op, a, e), "b")
  \/ ty = "n" /\ \E o1 \in {"lt", "le"}, o2 \in {"lt", "le", "gt"}, a \in {NumAtoms_Small[1]}, c \in NumAtoms :
                    Set(Cmp2(o1, o2, a, e, c), "b")
  \/ ty = "s" /\ \E op \in {"eq", "ne", "in", "notin"}, a \in StrAtoms : Set(Cmp1(op, e, a), "b") \/ Set(Cmp1(op, a, e), "b")
  \/ ty = "s" /\ \E fn \in {"contains", "startswith", "normalized"}, a \in StrAtoms :
                    Set(Call(fn, <<e, a>>), "b") \/ Set(Call(fn, <<a, e>>), "b")
  \/ ty = "s" /\ \E fn \in {"uppercase", "lowercase", "trim"} : Set(Call(fn, <<e>>), "s")
  \/ ty = "s" /\ \E a \in StrAtoms : Set(Bin("add", e, a), "s")
  \/ ty = "s" /\ Set(Call("len", <<e>>), "n")
  \/ ty = "s" /\ Set(Call("exists", <<e>>), "b")
  \/ ty = "d" /\ \E op \in OrdOps, a \in IsoAtoms : Set(Cmp1(op, e, a), "b") \/ Set(Cmp1(op, a, e), "b")
  \/ ty = "b" /\ \E a \in BoolAtoms : Set(And2(e, a), "b") \/ Set(And2(a, e), "b") \/ Set(Or2(e, a), "b") \/ Set(Or2(a, e), "b")
  \/ ty = "b" /\ WithErr /\ \E a \in ErrAtoms : Set(And2(e, a), "b") \/ Set(And2(a, e), "b") \/ Set(Or2(e, a), "b") \/ Set(Or2(a, e), "b")
  \/ ty = "b" /\ \E a \in StrAtoms, b \in {StrAtoms_Small[1], StrAtoms_Small[2]} : Set(IfE(e, a, b), "s")
  \/ ty = "l" /\ \E fn \in {"len", "sum", "any", "all", "min", "max"} : Set(Call(fn, <<e>>), "n")
  \/ ty = "l" /\ \E a \in {NumAtoms_Small[1], NumAtoms_Small[2]} : Set([k |-> "sub", obj |-> e, idx |-> a], "n")
  \/ ty = "l" /\ \E a \in NumAtoms \cup StrAtoms : Set(Cmp1("in", a, e), "b")
  \/ ty = "x" /\ \E a \in BoolAtoms : Set(And2(a, e), "b") \/ Set(Or2(a, e), "b") \/ Set(Call("exists", <<e>>), "b")

\* ill-typed / partial constructions (C08): syntactically valid, accepted by the loader, not evaluable
Ill ==
  /\ IllTyped
  /\ \/ ty = "n" /\ \E op \in OrdOps \cup {"in"}, a \in StrAtoms : Set(Cmp1(op, e, a), "b") \/ Set(Cmp1(op, a, e), "b")
     \/ ty = "n" /\ \E fn \in {"contains", "startswith", "regex", "extract", "normalized", "len", "sum", "any", "next", "trim", "uppercase"} :
                       Set(Call(fn, <<e>>), "b")
     \/ ty = "n" /\ \E a \in {NumAtoms_Small[1]} : Set([k |-> "sub", obj |-> e, idx |-> a], "n")
     \/ ty = "n" /\ \E a \in StrAtoms : Set(Bin("add", e, a), "n") \/ Set(Bin("div", a, e), "n") \/ Set(Bin("mod", e, a), "n")
     \/ ty = "s" /\ Set(Neg(e), "n")
     \/ ty = "s" /\ \E fn \in {"abs", "sum", "max", "next", "round"} : Set(Call(fn, <<e>>), "n")
     \/ ty = "s" /\ \E a \in {NumAtoms_Small[2]} : Set(Call("split", <<e, a>>), "s") \/ Set(Call("substring", <<e, e>>), "s")
     \/ ty = "l" /\ Set(Call("next", <<e>>), "n")
     \/ ty = "l" /\ Set([k |-> "sub", obj |-> e, idx |-> NumAtoms_Small[3]], "n")
     \/ ty = "l" /\ \E a \in NumAtoms : Set(Bin("add", e, a), "n") \/ Set(Cmp1("lt", e, a), "b")
     \/ ty = "l" /\ \E fn \in {"contains", "abs", "uppercase"} : Set(Call(fn, <<e>>), "b")
     \/ ty = "d" /\ \E a \in NumAtoms : Set(Bin("sub", e, a), "n") \/ Set(Cmp1("lt", e, a), "b")
     \/ ty = "d" /\ \E a \in StrAtoms : Set(Cmp1("ge", e, a), "b")
     \/ ty = "b" /\ \E fn \in {"contains", "len", "next"} : Set(Call(fn, <<e>>), "b")
     \/ ty = "x" /\ \E a \in NumAtoms : Set(Bin("add", e, a), "n") \/ Set(Cmp1("lt", a, e), "b") \/ Set(Not(e), "b")
     \/ ty = "x" /\ \E fn \in {"contains", "len", "sum", "trim"} : Set(Call(fn, <<e>>), "b")
     \* a comprehension / bare generator over something that is not iterable; a bare generator is the WHOLE expression, so
     \* its failure surfaces only when the caller materialises it (EvalTop)
     \/ ty \in {"n", "b", "d", "x"} /\ \E kk \in {"genexp", "listcomp"} :
           Set([k |-> kk, elt |-> [k |-> "name", n |-> "q"], gens |-> <<[var |-> "q", iter |-> e, ifs |-> <<>>]>>], "l")
     \/ ty = "l" /\ \E kk \in {"genexp", "listcomp"} :
           Set([k |-> kk, elt |-> [k |-> "attr", obj |-> [k |-> "name", n |-> "q"], a |-> "nope"], gens |-> <<[var |-> "q", iter |-> e, ifs |-> <<>>]>>], "l")
     \/ ty = "l" /\ \E kk \in {"genexp", "listcomp"}, a \in {StrAtoms_Small[1]} :
           Set([k |-> kk, elt |-> Bin("add", [k |-> "name", n |-> "q"], a), gens |-> <<[var |-> "q", iter |-> e, ifs |-> <<>>]>>], "l")

Next == Wrap \/ Ill
Spec == Init /\ [][Next]_vars

\* ------------------------------------------------------------------- laws --
Good(x) == ~IsBad(x)
TruthOf(x) == IF IsBad(x) THEN x ELSE B(Truthy(x))
\* double negation: not not e has the truth value of e (and fails iff e fails)
\* (a bare generator is materialised only when it is the whole expression, so the law is not stated for it)
DoubleNeg == e.k # "genexp" => V(Not(Not(e)), ei) = TruthOf(val)
\* De Morgan on the top-level connective
DeMorgan ==
  (e.k = "boolop" /\ Len(e.vals) = 2) =>
     LET a == e.vals[1]
         b == e.vals[2]
         dual == IF e.op = "and" THEN Or2(Not(a), Not(b)) ELSE And2(Not(a), Not(b)) IN
     V(Not(e), ei) = V(dual, ei)
\* and / or commute when neither operand fails
Commute ==
  (e.k = "boolop" /\ Len(e.vals) = 2 /\ Good(V(e.vals[1], ei)) /\ Good(V(e.vals[2], ei))) =>
     V([e EXCEPT !.vals = <<e.vals[2], e.vals[1]>>], ei) = val
\* short circuit: a false left operand of `and` / a true left operand of `or` decides, whatever the right one is
ShortCircuit ==
  (e.k = "boolop" /\ Len(e.vals) = 2 /\ Good(V(e.vals[1], ei))) =>
     /\ (e.op = "and" /\ ~Truthy(V(e.vals[1], ei)) => val = B(FALSE))
     /\ (e.op = "or" /\ Truthy(V(e.vals[1], ei)) => val = B(TRUE))
\* a < b < c  is  a < b and b < c
ChainIsConjunction ==
  (e.k = "cmp" /\ Len(e.ops) = 2) =>
     LET conj == And2(Cmp1(e.ops[1], e.left, e.rights[1]), Cmp1(e.ops[2], e.rights[1], e.rights[2])) IN
     V(conj, ei) = val
\* x == y  is  not (x != y);  for numbers it is also  x <= y and x >= y  (no tolerance anywhere, or the same everywhere)
EqNeComplement ==
  (e.k = "cmp" /\ Len(e.ops) = 1 /\ e.ops[1] = "eq") =>
     /\ V(Not(Cmp1("ne", e.left, e.rights[1])), ei) = val
     /\ (IsNumLike(V(e.left, ei)) /\ IsNumLike(V(e.rights[1], ei))) =>
           V(And2(Cmp1("le", e.left, e.rights[1]), Cmp1("ge", e.left, e.rights[1])), ei) = val
\* division / modulo by zero is 0
DivModZero ==
  (e.k = "bin" /\ e.op \in {"div", "mod"} /\ Good(V(e.l, ei)) /\ IsNumLike(V(e.l, ei)) /\ V(e.r, ei) = Int_(0)) => val = Int_(0)
\* letter case of ASCII text literals, function names and variable names is irrelevant to tests and matches
RECURSIVE SwapCase(_)
SwapSeq(s) == [j \in 1..Len(s) |-> SwapCase(s[j])]
SwapText(s) == [j \in 1..Len(s) |-> IF s[j] \in 65..90 THEN s[j] + 32 ELSE IF s[j] \in 97..122 THEN s[j] - 32 ELSE s[j]]
SwapCase(x) ==
  CASE x.k = "const" -> IF x.v.t = "str" /\ "re" \notin DOMAIN x.v THEN [x EXCEPT !.v = [t |-> "str", v |-> SwapText(x.v.v)]] ELSE x
    [] x.k = "not" -> Not(SwapCase(x.x))
    [] x.k = "boolop" -> [x EXCEPT !.vals = SwapSeq(x.vals)]
    [] x.k = "cmp" -> [x EXCEPT !.left = SwapCase(x.left), !.rights = SwapSeq(x.rights)]
    [] x.k = "call" -> IF x.fn \in {"contains", "startswith", "normalized", "anyof"} THEN [x EXCEPT !.args = SwapSeq(x.args)] ELSE x
    [] OTHER -> x
IsTest(x) == x.k \in {"not", "boolop"} \/ (x.k = "cmp" /\ \A j \in 1..Len(x.ops) : x.ops[j] \in {"eq", "ne", "in", "notin"})
                \/ (x.k = "call" /\ x.fn \in {"contains", "startswith", "normalized", "anyof"})
\* only for tests whose operands are not themselves case-transforming (`x in [list]` is exact by design)
CaseInsensitive ==
  (IsTest(e) /\ ty = "b" /\ (e.k = "cmp" => \A j \in 1..Len(e.rights) : e.rights[j].k # "name" \/ TRUE)) =>
     (V(SwapCase(e), ei) = val \/ (e.k = "cmp" /\ \E j \in 1..Len(e.rights) : V(e.rights[j], ei).t = "list"))
\* evaluation is a function: same expression, same environment, same value (no hidden state in the spec)
Deterministic == V(e, ei) = val
=============================================================================
