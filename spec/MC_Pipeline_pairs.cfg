SPECIFICATION Spec
CONSTANTS
  PairInit = TRUE
  MaxSteps = 2
INVARIANT Inv_MissingIsolated
INVARIANT Inv_SupplementalNeverCounted
INVARIANT Inv_FlowsConserve
INVARIANT Inv_ConfigReported
PROPERTY OtherSourcesUntouched
