SPECIFICATION Spec
INVARIANT Inv_NothingIgnoredSilently
INVARIANT Inv_NoSpuriousWarnings
INVARIANT Inv_KeyWins
INVARIANT Inv_Independent
INVARIANT Inv_DiagAgrees
INVARIANT Inv_UnusedRulesPointedOut
