-------------------------------- MODULE Text --------------------------------
(***************************************************************************)
(* Text as sequences of character codes (Unicode code points; only ASCII   *)
(* letters have case here - text with other cased letters is outside the   *)
(* abstraction and is skipped by the recorders).  Dates as <<y, m, d>>.    *)
(***************************************************************************)
EXTENDS Integers, Sequences, FiniteSets, TLC

Upper(c) == IF c \in 97..122 THEN c - 32 ELSE c
Lower(c) == IF c \in 65..90 THEN c + 32 ELSE c
UpperT(s) == [i \in 1..Len(s) |-> Upper(s[i])]
LowerT(s) == [i \in 1..Len(s) |-> Lower(s[i])]

IsSpace(c) == c \in {32, 9, 10, 13, 11, 12}
IsDigit(c) == c \in 48..57
IsWord(c) == c \in 48..57 \/ c \in 65..90 \/ c \in 97..122 \/ c = 95

Slice(s, a, b) == \* Python s[a:b] for 0 <= a, b (0-based, end exclusive), clamped
  LET lo == IF a < 0 THEN 0 ELSE IF a > Len(s) THEN Len(s) ELSE a
      hi == IF b < 0 THEN 0 ELSE IF b > Len(s) THEN Len(s) ELSE b IN
  IF hi <= lo THEN <<>> ELSE [i \in 1..(hi - lo) |-> s[lo + i]]
\* Python slice indices may be negative (counted from the end)
PyIdx(s, k) == IF k < 0 THEN (IF Len(s) + k < 0 THEN 0 ELSE Len(s) + k) ELSE k
PySlice(s, a, b) == Slice(s, PyIdx(s, a), PyIdx(s, b))

IsPrefixAt(p, s, i) == \* p occurs in s starting at 1-based position i
  /\ i + Len(p) - 1 <= Len(s)
  /\ \A k \in 1..Len(p) : s[i + k - 1] = p[k]
StartsWith(s, p) == IsPrefixAt(p, s, 1)
EndsWith(s, p) == Len(p) <= Len(s) /\ IsPrefixAt(p, s, Len(s) - Len(p) + 1)
Contains(s, p) == \E i \in 1..(Len(s) + 1) : IsPrefixAt(p, s, i)
\* first occurrence (1-based) or 0
Find(s, p) == IF Contains(s, p) THEN CHOOSE i \in 1..(Len(s) + 1) : IsPrefixAt(p, s, i) /\ \A j \in 1..(i - 1) : ~IsPrefixAt(p, s, j)
              ELSE 0

\* str.strip(): remove leading / trailing whitespace
RECURSIVE LStrip(_)
LStrip(s) == IF s # <<>> /\ IsSpace(s[1]) THEN LStrip(Tail(s)) ELSE s
RECURSIVE RStrip(_)
RStrip(s) == IF s # <<>> /\ IsSpace(s[Len(s)]) THEN RStrip(SubSeq(s, 1, Len(s) - 1)) ELSE s
Strip(s) == RStrip(LStrip(s))

\* remove every character satisfying a class given as a set of codes
RECURSIVE RemoveChars(_, _)
RemoveChars(s, bad) == IF s = <<>> THEN <<>>
                       ELSE IF s[1] \in bad THEN RemoveChars(Tail(s), bad)
                       ELSE <<s[1]>> \o RemoveChars(Tail(s), bad)
\* normalized(): upper-case, then drop whitespace, hyphen, apostrophe, period, asterisk
NormChars == {32, 9, 10, 13, 11, 12, 45, 39, 46, 42}
Normalize(s) == RemoveChars(UpperT(s), NormChars)

\* str.replace(old, new) (all non-overlapping occurrences, left to right); old = "" is kept out of the universe
RECURSIVE Replace(_, _, _)
Replace(s, old, new) ==
  IF old = <<>> \/ s = <<>> THEN s
  ELSE IF IsPrefixAt(old, s, 1) THEN new \o Replace(Slice(s, Len(old), Len(s)), old, new)
  ELSE <<s[1]>> \o Replace(Tail(s), old, new)

\* str.split(delim): list of parts (delim non-empty)
RECURSIVE SplitOn(_, _, _)
SplitOn(s, d, cur) ==
  IF s = <<>> THEN <<cur>>
  ELSE IF IsPrefixAt(d, s, 1) THEN <<cur>> \o SplitOn(Slice(s, Len(d), Len(s)), d, <<>>)
  ELSE SplitOn(Tail(s), d, Append(cur, s[1]))
Split(s, d) == SplitOn(s, d, <<>>)

\* ------------------------------------------------------------------ dates --
IsLeap(y) == (y % 4 = 0 /\ y % 100 # 0) \/ y % 400 = 0
DaysIn(y, m) == IF m = 2 THEN (IF IsLeap(y) THEN 29 ELSE 28) ELSE IF m \in {4, 6, 9, 11} THEN 30 ELSE 31
ValidDate(d) == Len(d) = 3 /\ d[1] \in 1..9999 /\ d[2] \in 1..12 /\ d[3] \in 1..DaysIn(d[1], d[2])
DateLess(a, b) == \/ a[1] < b[1] \/ (a[1] = b[1] /\ a[2] < b[2]) \/ (a[1] = b[1] /\ a[2] = b[2] /\ a[3] < b[3])
\* Zeller-style day of week, 0 = Monday ... 6 = Sunday (Python date.weekday())
Weekday(d) ==
  LET y0 == IF d[2] < 3 THEN d[1] - 1 ELSE d[1]
      m0 == IF d[2] < 3 THEN d[2] + 12 ELSE d[2]
      k == y0 % 100
      j == y0 \div 100
      h == (d[3] + (13 * (m0 + 1)) \div 5 + k + k \div 4 + j \div 4 + 5 * j) % 7   \* 0 = Saturday
  IN (h + 5) % 7
\* "YYYY-MM-DD" (exactly this shape) -> date, or <<>> when it is not an ISO date
DigitVal(c) == c - 48
ParseISO(s) ==
  IF Len(s) = 10 /\ s[5] = 45 /\ s[8] = 45 /\ \A i \in {1, 2, 3, 4, 6, 7, 9, 10} : IsDigit(s[i])
  THEN LET d == << DigitVal(s[1]) * 1000 + DigitVal(s[2]) * 100 + DigitVal(s[3]) * 10 + DigitVal(s[4]),
                   DigitVal(s[6]) * 10 + DigitVal(s[7]), DigitVal(s[9]) * 10 + DigitVal(s[10]) >>
       IN IF ValidDate(d) THEN d ELSE <<>>
  ELSE <<>>
=============================================================================
