----------------------------- MODULE RulesFile -----------------------------
(***************************************************************************)
(* The two line-oriented readers of tally as state machines over line      *)
(* TOKENS (C17):                                                           *)
(*   merchant_engine.MerchantEngine.parse   (merchants .rules files)       *)
(*   section_engine.parse_sections          (views .rules files)           *)
(* A file is a sequence of tokens [t, ...]:                                *)
(*   "header" (n = name)   "headerjunk" ([A] followed by text)             *)
(*   "prop"  (key, v)  v \in {"good", "badexpr", "malformed"}              *)
(*   "assign" (var, v) v \in {"good", "badexpr"}    name = expression      *)
(*   "transform" (v)   field.description = expression   (merchants only)   *)
(*   "comment" "blank" "garbage"                                           *)
(* Layout (indentation of property lines, trailing blanks, line endings,   *)
(* key letter case) is NOT part of a token: that is C17's first claim.     *)
(* The reader specified here is the INTENDED one: whatever is not a        *)
(* comment, blank, header, assignment or known property in its place is an *)
(* error naming the line; nothing is silently dropped.                     *)
(***************************************************************************)
EXTENDS Naturals, Sequences, FiniteSets, TLC

CONSTANT Kind        \* "merchants" | "views"

MerchantKeys == {"match", "category", "subcategory", "merchant", "tags", "priority", "let", "field"}
ViewKeys == {"filter", "description"}
Keys == IF Kind = "merchants" THEN MerchantKeys ELSE ViewKeys
ExprKeys == {"match", "let", "field", "filter", "tags"}          \* values that contain an expression
MalformableKeys == {"let", "field", "priority"}

NoRule == [open |-> FALSE, name |-> "", line |-> 0, props |-> <<>>, vars |-> <<>>]
OK0 == [err |-> FALSE, errlines |-> {}, rules |-> <<>>, globals |-> <<>>, transforms |-> 0, cur |-> NoRule]
Fail(st, lines) == [st EXCEPT !.err = TRUE, !.errlines = lines]

HasKey(r, k) == \E i \in 1..Len(r.props) : r.props[i][1] = k
\* a finished section must have what makes it a rule / view
Complete(r) == IF Kind = "merchants" THEN HasKey(r, "match") /\ (HasKey(r, "category") \/ HasKey(r, "tags"))
                                      ELSE HasKey(r, "filter")
Flush(st) ==
  IF ~st.cur.open THEN st
  ELSE IF ~Complete(st.cur) THEN Fail(st, {st.cur.line})
  ELSE [st EXCEPT !.rules = Append(@, [name |-> st.cur.name, props |-> st.cur.props, vars |-> st.cur.vars]), !.cur = NoRule]

\* one line; n = its 1-based line number
Step(st, tok, n) ==
  IF st.err THEN st
  ELSE CASE tok.t \in {"comment", "blank"} -> st
    [] tok.t = "header" ->
         LET f == Flush(st) IN
         IF f.err THEN f ELSE [f EXCEPT !.cur = [open |-> TRUE, name |-> tok.n, line |-> n, props |-> <<>>, vars |-> <<>>]]
    [] tok.t \in {"headerjunk", "garbage"} -> Fail(st, {n})
    [] tok.t = "assign" ->
         IF tok.v = "badexpr" THEN Fail(st, {n})
         ELSE IF ~st.cur.open THEN [st EXCEPT !.globals = Append(@, tok.var)]
         ELSE IF Kind = "views" THEN [st EXCEPT !.cur.vars = Append(@, tok.var)]
         ELSE Fail(st, {n})                                    \* merchants: no bare assignments inside a rule
    [] tok.t = "transform" ->
         IF Kind = "views" \/ st.cur.open THEN Fail(st, {n})
         ELSE IF tok.v = "badexpr" THEN Fail(st, {n})
         ELSE [st EXCEPT !.transforms = @ + 1]
    [] tok.t = "prop" ->
         IF ~st.cur.open THEN Fail(st, {n})                    \* a property outside any section
         ELSE IF tok.key \notin Keys THEN Fail(st, {n})        \* unknown property
         ELSE IF tok.v = "malformed" THEN Fail(st, {n})
         ELSE IF tok.v = "badexpr" THEN Fail(st, {n, st.cur.line})   \* reported at the line or at its section header
         ELSE [st EXCEPT !.cur.props = Append(@, <<tok.key, tok.id>>)]

RECURSIVE Run(_, _, _)
Run(file, i, st) == IF i > Len(file) THEN Flush(st) ELSE Run(file, i + 1, Step(st, file[i], i))
Parse(file) == Run(file, 1, OK0)

\* every line an error message may legitimately name (readers differ in which corruption they meet first)
SectionOf(file, k) == IF \E h \in 1..k : file[h].t = "header" THEN CHOOSE h \in 1..k : file[h].t = "header" /\ \A j \in (h + 1)..k : file[j].t # "header" ELSE 0
SectionEnd(file, h) == IF \E j \in (h + 1)..Len(file) : file[j].t = "header"
                       THEN (CHOOSE j \in (h + 1)..Len(file) : file[j].t = "header" /\ \A i \in (h + 1)..(j - 1) : file[i].t # "header") - 1
                       ELSE Len(file)
Incomplete(file, h) ==
  LET ks == {file[j].key : j \in {i \in (h + 1)..SectionEnd(file, h) : file[i].t = "prop" /\ file[i].v = "good"}} IN
  IF Kind = "merchants" THEN ~("match" \in ks /\ ("category" \in ks \/ "tags" \in ks)) ELSE "filter" \notin ks
AllErrLines(file) ==
  {k \in 1..Len(file) :
      \/ file[k].t \in {"garbage", "headerjunk"}
      \/ (file[k].t = "prop" /\ (file[k].key \notin Keys \/ file[k].v # "good" \/ SectionOf(file, k) = 0))
      \/ (file[k].t \in {"assign", "transform"} /\ file[k].v = "badexpr")
      \/ (file[k].t = "assign" /\ Kind = "merchants" /\ SectionOf(file, k) # 0)
      \/ (file[k].t = "transform" /\ (Kind = "views" \/ SectionOf(file, k) # 0))
      \/ (file[k].t = "header" /\ Incomplete(file, k))
      \/ (file[k].t = "header" /\ \E j \in (k + 1)..SectionEnd(file, k) : file[j].t = "prop" /\ file[j].v = "badexpr")}

\* the observable result: error (with the lines an error message may name) or the rules with their properties.
\* Within a section the ORDER of distinct properties is irrelevant: properties are compared as sets,
\* except let bindings, whose relative order is part of their meaning.
PropSet(r) == {r.props[i] : i \in 1..Len(r.props)}
Lets(r) == SelectSeq(r.props, LAMBDA p : p[1] = "let")
Result(file) ==
  LET p == Parse(file) IN
  IF p.err THEN [err |-> TRUE, lines |-> AllErrLines(file)]
  ELSE [err |-> FALSE,
        rules |-> [i \in 1..Len(p.rules) |-> [name |-> p.rules[i].name, props |-> PropSet(p.rules[i]),
                                               lets |-> Lets(p.rules[i]), vars |-> p.rules[i].vars]],
        globals |-> p.globals, transforms |-> p.transforms]
\* the result without line numbers (for comparing files that differ in comment / blank lines)
Shape(file) == LET r == Result(file) IN IF r.err THEN [err |-> TRUE] ELSE r

InsertAt(seq, k, x) == SubSeq(seq, 1, k) \o <<x>> \o SubSeq(seq, k + 1, Len(seq))     \* after position k (0..Len)
RemoveAt(seq, k) == SubSeq(seq, 1, k - 1) \o SubSeq(seq, k + 1, Len(seq))
SwapAt(seq, k) == [i \in 1..Len(seq) |-> IF i = k THEN seq[k + 1] ELSE IF i = k + 1 THEN seq[k] ELSE seq[i]]

\* ------------------------------------------------------------- properties --
\* comments and blank lines never change what is read
CommentsIrrelevant(file) ==
  \A k \in 0..Len(file) : \A x \in {[t |-> "comment"], [t |-> "blank"]} : Shape(InsertAt(file, k, x)) = Shape(file)
\* swapping two adjacent distinct property lines of one section changes nothing (lets keep their relative order)
PropOrderIrrelevant(file) ==
  \A k \in 1..(Len(file) - 1) :
     (file[k].t = "prop" /\ file[k + 1].t = "prop" /\ file[k].key # file[k + 1].key) => Shape(SwapAt(file, k)) = Shape(file)
\* exactly one rule per section, in file order
OneRulePerSection(file) ==
  LET r == Result(file)
      hs == SelectSeq(file, LAMBDA x : x.t = "header") IN
  ~r.err => Len(r.rules) = Len(hs) /\ \A i \in 1..Len(hs) : r.rules[i].name = hs[i].n
\* every accepted property of the file is in exactly the rule of its section, and nothing else is
ExactProps(file) ==
  LET r == Result(file) IN
  ~r.err => \A i \in 1..Len(r.rules) :
     r.rules[i].props = {<<file[k].key, file[k].id>> : k \in {j \in 1..Len(file) :
           file[j].t = "prop" /\ Cardinality({h \in 1..j : file[h].t = "header"}) = i}}
\* corruption is rejected, never trimmed: a file containing a garbage line, junk after a header, an unknown or malformed
\* property, or an invalid expression is an error
RejectNotTrim(file) ==
  (\E k \in 1..Len(file) :
      \/ file[k].t \in {"garbage", "headerjunk"}
      \/ (file[k].t = "prop" /\ (file[k].key \notin Keys \/ file[k].v # "good"))
      \/ (file[k].t \in {"assign", "transform"} /\ file[k].v = "badexpr")) => Result(file).err
=============================================================================
