SPECIFICATION Spec
CONSTANTS
  MaxUnknown = 4
INVARIANT TypeOK
INVARIANT AdviceIsActionable
PROPERTY FollowingMakesProgress
PROPERTY EventuallyDone
PROPERTY DoneIsStable
