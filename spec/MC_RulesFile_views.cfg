SPECIFICATION Spec
CONSTANTS
  Kind = "views"
  MaxEdits = 1
INVARIANT Inv_CommentsIrrelevant
INVARIANT Inv_PropOrderIrrelevant
INVARIANT Inv_OneRulePerSection
INVARIANT Inv_ExactProps
INVARIANT Inv_RejectNotTrim
INVARIANT Inv_ErrLinesNonEmpty
