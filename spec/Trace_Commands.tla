--------------------------- MODULE Trace_Commands ---------------------------
(* Code -> spec for C20.  Each record is one history of real CLI commands on *)
(* a materialised budget: the abstracted tree before the first command and   *)
(* after every command.  TLC evaluates the frame properties of Commands.tla  *)
(* on every observed step and (as a conformance note, prefix CONF) compares  *)
(* the observed successor with the one the spec predicts.                    *)
EXTENDS Commands, Json, IOUtils, TLCExt

Recs == ndJsonDeserialize(IOEnv.TRACE_FILE)
VARIABLE i

Norm(f) == f      \* records arrive with exactly the spec's fields

StepClauses(c, a, b, first) ==
     (IF c \in ReadOnlyCmds \cup {"up_html"} /\ \E x \in UserFields : b[x] # a[x]
        THEN {"FrameReadOnly:" \o c} ELSE {})
  \cup (IF c \in ReadOnlyCmds /\ b.report # a.report THEN {"FrameReadOnly(report):" \o c} ELSE {})
  \cup (IF c = "init" /\ ~( /\ \A x \in {"views", "data", "gitignore", "csvbak"} : a[x] # "absent" => b[x] = a[x]
                            /\ (a.rules # "absent" => b.rules = a.rules)
                            /\ (a.settings.base # "absent" => IsExtension(a.settings, b.settings))
                            /\ (a.csv = "R" => b.csv = "R" \/ b.csvbak = "R" \/ b.csvbak1 = "R")
                            /\ b.report = a.report )
        THEN {"InitKeeps"} ELSE {})
  \cup (IF b.rules = "M" /\ a.rules # "M" /\ c \notin {"up_migrate", "init"} THEN {"MigrationOnlyOnRequest:" \o c} ELSE {})
  \cup (IF \E x \in {"R", "U", "E", "B", "V", "X", "D", "G"} : OnDisk(first, x) /\ ~OnDisk(b, x) THEN {"BackupKeptAndNothingLost"} ELSE {})
  \cup (IF first.settings.base # "absent" /\ ~IsExtension(first.settings, b.settings) THEN {"SettingsOnlyGrow"} ELSE {})
  \cup (IF Apply(c, a) # b THEN {"CONF " \o c} ELSE {})

RECURSIVE Walk(_, _, _)
Walk(r, j, bad) ==
  IF j > Len(r.cmds) THEN bad
  ELSE Walk(r, j + 1, bad \cup StepClauses(r.cmds[j], r.states[j], r.states[j + 1], r.states[1]))

TInit == i = 0 /\ fs = "-" /\ fs0 = "-" /\ hist = <<>> /\ TLCSet(1, {})
TNext == /\ i < Len(Recs)
         /\ i' = i + 1 /\ UNCHANGED vars
         /\ LET r == Recs[i + 1]
                bad == Walk(r, 1, {}) IN
            IF bad = {} THEN TRUE ELSE TLCSet(1, TLCGet(1) \cup {<<r.id, bad>>})
TSpec == TInit /\ [][TNext]_<<i, vars>>
Done == /\ PrintT(<<"REJECTED", TLCGet(1)>>)
        /\ PrintT(<<"CONSUMED", TLCGet("stats").diameter - 1, Len(Recs)>>)
=============================================================================
