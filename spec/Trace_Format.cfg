SPECIFICATION Spec
POSTCONDITION Done
CHECK_DEADLOCK FALSE
