SPECIFICATION Spec
CONSTANTS
  Amounts <- AmtDeep
  TagIdx = {1, 5, 9}
  Merchants = {"m1", "m2"}
  Cats = {"c1"}
  Months = {"2024-12", "2025-01", "2024-01"}
  Sources = {"s1"}
  MaxLen = 4
INVARIANT ExactlyOneBucket
INVARIANT Conservation
INVARIANT MarginalsAgree
INVARIANT OrderIndependent
INVARIANT ExcludedIffSpecialBucket
INVARIANT ClassAbstractionSound
