SPECIFICATION Spec
CONSTANTS
  Nums = {0, 1}
INVARIANT Neg_OfferMeansNewer
