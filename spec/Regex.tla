------------------------------- MODULE Regex -------------------------------
(***************************************************************************)
(* An exact matcher for the regular-expression FRAGMENT that the           *)
(* specification gives a meaning to (everything outside it is only ever    *)
(* exercised through "two real pipelines agree", C14):                     *)
(*   literal characters, ".", the classes \d \w \s and their complements  *)
(*   \D \W \S (a pattern is case-SENSITIVE in its escapes even though      *)
(*   matching ignores the case of letters), greedy * + ? on a              *)
(*   single-character element, ^ $ \b \B, one capture group, alternation,  *)
(*   negative look-ahead of a literal.  Matching is case-insensitive       *)
(*   (tally always compiles with re.IGNORECASE) and follows Python's       *)
(*   backtracking priority (leftmost start, greedy first), so the capture  *)
(*   group that extract() returns is determined.                           *)
(*                                                                         *)
(* A pattern is a sequence of elements:                                    *)
(*   [e |-> "lit", c |-> code]   [e |-> "any"]   [e |-> "cls", s |-> "d"|"w"|"s"|"D"|"W"|"S"] *)
(*   [e |-> "star"|"plus"|"opt", x |-> single-char element]                *)
(*   [e |-> "bol"] [e |-> "eol"] [e |-> "wb"] [e |-> "nwb"] [e |-> "gs"] [e |-> "ge"] *)
(*   [e |-> "neg", p |-> text]   [e |-> "alt", a |-> pattern, b |-> pattern]*)
(***************************************************************************)
EXTENDS Text

Fail == <<-1, -1, -1>>

CharOK(x, c) ==
  CASE x.e = "lit" -> Upper(c) = Upper(x.c)
    [] x.e = "any" -> c # 10
    [] x.e = "cls" -> (CASE x.s = "d" -> IsDigit(c) [] x.s = "w" -> IsWord(c) [] x.s = "s" -> IsSpace(c)
                            [] x.s = "D" -> ~IsDigit(c) [] x.s = "W" -> ~IsWord(c) [] x.s = "S" -> ~IsSpace(c))
    [] OTHER -> FALSE

\* number of consecutive characters from offset j (0-based) accepted by x
RECURSIVE Run(_, _, _)
Run(x, text, j) == IF j < Len(text) /\ CharOK(x, text[j + 1]) THEN 1 + Run(x, text, j + 1) ELSE 0

WordAt(text, j) == j >= 1 /\ j <= Len(text) /\ IsWord(text[j])      \* character number j (1-based)
RestOf(pat, k) == SubSeq(pat, k + 1, Len(pat))

RECURSIVE M(_, _, _, _, _)
RECURSIVE TryQ(_, _, _, _, _, _, _)
\* match pat[k..] at offset j of text; gs/ge = capture group bounds so far; result <<end, gs, ge>> or Fail
M(pat, k, text, j, g) ==
  IF k > Len(pat) THEN <<j, g[1], g[2]>>
  ELSE LET x == pat[k] IN
    CASE x.e \in {"lit", "any", "cls"} ->
           IF j < Len(text) /\ CharOK(x, text[j + 1]) THEN M(pat, k + 1, text, j + 1, g) ELSE Fail
      [] x.e = "star" -> TryQ(pat, k, text, j, g, Run(x.x, text, j), 0)
      [] x.e = "plus" -> TryQ(pat, k, text, j, g, Run(x.x, text, j), 1)
      [] x.e = "opt"  -> TryQ(pat, k, text, j, g, IF Run(x.x, text, j) >= 1 THEN 1 ELSE 0, 0)
      [] x.e = "bol"  -> IF j = 0 THEN M(pat, k + 1, text, j, g) ELSE Fail
      [] x.e = "eol"  -> IF j = Len(text) \/ (j = Len(text) - 1 /\ text[Len(text)] = 10)
                         THEN M(pat, k + 1, text, j, g) ELSE Fail
      [] x.e = "wb"   -> IF WordAt(text, j) # WordAt(text, j + 1) THEN M(pat, k + 1, text, j, g) ELSE Fail
      \* (\B never matches in an EMPTY text: that is how the re library tally delegates to behaves)
      [] x.e = "nwb"  -> IF Len(text) > 0 /\ WordAt(text, j) = WordAt(text, j + 1) THEN M(pat, k + 1, text, j, g) ELSE Fail
      [] x.e = "gs"   -> M(pat, k + 1, text, j, <<j, g[2]>>)
      [] x.e = "ge"   -> M(pat, k + 1, text, j, <<g[1], j>>)
      [] x.e = "neg"  -> IF IsPrefixAt(UpperT(x.p), UpperT(text), j + 1) THEN Fail ELSE M(pat, k + 1, text, j, g)
      [] x.e = "alt"  -> LET r == M(x.a \o RestOf(pat, k), 1, text, j, g) IN
                         IF r # Fail THEN r ELSE M(x.b \o RestOf(pat, k), 1, text, j, g)
\* greedy: try n repetitions, then n-1, ... down to lo
TryQ(pat, k, text, j, g, n, lo) ==
  IF n < lo THEN Fail
  ELSE LET r == M(pat, k + 1, text, j + n, g) IN
       IF r # Fail THEN r ELSE TryQ(pat, k, text, j, g, n - 1, lo)

\* leftmost match starting at offset >= s: <<start, end, gs, ge>> or <<-1,-1,-1,-1>>
RECURSIVE SearchFrom(_, _, _)
SearchFrom(pat, text, s) ==
  IF s > Len(text) THEN <<-1, -1, -1, -1>>
  ELSE LET r == M(pat, 1, text, s, <<-1, -1>>) IN
       IF r # Fail THEN <<s, r[1], r[2], r[3]>> ELSE SearchFrom(pat, text, s + 1)
Search(pat, text) == SearchFrom(pat, text, 0)
Matches(pat, text) == Search(pat, text)[1] # -1

HasGroup(pat) == \E k \in 1..Len(pat) : pat[k].e = "gs"
\* extract(): first capture group of the leftmost match; "" if no match or no group (or group did not take part)
Extract(pat, text) ==
  LET r == Search(pat, text) IN
  IF r[1] = -1 \/ ~HasGroup(pat) \/ r[3] = -1 \/ r[4] = -1 THEN <<>> ELSE Slice(text, r[3], r[4])

\* regex_replace(): every non-overlapping match replaced by a literal; patterns that can match the empty string are
\* outside the fragment (EmptyMatch tells the caller)
RECURSIVE SubAll(_, _, _, _)
SubAll(pat, text, from, repl) ==
  LET r == SearchFrom(pat, text, from) IN
  IF r[1] = -1 THEN Slice(text, from, Len(text))
  ELSE Slice(text, from, r[1]) \o repl \o (IF r[2] >= Len(text) THEN <<>> ELSE SubAll(pat, text, r[2], repl))
RECURSIVE AnyEmptyMatch(_, _, _)
AnyEmptyMatch(pat, text, from) ==
  LET r == SearchFrom(pat, text, from) IN
  IF r[1] = -1 THEN FALSE ELSE IF r[2] = r[1] THEN TRUE
  ELSE IF r[2] >= Len(text) THEN M(pat, 1, text, Len(text), <<-1, -1>>) # Fail ELSE AnyEmptyMatch(pat, text, r[2])
=============================================================================
