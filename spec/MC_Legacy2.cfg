SPECIFICATION Spec
CONSTANTS
  MaxRules = 2
  CoreP = {1, 3, 9, 13}
  CoreM = {1, 2, 6}
