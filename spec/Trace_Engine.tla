---------------------------- MODULE Trace_Engine ----------------------------
(* Code -> spec for the rule engine (C01, C02, C08, C09).                    *)
(*                                                                           *)
(* Rule files that do NOT come from TLC (random files over the full concrete *)
(* grammar: every match function, amount / date / source / field             *)
(* constraints, nested and / or / not, top-level variables, let bindings,    *)
(* field: directives, static and dynamic tags, priorities, duplicate names)  *)
(* are run through the real engine.  One record per (file variant,           *)
(* transaction):                                                             *)
(*   r.rules[k]  what rule k IS: cat, sub, mer, spec (the ranking tuple of   *)
(*               the statement, computed from the rule's structure by the    *)
(*               generator), and what it yields ON ITS OWN for this          *)
(*               transaction: out ("T" matches / "N" does not or cannot be   *)
(*               evaluated), rtags (resolved tags), xf (extra fields)        *)
(*               - observed by running the real code on the one-rule file    *)
(*   r.obs       what the real code says for the WHOLE file                  *)
(* The combination - selection in both modes, ranking and ties, the tag      *)
(* union, the neutrality of rules without category, the absence of failing   *)
(* rules - is decided by Engine.tla's operators, the same ones MC_Engine     *)
(* checks.  Rejected record ids and failing clause names are collected in    *)
(* TLC register 1 and printed by the POSTCONDITION.                          *)
EXTENDS Engine, Json, IOUtils, TLCExt

Recs == ndJsonDeserialize(IOEnv.TRACE_FILE)

VARIABLE i
vars == <<i>>

ToSet(s) == {s[k] : k \in 1..Len(s)}

\* ---- kind "match" --------------------------------------------------------
MatchClauses(r) ==
  LET rules == r.rules
      n     == Len(rules)
      M     == {k \in 1..n : rules[k].out = "T"}
      s     == Select(r.mode, rules, M)
      o     == r.obs
      unk   == IF r.path = "engine" THEN "" ELSE "Unknown"       \* MatchResult leaves them empty, normalize_merchant says Unknown
      wantTags == UNION {ToSet(rules[k].rtags) : k \in M}
      \* the statement's own clauses, evaluated on what the code produced
      catM  == {k \in M : IsCat(rules[k])}
  IN  (IF o.matched = s.matched THEN {} ELSE {"matched"})
      \cup (IF ~r.hasidx \/ ToSet(o.matching) = M THEN {} ELSE {"matching"})
      \cup (IF ~r.hasidx \/ o.win = s.win THEN {} ELSE {"win"})
      \cup (IF ~r.hasidx \/ o.subwin = s.subwin THEN {} ELSE {"subwin"})
      \cup (IF o.cat = (IF s.matched THEN s.cat ELSE unk) THEN {} ELSE {"category"})
      \cup (IF o.sub = (IF s.matched THEN s.sub ELSE unk) THEN {} ELSE {"subcategory"})
      \cup (IF ~s.matched \/ o.mer = rules[s.win].mer THEN {} ELSE {"merchant"})
      \cup (IF ToSet(o.tags) = wantTags THEN {} ELSE {"tags"})
      \cup (IF o.xf = (IF s.matched THEN rules[s.win].xf ELSE "{}") THEN {} ELSE {"extra_fields"})
      \* model consistency (never a verdict about the code): the laws MC_Engine checks, on this record
      \cup (IF Select(r.mode, rules, catM).win = s.win /\ Select(r.mode, rules, catM).sub = s.sub
            THEN {} ELSE {"MODEL TagOnlyNeutral"})
      \cup (IF r.mode # "first_match" \/ ~s.matched \/ Select(r.mode, rules, {k \in M : k <= s.win}).win = s.win
            THEN {} ELSE {"MODEL LaterRulesIrrelevant"})

\* ---- kind "names": the Unknown merchant name is a function of the (transformed) description -------
NameClauses(r) ==
  IF \A p \in ToSet(r.pairs), q \in ToSet(r.pairs) : p[1] = q[1] => p[2] = q[2] THEN {} ELSE {"unknown-name"}

Clauses(r) == IF r.kind = "match" THEN MatchClauses(r) ELSE NameClauses(r)

Init == i = 0 /\ TLCSet(1, {})
Next == /\ i < Len(Recs)
        /\ i' = i + 1
        /\ LET r == Recs[i + 1]
               bad == Clauses(r) IN
           IF bad = {} THEN TRUE ELSE TLCSet(1, TLCGet(1) \cup {<<r.id, bad>>})
Spec == Init /\ [][Next]_vars

Done == /\ PrintT(<<"REJECTED", TLCGet(1)>>)
        /\ PrintT(<<"CONSUMED", TLCGet("stats").diameter - 1, Len(Recs)>>)
        /\ TLCGet("stats").diameter - 1 = Len(Recs)
=============================================================================
