--------------------------- MODULE Trace_Process ---------------------------
(* Code -> spec for C07.  Each record is one history executed by the real   *)
(* code in ONE interpreter: the initial disk and the list of calls with the *)
(* observed result (an id into a table of distinct observations).  Record   *)
(* "REF" carries the fresh-process reference table                          *)
(*     "<kind>|<rule set or expr>|<txn>" -> observation id.                 *)
(* The history is replayed through the actions of Process.tla (Impl =       *)
(* "intended"): Load/Write update disk and passed as specified, and every   *)
(* classify/match/eval event must carry the observation the reference gives *)
(* for the rule set the SPEC says is current.                               *)
EXTENDS Naturals, Sequences, FiniteSets, TLC, Json, IOUtils, TLCExt

Recs == ndJsonDeserialize(IOEnv.TRACE_FILE)
Ref == Recs[1].ref

OKContents == {"R1", "R2", "R3", "R4", "K1", "K2"}
Returned(c) == IF c \in OKContents THEN c ELSE "empty"

\* state threaded through one history: <<disk, passed, obj, failingClauses>>  (obj: what the long-lived engine object parsed last)
RECURSIVE Walk(_, _, _, _, _, _)
Walk(evs, j, disk, passed, obj, bad) ==
  IF j > Len(evs) THEN bad
  ELSE LET e == evs[j] IN
    IF e.bad THEN bad \cup {"exception-or-mutation"}
    ELSE IF e.op = "write" THEN Walk(evs, j + 1, [disk EXCEPT ![e.p] = e.c], passed, obj, bad)
    ELSE IF e.op = "load" THEN
         Walk(evs, j + 1, disk, IF e.p = "none" THEN "empty" ELSE Returned(disk[e.p]), obj, bad)
    ELSE IF e.op = "classify" THEN
         Walk(evs, j + 1, disk, passed, obj,
              IF e.obs = Ref["classify|" \o passed \o "|" \o e.t] THEN bad ELSE bad \cup {"HistoryIndependent"})
    ELSE IF e.op = "match" THEN
         Walk(evs, j + 1, disk, passed, obj,
              IF e.obs = Ref["match|" \o e.c \o "|" \o e.t] THEN bad ELSE bad \cup {"EngineMatch"})
    ELSE IF e.op = "eval" THEN
         Walk(evs, j + 1, disk, passed, obj,
              IF e.obs = Ref["eval|" \o e.e \o "|" \o e.t] THEN bad ELSE bad \cup {"CachesTransparent"})
    ELSE IF e.op = "objparse" THEN Walk(evs, j + 1, disk, passed, e.c, bad)
    ELSE IF e.op = "objmatch" THEN
         Walk(evs, j + 1, disk, passed, obj,
              IF obj # "none" /\ e.obs = Ref["objmatch|" \o obj \o "|" \o e.t] THEN bad ELSE bad \cup {"ObjHistoryIndependent"})
    ELSE Walk(evs, j + 1, disk, passed, obj, bad)      \* clear: no effect on what decides

VARIABLE i
Init == i = 1 /\ TLCSet(1, {})
Next == /\ i < Len(Recs)
        /\ i' = i + 1
        /\ LET r == Recs[i + 1]
               bad == Walk(r.events, 1, r.disk0, "empty", "none", {}) IN
           IF bad = {} THEN TRUE ELSE TLCSet(1, TLCGet(1) \cup {<<r.id, bad>>})
Spec == Init /\ [][Next]_i
Done == /\ PrintT(<<"REJECTED", TLCGet(1)>>)
        /\ PrintT(<<"CONSUMED", TLCGet("stats").diameter, Len(Recs)>>)
=============================================================================
