SPECIFICATION Spec
CONSTANTS
  Kind = "merchants"
  MaxEdits = 1
INVARIANT Neg_NeverRejects
