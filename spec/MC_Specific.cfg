SPECIFICATION Spec
CONSTANTS
  MaxRules = 2
INVARIANT Inv_OrderIndependent
INVARIANT Inv_TagsOrderIndependent
INVARIANT Inv_TagOnlyNeutral
INVARIANT Inv_NonMatchingIrrelevant
INVARIANT Inv_WinnerIsMaximal
INVARIANT Inv_Lex
