------------------------------- MODULE Engine -------------------------------
(***************************************************************************)
(* The rule engine of tally (C01, C02, C08, C09):                          *)
(*   merchant_engine.MerchantEngine.match   (.rules files)                 *)
(*   merchant_utils.normalize_merchant      (cached engine / legacy loop)  *)
(*                                                                         *)
(* Conditions are abstract: a transaction fixes, for every atom, whether   *)
(* it is true, false or fails to evaluate ("T" / "F" / "E").  What the     *)
(* engine adds on top of atom truth is specified exactly:                  *)
(*   - Python's and / or / not with short-circuit and error propagation    *)
(*   - global variables (evaluated once per transaction, undefined when    *)
(*     they fail), rule-local let bindings (sequential, None when failing, *)
(*     never visible to other rules)                                       *)
(*   - first_match and most_specific selection, specificity ranking        *)
(*   - tag collection over ALL matching rules, dynamic tags                *)
(*   - a rule whose condition fails is skipped (C08)                       *)
(***************************************************************************)
EXTENDS Naturals, Sequences, FiniteSets, TLC

\* ------------------------------------------------------------ conditions --
\* c.k \in {"atom","var","not","and","or"}
RECURSIVE Eval3(_, _, _)
Eval3(c, tv, env) ==
  CASE c.k = "atom" -> tv[c.a]
    [] c.k = "var"  -> IF env[c.n] = "U" THEN "E" ELSE env[c.n]      \* unknown variable = evaluation error
    [] c.k = "not"  -> LET x == Eval3(c.x, tv, env) IN
                       IF x = "E" THEN "E" ELSE IF x = "T" THEN "F" ELSE "T"
    [] c.k = "and"  -> LET l == Eval3(c.l, tv, env) IN
                       IF l = "E" THEN "E" ELSE IF l = "F" THEN "F" ELSE Eval3(c.r, tv, env)
    [] c.k = "or"   -> LET l == Eval3(c.l, tv, env) IN
                       IF l = "E" THEN "E" ELSE IF l = "T" THEN "T" ELSE Eval3(c.r, tv, env)

Vars == {"g1", "l1"}
NoEnv == [n \in Vars |-> "U"]

\* global variables: each evaluated on its own (no variable may use another); a failing one stays undefined
RECURSIVE GlobalEnv(_, _, _, _)
GlobalEnv(gs, k, tv, env) ==
  IF k > Len(gs) THEN env
  ELSE LET v == Eval3(gs[k].c, tv, NoEnv) IN
       GlobalEnv(gs, k + 1, tv, IF v = "E" THEN env ELSE [env EXCEPT ![gs[k].n] = v])

\* let bindings of ONE rule: sequential, on a copy of the global environment; a failing binding is None (falsy)
RECURSIVE LetEnv(_, _, _, _)
LetEnv(ls, k, tv, env) ==
  IF k > Len(ls) THEN env
  ELSE LET v == Eval3(ls[k].c, tv, env) IN
       LetEnv(ls, k + 1, tv, [env EXCEPT ![ls[k].n] = IF v = "E" THEN "F" ELSE v])

\* outcome of rule r of file f on transaction t: "T" matches, "F" does not, "E" cannot be evaluated (skipped)
Outcome(f, r, t) ==
  LET genv == GlobalEnv(f.globals, 1, t.v, NoEnv) IN
  Eval3(r.cond, t.v, LetEnv(r.lets, 1, t.v, genv))

Matches(f, t) == {i \in 1..Len(f.rules) : Outcome(f, f.rules[i], t) = "T"}

\* ------------------------------------------------------------------ tags --
\* static tags are lower-cased names; the dynamic tag "dyn" resolves through the transaction
ResolveTags(r, t) ==
  (r.tags \ {"dyn"}) \cup (IF "dyn" \in r.tags /\ t.dyn = "val" THEN {"dynv"} ELSE {})

TagsOf(rules, M, t) == UNION {ResolveTags(rules[i], t) : i \in M}

\* ------------------------------------------------------------- selection --
IsCat(r) == r.cat # ""
Unknown == [matched |-> FALSE, win |-> 0, cat |-> "Unknown", sub |-> "Unknown", subwin |-> 0]

Min(S) == CHOOSE x \in S : \A y \in S : x <= y

\* first_match: the first categorising rule, in file order, whose condition is true
FirstMatch(rules, M) ==
  LET C == {i \in M : IsCat(rules[i])} IN
  IF C = {} THEN Unknown
  ELSE LET w == Min(C) IN
       [matched |-> TRUE, win |-> w, cat |-> rules[w].cat, sub |-> rules[w].sub,
        subwin |-> IF rules[w].sub # "" THEN w ELSE 0]

\* specificity: <<priority, #pattern conditions, #constraint kinds, pattern text length>>, lexicographic
SpecLess(a, b) ==     \* a strictly below b
  \/ a[1] < b[1]
  \/ a[1] = b[1] /\ a[2] < b[2]
  \/ a[1] = b[1] /\ a[2] = b[2] /\ a[3] < b[3]
  \/ a[1] = b[1] /\ a[2] = b[2] /\ a[3] = b[3] /\ a[4] < b[4]
\* the highest-ranked index of S; exact ties go to the earlier rule
Best(rules, S) ==
  CHOOSE i \in S : \A j \in S \ {i} :
     \/ SpecLess(rules[j].spec, rules[i].spec)
     \/ rules[j].spec = rules[i].spec /\ i < j

\* most_specific: category (and merchant) from the best categorising rule; subcategory from the best
\* categorising rule that sets one.  A rule without category never takes part (C02).
MostSpecific(rules, M) ==
  LET C == {i \in M : IsCat(rules[i])}
      S == {i \in C : rules[i].sub # ""} IN
  IF C = {} THEN Unknown
  ELSE LET w == Best(rules, C) IN
       [matched |-> TRUE, win |-> w, cat |-> rules[w].cat,
        sub |-> IF S = {} THEN "" ELSE rules[Best(rules, S)].sub,
        subwin |-> IF S = {} THEN 0 ELSE Best(rules, S)]

Select(mode, rules, M) == IF mode = "first_match" THEN FirstMatch(rules, M) ELSE MostSpecific(rules, M)

\* the whole classification of one transaction
Classify(f, t) ==
  LET M == Matches(f, t)
      s == Select(f.mode, f.rules, M) IN
  [matched |-> s.matched, win |-> s.win, cat |-> s.cat, sub |-> s.sub, subwin |-> s.subwin,
   tags |-> TagsOf(f.rules, M, t), matching |-> M]

\* ------------------------------------------------------ file manipulation --
RemoveAt(seq, i) == [k \in 1..(Len(seq) - 1) |-> IF k < i THEN seq[k] ELSE seq[k + 1]]
WithRules(f, rs) == [f EXCEPT !.rules = rs]

\* the observable result, with the winning rule identified by its id (indices shift when rules are removed)
Obs(f, t) == LET c == Classify(f, t) IN
  [cat |-> c.cat, sub |-> c.sub, tags |-> c.tags,
   win |-> IF c.win = 0 THEN "none" ELSE f.rules[c.win].id,
   subwin |-> IF c.subwin = 0 THEN "none" ELSE f.rules[c.subwin].id]

\* ------------------------------------------------------------- properties --
\* C01: rules whose condition is not true have no influence on any part of the result
NonMatchingIrrelevant(f, t) ==
  \A i \in 1..Len(f.rules) :
     Outcome(f, f.rules[i], t) # "T" => Obs(WithRules(f, RemoveAt(f.rules, i)), t) = Obs(f, t)
\* C01 (first_match): rules after the winner cannot change merchant/category/subcategory
LaterRulesIrrelevant(f, t) ==
  LET c == Classify(f, t) IN
  (f.mode = "first_match" /\ c.matched) =>
     \A i \in (c.win + 1)..Len(f.rules) :
        LET o == Obs(WithRules(f, RemoveAt(f.rules, i)), t) IN
        o.cat = c.cat /\ o.sub = c.sub /\ o.win = f.rules[c.win].id
\* C02: removing a rule that has no category never changes category / subcategory / winner, in either mode
TagOnlyNeutral(f, t) ==
  \A i \in 1..Len(f.rules) :
     ~IsCat(f.rules[i]) =>
        LET o == Obs(WithRules(f, RemoveAt(f.rules, i)), t)
            p == Obs(f, t) IN
        o.cat = p.cat /\ o.sub = p.sub /\ o.win = p.win /\ o.subwin = p.subwin
\* C02: tags are exactly the union over matching rules - independent of mode and of who wins
TagsAreUnion(f, t) ==
  Classify(f, t).tags = UNION {ResolveTags(f.rules[i], t) : i \in Matches(f, t)}
\* C08: a rule that cannot be evaluated behaves as if it were absent
ErrorIsAbsence(f, t) ==
  \A i \in 1..Len(f.rules) :
     Outcome(f, f.rules[i], t) = "E" => Obs(WithRules(f, RemoveAt(f.rules, i)), t) = Obs(f, t)
\* C01: a let binding is local to its rule: deleting the lets of rule i changes no OTHER rule's outcome
LetIsLocal(f, t) ==
  \A i \in 1..Len(f.rules) :
     LET g == WithRules(f, [f.rules EXCEPT ![i] = [@ EXCEPT !.lets = <<>>]]) IN
     \A j \in 1..Len(f.rules) \ {i} : Outcome(g, g.rules[j], t) = Outcome(f, f.rules[j], t)
\* C09: the result in most_specific mode does not depend on the order of the rules, except that exact ties go
\*      to the earlier rule: swapping two adjacent rules with different specificity changes nothing
Swap(seq, i) == [k \in 1..Len(seq) |-> IF k = i THEN seq[i + 1] ELSE IF k = i + 1 THEN seq[i] ELSE seq[k]]
OrderIndependent(f, t) ==
  f.mode = "most_specific" =>
    \A i \in 1..(Len(f.rules) - 1) :
       f.rules[i].spec # f.rules[i + 1].spec =>
          Obs(WithRules(f, Swap(f.rules, i)), t) = Obs(f, t)
\* C09: tags still accumulate from all matching rules whatever the order
TagsOrderIndependent(f, t) ==
  \A i \in 1..(Len(f.rules) - 1) : Obs(WithRules(f, Swap(f.rules, i)), t).tags = Obs(f, t).tags
=============================================================================
