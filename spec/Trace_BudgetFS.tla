--------------------------- MODULE Trace_BudgetFS ---------------------------
(* Code -> spec for C15/C20: every injected crash / fault scenario executed   *)
(* against the real CLI is abstracted to BudgetFS content classes            *)
(*   fs0 (before), fs1 (after the interrupted run), fs2 (after re-running)   *)
(* together with what the real `tally up` classified with in each of them    *)
(* (eff0, eff1, eff2 : "R" | "U" | "Empty" | "P" | "Fail").  TLC evaluates   *)
(* the BudgetFS invariants on what the code really did.                      *)
EXTENDS BudgetFS, Json, IOUtils, TLCExt

Recs == ndJsonDeserialize(IOEnv.TRACE_FILE)
VARIABLE i

Lost(a, b) == {x \in UserContents : OnDisk(a, x) /\ ~OnDisk(b, x)}
Known(f) == /\ f.csv \in {"absent", "R"} /\ f.bak \in {"absent", "R", "B"}
            /\ f.rules \in {"absent", "U", "M", "Mpart", "empty"}
ModelEff(f) == LET e == Effective(f) IN IF e \in {"NoData", "NoSettings"} THEN "Fail" ELSE e

Clauses(r) ==
     (IF Lost(r.fs0, r.fs1) # {} THEN {"NoContentLost@interrupted"} ELSE {})
  \cup (IF Lost(r.fs0, r.fs2) # {} THEN {"NoContentLost@rerun"} ELSE {})
  \cup (IF r.eff0 \in {"R", "U"} /\ r.eff1 \in {"Empty", "P"}
            /\ (OnDisk(r.fs1, "R") \/ OnDisk(r.fs1, "U"))
        THEN {"NeverEmptyWhileRulesExist"} ELSE {})
  \cup (IF r.eff0 \in {"R", "U"} /\ r.eff1 # r.eff0 /\ r.eff2 # r.eff0 THEN {"Unrecoverable"} ELSE {})
  \cup (IF r.mode = "clean" /\ r.eff0 \in {"R", "U"} /\ r.eff1 # r.eff0 THEN {"DoneSame"} ELSE {})
  \* conformance of the model's load_config abstraction with the real one (not a property clause)
  \cup (IF r.fs0.settings # "absent" /\ Known(r.fs1) /\ ModelEff(r.fs1) # r.eff1 THEN {"CONF Effective(fs1)"} ELSE {})
  \cup (IF r.fs0.settings # "absent" /\ Known(r.fs0) /\ ModelEff(r.fs0) # r.eff0 THEN {"CONF Effective(fs0)"} ELSE {})

\* BudgetFS's own variables are not used by the trace spec (its operators are applied to logged records)
Idle == /\ fs = "-" /\ pc = 0 /\ phase = "-" /\ fs0 = "-" /\ reruns = 0 /\ faulted = FALSE /\ runFault = FALSE
TInit == i = 0 /\ Idle /\ TLCSet(1, {})
TNext == /\ i < Len(Recs)
         /\ i' = i + 1 /\ UNCHANGED vars
         /\ LET r == Recs[i + 1]
                bad == Clauses(r) IN
            IF bad = {} THEN TRUE ELSE TLCSet(1, TLCGet(1) \cup {<<r.id, bad>>})
TSpec == TInit /\ [][TNext]_<<i, vars>>
Done == /\ PrintT(<<"REJECTED", TLCGet(1)>>)
        /\ PrintT(<<"CONSUMED", TLCGet("stats").diameter - 1, Len(Recs)>>)
=============================================================================
