SPECIFICATION Spec
CONSTANTS
  MaxSteps = 2
INVARIANT Neg_ModeNeverMatters
