SPECIFICATION Spec
CONSTANTS
  PairInit = FALSE
  MaxSteps = 2
INVARIANT Neg_ModeNeverMatters
