SPECIFICATION Spec
CONSTANTS
  RulesPaths = {"a.rules", "b.rules"}
  CsvPaths = {"c.csv"}
  RulesOK = {"R1", "R2", "R3", "R4"}
  RulesBad = {"RBAD", "RMISSING"}
  CsvOK = {"K1", "K2"}
  CsvBad = {"KMISSING"}
  Txns = {"t1", "t2", "t3", "t4"}
  Exprs = {"e1", "e2", "e3", "e4", "e5", "e6", "e7", "e8", "e9", "e10", "e11", "e12", "e13", "e14", "e15", "e16"}
  Impl = "intended"
  WithClear = FALSE
  WithObj = TRUE
  MaxSteps = 14
INVARIANT TypeOK
INVARIANT HistoryIndependent
INVARIANT CacheCoherent
PROPERTY ReadOnlyCalls
