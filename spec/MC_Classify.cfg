SPECIFICATION Spec
INVARIANT OneBucket
INVARIANT EffectiveStable
INVARIANT FoldedOnly
INVARIANT ExcludedIffNotSpendCredit
