SPECIFICATION Spec
CONSTANTS
  MaxRules = 1
  Rich = FALSE
  Modes = {"first_match"}
INVARIANT Neg_TagOnlyNeverMatches
